#!/usr/bin/env python3
"""print the compile command found in the header comment of a demo file (joins backslash-continued lines)"""
import re, sys
lines = open(sys.argv[1]).read().split('\n')[:80]
for i, l in enumerate(lines):
    s = l.strip().lstrip('*/ \t')
    if re.match(r'(gcc|cc|clang) ', s):
        cmd = s
        j = i
        while cmd.endswith('\\') and j + 1 < len(lines):
            j += 1
            cmd = cmd[:-1].rstrip() + ' ' + lines[j].strip().lstrip('* \t')
        cmd = cmd.split('&&')[0].strip()
        print(cmd)
        break
