#!/bin/bash
# verify_seed.sh <ID> <N> : confirm a sub-agent's seeded change in its scratch worktree /tmp/mut/<ID>:
#  applies patchN, rebuilds, runs the full ctest (must pass), runs demoN (must fail); reverts, rebuilds, runs demoN (must pass).
ID=$1; N=$2; W=/tmp/mut/$ID; O=/tmp/mutout/$ID; mkdir -p $O/work
cd $W || exit 2
git checkout -q -- . ; git apply --check $O/patch$N.diff || { echo "PATCH DOES NOT APPLY"; exit 2; }
CMD=$(python3 /verif/tools/demo_cmd.py $O/demo$N.c)
[ -z "$CMD" ] && CMD="gcc -g -I include $O/demo$N.c _build/libsndfile.a -lm -o $O/work/demo$N"
echo "demo build cmd: $CMD"
build_demo() { (cd $W && eval "$CMD") >/dev/null 2>&1 || (cd $W && gcc -g -I include $O/demo$N.c _build/libsndfile.a -lm -o $O/work/demo$N); }
git apply $O/patch$N.diff && ninja -C _build >/dev/null 2>&1 || { echo "BUILD FAILED"; git checkout -q -- .; exit 2; }
T=$(ctest --test-dir _build -j8 --timeout 900 2>&1 | grep "tests passed")
echo "ctest with patch: $T"
build_demo
BIN=$(echo "$CMD" | sed -nE 's/.* -o ([^ ]+).*/\1/p'); [ -z "$BIN" ] && BIN=$O/work/demo$N
case $BIN in /*) ;; *) BIN=$W/$BIN;; esac
RUN=""; head -60 $O/demo$N.c | grep -q "valgrind" && RUN="valgrind -q --error-exitcode=1"
mkdir -p $O/run; (cd $O/run && timeout 300 $RUN $BIN >/dev/null 2>&1); RC1=$?
echo "demo with patch rc=$RC1"
git checkout -q -- . ; ninja -C _build >/dev/null 2>&1
build_demo
(cd $O/run && timeout 300 $RUN $BIN >/dev/null 2>&1); RC0=$?
echo "demo without patch rc=$RC0"
case "$T" in 100%*) ;; *) echo "RESULT: REJECT (ctest)"; exit 1;; esac
if [ $RC1 -ne 0 ] && [ $RC0 -eq 0 ]; then echo "RESULT: CONFIRMED"; else echo "RESULT: REJECT (demo)"; exit 1; fi
