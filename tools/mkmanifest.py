#!/usr/bin/env python3
"""Generates MANIFEST.json from the table below (single source of truth for what is claimed)."""
import json, os
V = os.path.dirname(os.path.dirname(os.path.abspath(__file__)))
props = [json.loads(l) for l in open(os.path.join(V, 'properties.jsonl'))]

# id -> (design_ref, clause text, technique)   only for properties whose rules exist in rules/<id>.py
CLAIMED = {
 'C13': ('DESIGN.md §4 C13',
         'Decides structural necessary clauses only: every realloc-grown table (chunk tables, header cache, string storage, ALAC packet table) '
         'updates its capacity field on every success path; every chunks[] subscript is within [0, used) or is the capacity-guarded append slot; '
         'all get_chunk_data hooks copy <= datalen bytes into a non-NULL buffer and restore the file position; the public chunk API validates '
         'arguments before dispatch. Payload identity after re-open and "audio untouched" are not decided.',
         'custom clang-AST/CFG dataflow: must-pass path rule + demand-driven interval/upper-bound analysis'),
 'C10': ('DESIGN.md §4 C10',
         'Exact decision table of sf_format_check by constant propagation with case splitting over the finite class product (premise: the function is pure and '
         'comparison-only, checked); for every accepted class feasible-path exploration of psf_open_file proves a success return is reachable and all four '
         'write_T (write mode) / read_T (read mode) slots are assigned; for every rejected class no success return is feasible (open-time gate); enumeration '
         'tables distinct/named, simple formats accepted, every major usable, getter indices inside the tables. Run-time acceptance of frames and identical re-open are not decided.',
         'partial evaluation (constant propagation + case split) over clang CFG with interprocedural feasible-path exploration; table extraction'),
 'C19': ('DESIGN.md §4 C19',
         'Complete inventory of all 66 non-const static-storage objects of the library units against a frozen, reasoned table (read-only tables never written or passed '
         'where they could be written; capability caches written before every read; log scratch buffers rewritten before use; PRNG state confined; diagnostics read only on '
         'NULL-handle branches); descriptor fields reset to -1 after every raw close; no pointer stored into static storage. Shared mutable state is the only in-process '
         'channel between handles in single-threaded use, so these are necessary conditions; interleaving semantics themselves are not decided.',
         'whole-program inventory + effect summaries + must-precede path rules over clang AST/CFG'),
 'C16': ('DESIGN.md §4 C16',
         'Ownership clauses decided on every CFG path: all SF_PRIVATE-owned pointer fields that ever receive a fresh allocation are freed in psf_close; nested private-struct '
         'resources are released from the close hooks; no release in psf_close / a close hook can be skipped by an early return once its guards hold; releasing hooks are installed '
         'before any failing return that follows an acquisition; no local allocation reaches a function exit unreleased; failed opens pass psf_close and set sf_errno; temp files are '
         'fclosed and removed. Leaks that depend on histories of API calls are not decided.',
         'ownership dataflow + control-dependence (guarded release no-skip) + dominance rules over clang CFG'),
 'C17': ('DESIGN.md §4 C17',
         'For sf_command and every callee that receives the caller buffer: each access through data (deref, member, subscript, memcpy/memset/snprintf, helper calls, '
         'container command hooks) has a byte extent covered by the facts the interval/upper-bound analysis derives for datasize at that point, and is dominated by data != NULL; '
         'strlen of the buffer only after a bounded snprintf with datasize >= 1; every query command id explored by partial evaluation writes no handle state except the error field; '
         'no path falls off without a return value. Decided for datasize >= 0 as the property states.',
         'guarded-access analysis: demand-driven interval + symbolic (linear / division-form) bounds over clang CFG, interprocedural with entry facts; partial evaluation for purity'),
 'C09': ('DESIGN.md §4 C09',
         'Every public entry point validates the handle (NULL + magic) before use and clears the error (error queries must not); every rejecting early return records or returns a '
         'non-zero SFE_* code and has no other side effect; the sixteen typed read/write wrappers agree family-wise on their ordered guard lists, error codes, return values and '
         'position updates and match the frozen contract; the error table is total, unique and non-empty; failing opens pass psf_close and set sf_errno. '
         'Histories of interleaved calls and file-content preservation are not decided.',
         'sibling fact-sheet cross-check (normalised AST facts), table extraction, must-pass path rules over clang CFG'),
 'C14': ('DESIGN.md §4 C14',
         'Structural clauses that make the routes one implementation: only file_io.c touches descriptors and raw syscalls; every descriptor syscall in an I/O primitive is reached only '
         'with virtual_io == 0 (the vio route returned before); raw close only with virtual_io == 0 and do_not_close_descriptor == 0, the flag is !close_desc, early failures of sf_open_fd '
         'close the caller descriptor only under close_desc; all three open entry points initialise the descriptor fields to -1 before anything can fail; fileoffset is applied symmetrically '
         'in seek/tell/length; embedding whitelist and append-at-end positioning. Equality of results across routes is not decided.',
         'who-may-call / layering rule + guard-fact (interval) analysis on clang CFG + dominance rules'),
 'C04': ('DESIGN.md §4 C04',
         'Close hooks rewrite the header with calc_length = SF_TRUE after any tailer; calc_length blocks recompute file/data length and frames from the real file size; header writers never '
         'use the read/write positions; the five sample-granular inits derive frames from datalength / (bytewidth * channels); write-open resets the caller frame count; named encoding codes '
         'written by WAV/WAVEX/W64/AU/AIFF writer arms map back to the same subformat in the reader arms. Frame-count arithmetic (N <= F < N + B, padding) and rate representability are not decided.',
         'slot-sibling required-fact rules, switch/if arm-table extraction and cross-check, partial evaluation for mode feasibility'),
 'C11': ('DESIGN.md §4 C11',
         'Every write_header saves the file position before moving it and restores it on every non-error path after the header bytes were written; WAV/AIFF/RF64 refuse to grow the header once '
         'data exists; SFC_UPDATE_HEADER_NOW and the auto-update tail of all write wrappers call write_header (TRUE) after the position/frame-count updates; header writers never read the '
         'positions; the SDS header writer restores the codec counters around its temporary block flush. That the image at a crash point parses to the right prefix is not decided.',
         'save/restore PAIR (must-pass) rule over clang CFG with error-exit and guard-edge pruning; sibling required facts'),
 'C06': ('DESIGN.md §4 C06',
         'The sf_seek decision table (whence x open mode x offset class, 96 classes, extracted by partial evaluation) equals the documented one; the codec seek is reached only after the '
         'seekable and range tests; every -1 return of sf_seek and of all seek-slot functions has an error recorded and no error code is returned as a position; block-addressed codec seeks '
         'use quotient/remainder by the same block length, the block byte size for the file offset, and set counter -> decode -> in-block position in that order. '
         'Sample-sequence equality under arbitrary read partitions is not decided.',
         'partial evaluation decision table vs documented oracle; must-precede path rules; sibling template facts'),
 'C05': ('DESIGN.md §4 C05',
         'The 18 public read/write wrappers agree on guards, clamp, zero fill, position and frame-count updates and contain every required fact of the documented contract; all 121 '
         'BUF_UNION staging loops are bounded by the buffer capacity and by the remaining request, count what was transferred on every path, leave on a short transfer and convert only what '
         'was read; in every block codec worker each access to the caller buffer is proven (interval / symbolic upper bounds, element size as unit, remaining-request idiom) to lie inside the '
         'requested items. One known finding (VOX odd-count overflow) is listed. Content of delivered items is not decided.',
         'sibling fact sheets + loop template obligations + guarded-access bound analysis over clang CFG'),
 'C08': ('DESIGN.md §4 C08',
         'Per (whence, open mode, offset class) sf_seek updates exactly the documented pointer set and really seeks when both pointers must move; all 18 wrappers re-seek to their own pointer when '
         'the previous operation was of the other kind and RDWR opens start writing at the end; SFC_FILE_TRUNCATE seeks, stores the frame count and truncates at the byte position taken after the '
         'seek, read-only handles refused; WAV RDWR close truncates only a stale tail and rewrites the header afterwards. Operation-sequence semantics are not decided.',
         'partial-evaluation decision table vs documented oracle; required-fact checks on normalised wrapper sheets; dominance rules'),
 'C18': ('DESIGN.md §4 C18',
         'Both peak updaters scan per channel with stride = channels, strict comparisons (first occurrence wins inside and across calls) and the documented position formula, and agree with '
         'each other; every float/double write path calls the updater on the converted chunk, with the chunk offset in frames, before byte swap and write; chunk lengths are rounded to whole '
         'frames; the two CALC helpers save position and SFC_GET_NORM_DOUBLE and restore both on every path after the first change; GET commands read exactly `channels` stored peaks. '
         'Numerical equality with the true maxima is not decided.',
         'fact extraction from loop/branch structure + sibling agreement + save/restore PAIR (must-pass) rules'),
 'C20': ('DESIGN.md §4 C20',
         'G.711 decode tables equal the ITU-T expansion for all 256 codes and the encode tables equal the G.711 compression on every grid magnitude (10 754 entries compared with references written '
         'from the Recommendation), encode(decode(c)) = c; the sixteen array kernels use exactly the grid index expressions (negate before scaling, 0x7F sign mask); IMA / MS ADPCM / OKI tables equal '
         'the published ones; the IMA step index clamp returns a value inside the table and scalar step-table indices are proven in range. IEEE serialiser arithmetic and sample-exact ADPCM decoding are not decided.',
         'constant-table extraction (clang-folded initialisers) compared with independent references; required-expression facts; interval analysis for the clamp'),
 'C02': ('DESIGN.md §4 C02',
         'For every float/double <-> integer kernel (pcm.c, common.c, float32.c, double64.c, ulaw.c, alaw.c): the normalised / un-normalised scale constants, the clip thresholds and the saturation '
         'bytes (value and byte order) equal closed formulas in the encoded width; constants are selected by the norm_float / norm_double / add_clipping / float_int_mult / scale_int_float switch of '
         'the right type and sf_command writes exactly those switches; no kernel truncates (all round through psf_lrint/psf_lrintf). Numeric results of individual values and the int<->int lane '
         'moves are not decided.',
         'AST fact extraction (folded constants, branch conditions, stores) checked against width formulas; partial evaluation for command wiring'),
 'C01': ('DESIGN.md §4 C01',
         'Bit-lane proof (symbolic evaluation of one kernel iteration, valid for all sample values) that every integer PCM kernel reads / writes the documented bits in the documented byte order and '
         'that float/double kernels use the same lanes; staging functions call the kernel of their own code with the matching element size; pcm_init / float32_init / double64_init install the '
         'functions and swap flag their keys denote; every block codec that emits blocks only when full also emits the partial block from its close hook in write mode; close hooks rewrite the '
         'header. ALAC / DWVW / DPCM / SDS / PAF bit-stream arithmetic and int<->float scaling round trips are not decided.',
         'symbolic bit-lane abstract interpretation of conversion kernels; dispatch table extraction; partial evaluation for close-hook reachability'),
 'C03': ('DESIGN.md §4 C03',
         'All 226 copy sinks with a visible fixed-capacity destination are proven bounded by the interval / upper-bound analysis (5 carry a written argument); every reading loop outside the '
         'staging loops has an exit controlled by read progress or a non-wrapping monotone counter; psf_open_file reaches success only through validate_sfinfo / validate_psf with the documented '
         'comparisons; header cache growth is capped and every cache write follows a capacity test; caller-supplied codec geometry is checked before it divides. '
         'Absence of all memory errors for all inputs (heap destinations without visible capacity) and the time bound as such are not decided.',
         'bounded-sink proof by demand-driven interval + symbolic bound analysis; loop-exit idiom analysis; dominance rules'),
 'C15': ('DESIGN.md §4 C15',
         'psf_fread / psf_fwrite retry only EINTR, stop on zero transfers and latched errors, account exactly the transferred bytes and return total / bytes; every staging loop counts what was '
         'transferred and leaves on a short transfer; no reading loop can spin without read progress; failed opens and close hooks release everything on every path (no release skippable). '
         'Values under inconsistent tell/length answers, time bounds and non-corruption of earlier data are not decided.',
         'required-fact extraction on the I/O primitives + shared loop / ownership path rules (C03, C05, C16)'),
 'C12': ('DESIGN.md §4 C12',
         'Writer and reader string tables agree per container (WAV LIST-INFO ids, AIFF text chunk ids, CAF info keys through the reader\'s hash) and every type written is restored; bext and cart '
         'writer/reader field sequences (spec, field, width, reserved skip) are identical and the PEAK letter sequences agree; every AIFF text arm consumes the pad byte; every metadata setter tests '
         'have_written and all nine write wrappers set it before transferring. Content-dependent survival of values is not decided.',
         'switch/if arm-table extraction and cross-check; format-string field-sequence extraction; required-fact checks'),
 'C07': ('DESIGN.md §4 C07',
         'Every block codec write function emits encoded data only under a fullness test of a carried counter (recursive unconditional-emitter analysis over the write slots) and no write worker '
         'resets the carried counter, so block boundaries depend on the concatenated samples only; the only clock / random / environment calls in the library units are the frozen documented ones '
         'with frozen callers. VOX ADPCM (encodes per call) is listed as a known finding. Byte identity of files and encoder state content are not decided.',
         'call-graph + control-dependence analysis of emission points; who-may-call inventory for nondeterminism sources'),
}
REASONS = {}
DEFAULT_REASON = 'check not built yet (work in progress); see DESIGN.md'

checks = []
na = []
for p in props:
    pid = p['id']
    if pid in CLAIMED and os.path.exists(os.path.join(V, 'rules', pid + '.py')):
        ref, text, tech = CLAIMED[pid]
        ref = ref.replace('DESIGN.md §4', 'DESIGN.md §7.2 (as built) and §4')
        # rule names registered by the rule module (kept current from the rule sources)
        import re
        src_ = open(os.path.join(V, 'rules', pid + '.py')).read()
        names_ = []
        for m_ in re.finditer(r"ctx\.rule\(\s*'([A-Z0-9-]+)'", src_):
            if m_.group(1) not in names_:
                names_.append(m_.group(1))
        text = text + ' Rules: ' + ', '.join(names_) + ' (texts, instance counts and floors: RULES.md / evidence file).'
        checks.append({
            'property_id': pid,
            'quick_cmd': './check %s --tier quick' % pid,
            'thorough_cmd': './check %s --tier thorough' % pid,
            'evidence_file': '/verif/evidence/%s.json' % pid,
            'replay_cmd_template': './check explain {path}',
            'engine': 'sfx+engine',
            'level_claimed': {'category': 'other', 'text': text, 'design_ref': ref},
            'level_note': 'quick = all rules on the configured build of /repo\'s working tree; thorough = the same plus configuration overlays (big-endian CPU, no SSE2 / no lrint; see engine/run_thorough.py) and positive controls (reverse of every recorded fix + every seeded change for this property applied to a scratch copy must be reported; engine/controls.py). Trusted base: clang 14 front end (AST, CFG, constant folding), the sfx extractor, the Python engine and the rule module; '
                          'compile flags taken from the ninja compilation database of /repo/_build. The behavioural property as a whole is NOT decided; '
                          'only the named structural clauses, which are necessary conditions, are.',
            'technique': 'static analysis: ' + tech,
        })
    else:
        na.append({'property_id': pid, 'reason': REASONS.get(pid, DEFAULT_REASON)})
m = {
 'version': 1,
 'setup_cmd': 'python3 -c "from engine.facts import build_sfx; build_sfx()"',
 'hooks': {'guard': 'LIBSNDFILE_VERIF', 'enable': 'no hooks: the analysis reads /repo sources as they are (nothing is compiled into the library)',
           'baseline_off_cmd': 'cmake --build /repo/_build >/dev/null && ctest --test-dir /repo/_build -j8 --timeout 900',
           'source_commits': [], 'add_only': True},
 'engines': [{'name': 'sfx+engine', 'path': 'tools/sfx/sfx.cc, engine/, rules/', 'serves_properties': [c['property_id'] for c in checks],
              'kind_free_text': 'libTooling fact extractor (type-checked AST + clang CFG per function, folded tables, record layouts) + '
                                'pure-Python analyses (call graph with function-pointer slot resolution, dominators/must-pass, demand-driven '
                                'interval + symbolic bound analysis, effect summaries) + repository-specific rules'}],
 'checks': checks,
 'notes': 'All checks are static: nothing from /repo is executed. Exit 0 = all obligations held (known findings printed as KNOWN-FINDING); '
          'exit 1 = VIOLATION line(s); exit 2 = ANALYSIS-BROKEN (anchor vanished, extractor failure, vacuous rule) which is neither.',
 'not_applicable': na,
}
json.dump(m, open(os.path.join(V, 'MANIFEST.json'), 'w'), indent=1)
print('claimed:', [c['property_id'] for c in checks])
