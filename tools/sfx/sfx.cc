// sfx — libTooling fact extractor for the libsndfile static checks.
// Emits, per translation unit, one JSON file: functions (slim AST + clang CFG), globals with folded
// initialisers, record layouts, enum constants.  See DESIGN.md Appendix A.
//
// usage: sfx -p <builddir> --out=<file.json> --root=/repo <source.c> [--extra-arg=...]

#include "clang/AST/ASTConsumer.h"
#include "clang/AST/ASTContext.h"
#include "clang/AST/Expr.h"
#include "clang/AST/RecordLayout.h"
#include "clang/AST/RecursiveASTVisitor.h"
#include "clang/AST/Stmt.h"
#include "clang/Analysis/CFG.h"
#include "clang/Frontend/CompilerInstance.h"
#include "clang/Frontend/FrontendAction.h"
#include "clang/Lex/Lexer.h"
#include "clang/Tooling/CommonOptionsParser.h"
#include "clang/Tooling/Tooling.h"
#include "llvm/Support/CommandLine.h"
#include "llvm/Support/JSON.h"
#include "llvm/Support/raw_ostream.h"

#include <map>
#include <set>
#include <string>
#include <vector>

using namespace clang;
using namespace clang::tooling;
using llvm::json::OStream;

static llvm::cl::OptionCategory Cat("sfx options");
static llvm::cl::opt<std::string> OutFile("out", llvm::cl::desc("output json"), llvm::cl::cat(Cat), llvm::cl::Required);
static llvm::cl::opt<std::string> Root("root", llvm::cl::desc("repository root"), llvm::cl::cat(Cat), llvm::cl::init("/repo"));

namespace {

struct Extractor {
  ASTContext &Ctx;
  SourceManager &SM;
  OStream &J;
  std::map<const Decl *, int> DeclIds;
  std::set<const RecordDecl *> Records;
  std::vector<const VarDecl *> StaticLocals;
  std::map<const VarDecl *, std::string> StaticLocalOwner;

  Extractor(ASTContext &C, OStream &J) : Ctx(C), SM(C.getSourceManager()), J(J) {}

  int declId(const Decl *D) {
    D = D->getCanonicalDecl();
    auto It = DeclIds.find(D);
    if (It != DeclIds.end()) return It->second;
    int Id = (int)DeclIds.size() + 1;
    DeclIds[D] = Id;
    return Id;
  }

  std::string fileOf(SourceLocation L) {
    L = SM.getExpansionLoc(L);
    if (L.isInvalid()) return "";
    auto F = SM.getFilename(L);
    return F.str();
  }
  bool inRepo(SourceLocation L) {
    std::string F = fileOf(L);
    return F.rfind(Root, 0) == 0;
  }
  unsigned lineOf(SourceLocation L) { return SM.getExpansionLineNumber(L); }
  unsigned colOf(SourceLocation L) { return SM.getExpansionColumnNumber(L); }

  std::string typeStr(QualType T) { return T.getCanonicalType().getAsString(); }

  void noteRecord(QualType T) {
    T = T.getCanonicalType();
    for (int i = 0; i < 4; i++) {
      if (T->isPointerType()) T = T->getPointeeType().getCanonicalType();
      else if (const ArrayType *AT = T->getAsArrayTypeUnsafe()) T = AT->getElementType().getCanonicalType();
      else break;
    }
    if (const RecordType *RT = T->getAs<RecordType>()) {
      const RecordDecl *RD = RT->getDecl()->getDefinition();
      if (RD && Records.insert(RD).second) {
        for (const FieldDecl *F : RD->fields()) noteRecord(F->getType());
      }
    }
  }

  std::string recordName(const RecordDecl *RD) {
    if (!RD) return "";
    if (RD->getIdentifier()) return RD->getName().str();
    if (const TypedefNameDecl *TD = RD->getTypedefNameForAnonDecl()) return TD->getName().str();
    // anonymous: name by location
    return "anon@" + fileOf(RD->getLocation()).substr(fileOf(RD->getLocation()).rfind('/') + 1) + ":" +
           std::to_string(lineOf(RD->getLocation()));
  }

  void emitIntValue(const llvm::APSInt &V) {
    llvm::SmallString<40> S;
    V.toString(S, 10);
    J.attributeBegin("v");
    J.rawValue(S);
    J.attributeEnd();
  }
  void emitFloat(const char *Key, const llvm::APFloat &F) {
    llvm::APFloat D = F;
    bool Lose;
    D.convert(llvm::APFloat::IEEEdouble(), llvm::APFloat::rmNearestTiesToEven, &Lose);
    double X = D.convertToDouble();
    if (X != X || X > 1.7e308 || X < -1.7e308) {
      llvm::SmallString<40> S;
      F.toString(S);
      J.attribute(Key, S.str());
    } else {
      char Buf[64];
      snprintf(Buf, sizeof Buf, "%.17g", X);
      std::string S(Buf);
      if (S.find_first_of(".eEn") == std::string::npos) S += ".0";
      J.attributeBegin(Key);
      J.rawValue(S);
      J.attributeEnd();
    }
  }

  // ---------------------------------------------------------------- per function
  struct FnState {
    std::map<const Stmt *, int> Ids;
    int Next = 0;
  };

  static const Expr *strip(const Expr *E) {
    while (true) {
      if (auto *P = dyn_cast<ParenExpr>(E)) { E = P->getSubExpr(); continue; }
      if (auto *C = dyn_cast<ConstantExpr>(E)) { E = C->getSubExpr(); continue; }
      if (auto *I = dyn_cast<ImplicitCastExpr>(E)) {
        switch (I->getCastKind()) {
        case CK_LValueToRValue: case CK_NoOp: case CK_ArrayToPointerDecay: case CK_FunctionToPointerDecay:
        case CK_BuiltinFnToFnPtr:
          E = I->getSubExpr(); continue;
        default: break;
        }
      }
      return E;
    }
  }

  bool elided(const Stmt *S) {
    if (auto *E = dyn_cast<Expr>(S)) return strip(E) != E;
    return false;
  }

  // pre-assign ids in pre-order so that parents have smaller ids than children
  void assignIds(const Stmt *S, FnState &St) {
    if (!S) return;
    if (auto *E = dyn_cast<Expr>(S)) {
      const Expr *T = strip(E);
      if (T != E) {
        assignIds(T, St);
        St.Ids[S] = St.Ids[T];
        // intermediate wrappers
        const Expr *W = E;
        while (W != T) {
          St.Ids[W] = St.Ids[T];
          if (auto *P = dyn_cast<ParenExpr>(W)) W = P->getSubExpr();
          else if (auto *C = dyn_cast<ConstantExpr>(W)) W = C->getSubExpr();
          else if (auto *I = dyn_cast<ImplicitCastExpr>(W)) W = I->getSubExpr();
          else break;
        }
        return;
      }
    }
    if (St.Ids.count(S)) return;
    St.Ids[S] = St.Next++;
    if (auto *ILE = dyn_cast<InitListExpr>(S)) {
      const InitListExpr *Sem = ILE->isSemanticForm() ? ILE : ILE->getSemanticForm();
      if (Sem && Sem != ILE) { /* use semantic children */
        for (const Stmt *C : Sem->children()) assignIds(C, St);
        return;
      }
    }
    if (auto *DS = dyn_cast<DeclStmt>(S)) {
      for (const Decl *D : DS->decls())
        if (auto *VD = dyn_cast<VarDecl>(D)) {
          if (VD->getInit() && !VD->isStaticLocal()) assignIds(VD->getInit(), St);
        }
      return;
    }
    if (auto *UE = dyn_cast<UnaryExprOrTypeTraitExpr>(S)) { (void)UE; return; } // unevaluated operand not descended
    for (const Stmt *C : S->children()) assignIds(C, St);
  }

  void emitLoc(const Stmt *S) {
    SourceLocation L = S->getBeginLoc();
    if (L.isInvalid()) return;
    J.attribute("l", (int64_t)lineOf(L));
    J.attribute("c", (int64_t)colOf(L));
    if (L.isMacroID()) {
      StringRef M = Lexer::getImmediateMacroName(L, SM, Ctx.getLangOpts());
      J.attribute("m", M);
      // outermost macro
      SourceLocation O = L;
      StringRef Top = M;
      while (O.isMacroID()) {
        Top = Lexer::getImmediateMacroName(O, SM, Ctx.getLangOpts());
        if (SM.isMacroArgExpansion(O)) O = SM.getImmediateExpansionRange(O).getBegin();
        else O = SM.getImmediateExpansionRange(O).getBegin();
      }
      if (Top != M) J.attribute("mt", Top);
    }
  }

  void kidsOf(const Stmt *S, FnState &St, std::vector<const Stmt *> &Out) {
    if (auto *ILE = dyn_cast<InitListExpr>(S)) {
      const InitListExpr *Sem = ILE->isSemanticForm() ? ILE : ILE->getSemanticForm();
      if (Sem) { for (const Stmt *C : Sem->children()) if (C) Out.push_back(C); return; }
    }
    if (auto *DS = dyn_cast<DeclStmt>(S)) {
      for (const Decl *D : DS->decls())
        if (auto *VD = dyn_cast<VarDecl>(D))
          if (VD->getInit() && !VD->isStaticLocal()) Out.push_back(VD->getInit());
      return;
    }
    if (isa<UnaryExprOrTypeTraitExpr>(S)) return;
    for (const Stmt *C : S->children()) if (C) Out.push_back(C);
  }

  int idOf(const Stmt *S, FnState &St) {
    if (!S) return -1;
    auto It = St.Ids.find(S);
    if (It != St.Ids.end()) return It->second;
    if (auto *E = dyn_cast<Expr>(S)) {
      auto It2 = St.Ids.find(strip(E));
      if (It2 != St.Ids.end()) return It2->second;
    }
    return -1;
  }

  void emitNode(const Stmt *S, FnState &St, const std::string &FnName) {
    J.object([&] {
      J.attribute("id", St.Ids[S]);
      J.attribute("k", S->getStmtClassName());
      emitLoc(S);
      std::vector<const Stmt *> Kids;
      kidsOf(S, St, Kids);
      J.attributeArray("kids", [&] { for (auto *K : Kids) J.value(idOf(K, St)); });

      if (auto *E = dyn_cast<Expr>(S)) {
        QualType T = E->getType();
        J.attribute("t", typeStr(T));
        noteRecord(T);
        if (T->isObjectType() && !T->isIncompleteType() && !T->isPlaceholderType() && !T->isDependentType())
          J.attribute("sz", (int64_t)Ctx.getTypeSizeInChars(T).getQuantity());
        if (T->isPointerType()) {
          QualType P = T->getPointeeType();
          if (P->isObjectType() && !P->isIncompleteType() && !P->isPlaceholderType())
            J.attribute("psz", (int64_t)Ctx.getTypeSizeInChars(P).getQuantity());
        }
        if (!E->isValueDependent() && (T->isIntegralOrEnumerationType() || T->isPointerType())) {
          Expr::EvalResult R;
          if (T->isIntegralOrEnumerationType() && E->EvaluateAsInt(R, Ctx, Expr::SE_NoSideEffects))
            emitIntValue(R.Val.getInt());
        } else if (T->isRealFloatingType()) {
          llvm::APFloat F(0.0);
          if (E->EvaluateAsFloat(F, Ctx, Expr::SE_NoSideEffects)) emitFloat("fv", F);
        }
      }

      if (auto *DR = dyn_cast<DeclRefExpr>(S)) {
        const ValueDecl *D = DR->getDecl();
        J.attribute("n", D->getName());
        J.attribute("d", declId(D));
        const char *DK = "other";
        if (isa<ParmVarDecl>(D)) DK = "param";
        else if (auto *VD = dyn_cast<VarDecl>(D)) {
          if (VD->isStaticLocal()) DK = "static_local";
          else if (VD->hasGlobalStorage()) DK = "global";
          else DK = "local";
        } else if (isa<FunctionDecl>(D)) DK = "func";
        else if (isa<EnumConstantDecl>(D)) DK = "enum";
        J.attribute("dk", DK);
      } else if (auto *ME = dyn_cast<MemberExpr>(S)) {
        const ValueDecl *D = ME->getMemberDecl();
        J.attribute("n", D->getName());
        J.attribute("arrow", ME->isArrow());
        if (auto *FD = dyn_cast<FieldDecl>(D)) {
          const RecordDecl *RD = FD->getParent();
          J.attribute("rec", recordName(RD));
          if (RD->getDefinition() && !RD->isInvalidDecl()) {
            const ASTRecordLayout &L = Ctx.getASTRecordLayout(RD->getDefinition());
            J.attribute("off", (int64_t)(L.getFieldOffset(FD->getFieldIndex()) / 8));
          }
        }
      } else if (auto *CE = dyn_cast<CallExpr>(S)) {
        if (const FunctionDecl *FD = CE->getDirectCallee()) {
          J.attribute("callee", FD->getName());
          J.attribute("cd", declId(FD));
        }
      } else if (auto *UO = dyn_cast<UnaryOperator>(S)) {
        std::string Op = UnaryOperator::getOpcodeStr(UO->getOpcode()).str();
        if (UO->isPostfix()) Op = "post" + Op;
        J.attribute("op", Op);
      } else if (auto *BO = dyn_cast<BinaryOperator>(S)) {
        J.attribute("op", BO->getOpcodeStr());
        if (auto *CA = dyn_cast<CompoundAssignOperator>(S)) J.attribute("ct", typeStr(CA->getComputationResultType()));
      } else if (auto *CE2 = dyn_cast<CastExpr>(S)) {
        J.attribute("ck", CE2->getCastKindName());
        J.attribute("ft", typeStr(CE2->getSubExpr()->getType()));
      } else if (auto *UE = dyn_cast<UnaryExprOrTypeTraitExpr>(S)) {
        J.attribute("ue", UE->getKind() == UETT_SizeOf ? "sizeof" : "other");
        QualType AT = UE->getTypeOfArgument();
        J.attribute("at", typeStr(AT));
        noteRecord(AT);
        if (!UE->isArgumentType()) {
          // describe the operand shallowly: member path / variable name
          const Expr *A = strip(UE->getArgumentExpr());
          std::string Path;
          describe(A, Path);
          J.attribute("ae", Path);
        }
      } else if (auto *SL = dyn_cast<StringLiteral>(S)) {
        if (SL->getCharByteWidth() == 1) J.attribute("s", llvm::json::fixUTF8(SL->getBytes()));
      } else if (auto *DS = dyn_cast<DeclStmt>(S)) {
        J.attributeArray("decls", [&] {
          for (const Decl *D : DS->decls())
            if (auto *VD = dyn_cast<VarDecl>(D)) {
              J.object([&] {
                J.attribute("n", VD->getName());
                J.attribute("d", declId(VD));
                J.attribute("t", typeStr(VD->getType()));
                noteRecord(VD->getType());
                if (!VD->getType()->isIncompleteType())
                  J.attribute("sz", (int64_t)Ctx.getTypeSizeInChars(VD->getType()).getQuantity());
                J.attribute("static", VD->isStaticLocal());
                if (VD->getInit() && !VD->isStaticLocal()) J.attribute("init", idOf(VD->getInit(), St));
                if (VD->isStaticLocal()) { StaticLocals.push_back(VD); StaticLocalOwner[VD] = FnName; }
              });
            }
        });
      } else if (auto *IS = dyn_cast<IfStmt>(S)) {
        J.attribute("cond", idOf(IS->getCond(), St));
        J.attribute("then", idOf(IS->getThen(), St));
        if (IS->getElse()) J.attribute("else", idOf(IS->getElse(), St));
      } else if (auto *WS = dyn_cast<WhileStmt>(S)) {
        J.attribute("cond", idOf(WS->getCond(), St));
        J.attribute("body", idOf(WS->getBody(), St));
      } else if (auto *DoS = dyn_cast<DoStmt>(S)) {
        J.attribute("cond", idOf(DoS->getCond(), St));
        J.attribute("body", idOf(DoS->getBody(), St));
      } else if (auto *FS = dyn_cast<ForStmt>(S)) {
        if (FS->getInit()) J.attribute("init", idOf(FS->getInit(), St));
        if (FS->getCond()) J.attribute("cond", idOf(FS->getCond(), St));
        if (FS->getInc()) J.attribute("inc", idOf(FS->getInc(), St));
        J.attribute("body", idOf(FS->getBody(), St));
      } else if (auto *SS = dyn_cast<SwitchStmt>(S)) {
        J.attribute("cond", idOf(SS->getCond(), St));
        J.attribute("body", idOf(SS->getBody(), St));
      } else if (auto *CS = dyn_cast<CaseStmt>(S)) {
        Expr::EvalResult R;
        if (CS->getLHS()->EvaluateAsInt(R, Ctx)) {
          llvm::SmallString<40> SS2; R.Val.getInt().toString(SS2, 10);
          J.attributeBegin("cv"); J.rawValue(SS2); J.attributeEnd();
        }
        if (CS->getRHS() && CS->getRHS()->EvaluateAsInt(R, Ctx)) {
          llvm::SmallString<40> SS2; R.Val.getInt().toString(SS2, 10);
          J.attributeBegin("cv2"); J.rawValue(SS2); J.attributeEnd();
        }
        std::string P; describe(strip(CS->getLHS()), P);
        J.attribute("cn", P);
        J.attribute("sub", idOf(CS->getSubStmt(), St));
      } else if (auto *DfS = dyn_cast<DefaultStmt>(S)) {
        J.attribute("sub", idOf(DfS->getSubStmt(), St));
      } else if (auto *GS = dyn_cast<GotoStmt>(S)) {
        J.attribute("label", GS->getLabel()->getName());
      } else if (auto *LS = dyn_cast<LabelStmt>(S)) {
        J.attribute("label", LS->getName());
      } else if (auto *OO = dyn_cast<OffsetOfExpr>(S)) {
        (void)OO;
      }
    });
  }

  // short textual description of simple lvalue / constant expressions (used for sizeof operands, case names)
  void describe(const Expr *E, std::string &Out) {
    E = strip(E);
    if (auto *DR = dyn_cast<DeclRefExpr>(E)) { Out += DR->getDecl()->getName().str(); return; }
    if (auto *ME = dyn_cast<MemberExpr>(E)) {
      describe(ME->getBase(), Out);
      Out += ME->isArrow() ? "->" : ".";
      Out += ME->getMemberDecl()->getName().str();
      return;
    }
    if (auto *AS = dyn_cast<ArraySubscriptExpr>(E)) { describe(AS->getBase(), Out); Out += "[]"; return; }
    if (auto *UO = dyn_cast<UnaryOperator>(E)) {
      Out += UnaryOperator::getOpcodeStr(UO->getOpcode()).str();
      describe(UO->getSubExpr(), Out);
      return;
    }
    if (auto *CE = dyn_cast<CastExpr>(E)) { describe(CE->getSubExpr(), Out); return; }
    if (auto *BO = dyn_cast<BinaryOperator>(E)) {
      Out += "("; describe(BO->getLHS(), Out); Out += BO->getOpcodeStr().str(); describe(BO->getRHS(), Out); Out += ")";
      return;
    }
    if (auto *IL = dyn_cast<IntegerLiteral>(E)) { llvm::SmallString<40> S; IL->getValue().toString(S, 10, false); Out += S.str().str(); return; }
    Out += "?";
  }

  void collect(const Stmt *S, FnState &St, std::vector<const Stmt *> &Order, std::set<const Stmt *> &Seen) {
    if (!S) return;
    if (auto *E = dyn_cast<Expr>(S)) S = strip(E);
    if (!Seen.insert(S).second) return;
    Order.push_back(S);
    std::vector<const Stmt *> Kids;
    kidsOf(S, St, Kids);
    for (auto *K : Kids) collect(K, St, Order, Seen);
  }

  void emitFunction(const FunctionDecl *FD) {
    const Stmt *Body = FD->getBody();
    FnState St;
    assignIds(Body, St);
    std::string Name = FD->getName().str();
    J.object([&] {
      J.attribute("name", Name);
      J.attribute("d", declId(FD));
      J.attribute("file", fileOf(FD->getLocation()));
      J.attribute("line", (int64_t)lineOf(FD->getLocation()));
      J.attribute("endline", (int64_t)lineOf(Body->getEndLoc()));
      J.attribute("static", FD->getStorageClass() == SC_Static);
      J.attribute("inline", FD->isInlineSpecified());
      J.attribute("ret", typeStr(FD->getReturnType()));
      J.attributeArray("params", [&] {
        for (const ParmVarDecl *P : FD->parameters())
          J.object([&] {
            J.attribute("n", P->getName());
            J.attribute("d", declId(P));
            J.attribute("t", typeStr(P->getType()));
            noteRecord(P->getType());
          });
      });
      J.attribute("body", St.Ids[Body]);
      std::vector<const Stmt *> Order;
      std::set<const Stmt *> Seen;
      collect(Body, St, Order, Seen);
      J.attributeArray("nodes", [&] { for (auto *S : Order) emitNode(S, St, Name); });

      // CFG
      CFG::BuildOptions BO;
      std::unique_ptr<CFG> G = CFG::buildCFG(FD, const_cast<Stmt *>(Body), &Ctx, BO);
      if (G) {
        std::map<const DeclStmt *, const DeclStmt *> Synth;
        for (auto I = G->synthetic_stmt_begin(), E2 = G->synthetic_stmt_end(); I != E2; ++I) Synth[I->first] = I->second;
        J.attributeObject("cfg", [&] {
          J.attribute("entry", (int64_t)G->getEntry().getBlockID());
          J.attribute("exit", (int64_t)G->getExit().getBlockID());
          J.attributeArray("blocks", [&] {
            for (const CFGBlock *B : *G) {
              J.object([&] {
                J.attribute("id", (int64_t)B->getBlockID());
                J.attributeArray("elems", [&] {
                  for (const CFGElement &El : *B)
                    if (auto CS = El.getAs<CFGStmt>()) {
                      const Stmt *ES = CS->getStmt();
                      int Id = idOf(ES, St);
                      if (Id < 0) {
                        // clang splits `int a, b = 0 ;` into synthetic single-declarator DeclStmts: map back to the source statement
                        if (auto *DS = dyn_cast<DeclStmt>(ES)) {
                          auto It = Synth.find(DS);
                          if (It != Synth.end()) Id = idOf(It->second, St);
                        }
                      }
                      if (Id >= 0) J.value(Id);
                    }
                });
                if (const Stmt *T = B->getTerminatorStmt()) {
                  J.attribute("term", idOf(T, St));
                  J.attribute("tk", T->getStmtClassName());
                  if (const Stmt *C = B->getTerminatorCondition()) J.attribute("cond", idOf(C, St));
                }
                if (const Stmt *L = B->getLabel()) J.attribute("label", idOf(L, St));
                J.attributeArray("succs", [&] {
                  for (auto SI = B->succ_begin(); SI != B->succ_end(); ++SI) {
                    const CFGBlock *SB = SI->getReachableBlock();
                    if (!SB) SB = SI->getPossiblyUnreachableBlock();
                    if (SB) J.value((int64_t)SB->getBlockID()); else J.value(nullptr);
                  }
                });
                J.attributeArray("reach", [&] {
                  for (auto SI = B->succ_begin(); SI != B->succ_end(); ++SI) J.value(SI->isReachable());
                });
              });
            }
          });
        });
      }
    });
  }

  // ---------------------------------------------------------------- initialiser folding
  void foldInit(const Expr *E, int Depth = 0) {
    if (!E) { J.value(nullptr); return; }
    E = strip(E);
    while (auto *C = dyn_cast<CastExpr>(E)) {
      // keep folding through casts for constants
      Expr::EvalResult R;
      if (E->getType()->isIntegralOrEnumerationType() && E->EvaluateAsInt(R, Ctx)) break;
      E = strip(C->getSubExpr());
    }
    if (auto *ILE = dyn_cast<InitListExpr>(E)) {
      const InitListExpr *Sem = ILE->isSemanticForm() ? ILE : ILE->getSemanticForm();
      if (!Sem) Sem = ILE;
      J.array([&] {
        for (unsigned i = 0; i < Sem->getNumInits(); i++) foldInit(Sem->getInit(i), Depth + 1);
      });
      return;
    }
    if (auto *SL = dyn_cast<StringLiteral>(E)) {
      if (SL->getCharByteWidth() == 1) { J.value(llvm::json::fixUTF8(SL->getBytes())); return; }
    }
    if (isa<ImplicitValueInitExpr>(E)) { J.value(0); return; }
    QualType T = E->getType();
    Expr::EvalResult R;
    if (T->isIntegralOrEnumerationType() && E->EvaluateAsInt(R, Ctx)) {
      llvm::SmallString<40> S; R.Val.getInt().toString(S, 10); J.rawValue(S); return;
    }
    if (T->isRealFloatingType()) {
      llvm::APFloat F(0.0);
      if (E->EvaluateAsFloat(F, Ctx)) {
        llvm::APFloat D = F; bool Lose;
        D.convert(llvm::APFloat::IEEEdouble(), llvm::APFloat::rmNearestTiesToEven, &Lose);
        char Buf[64]; snprintf(Buf, sizeof Buf, "%.17g", D.convertToDouble());
        std::string S(Buf);
        if (S.find_first_of(".eEn") == std::string::npos) S += ".0";
        if (S.find("n") != std::string::npos) J.value(S); else J.rawValue(S);
        return;
      }
    }
    if (auto *DR = dyn_cast<DeclRefExpr>(E)) {
      J.object([&] { J.attribute("ref", DR->getDecl()->getName()); });
      return;
    }
    if (auto *UO = dyn_cast<UnaryOperator>(E)) {
      if (UO->getOpcode() == UO_AddrOf) {
        std::string P; describe(UO->getSubExpr(), P);
        J.object([&] { J.attribute("addr", P); });
        return;
      }
    }
    if (T->isPointerType() && E->isNullPointerConstant(Ctx, Expr::NPC_ValueDependentIsNotNull)) { J.value(nullptr); return; }
    J.object([&] { J.attribute("unknown", E->getStmtClassName()); });
  }

  void emitGlobal(const VarDecl *VD, const std::string &Owner) {
    J.object([&] {
      J.attribute("name", VD->getName());
      J.attribute("d", declId(VD));
      J.attribute("file", fileOf(VD->getLocation()));
      J.attribute("line", (int64_t)lineOf(VD->getLocation()));
      QualType T = VD->getType();
      J.attribute("t", typeStr(T));
      noteRecord(T);
      if (!T->isIncompleteType()) J.attribute("sz", (int64_t)Ctx.getTypeSizeInChars(T).getQuantity());
      // const-ness: the object (after stripping array levels) is const qualified
      QualType ET = T.getCanonicalType();
      bool IsConst = ET.isConstQualified();
      while (const ArrayType *AT = ET->getAsArrayTypeUnsafe()) { ET = AT->getElementType().getCanonicalType(); IsConst = IsConst || ET.isConstQualified(); }
      J.attribute("const", IsConst);
      if (const ConstantArrayType *CAT = Ctx.getAsConstantArrayType(T)) J.attribute("alen", (int64_t)CAT->getSize().getZExtValue());
      const char *SC = "extern";
      if (VD->isStaticLocal()) SC = "static_local";
      else if (VD->getStorageClass() == SC_Static) SC = "static";
      J.attribute("storage", SC);
      if (!Owner.empty()) J.attribute("owner", Owner);
      J.attribute("def", VD->isThisDeclarationADefinition() != VarDecl::DeclarationOnly);
      if (const Expr *Init = VD->getInit()) {
        J.attributeBegin("init");
        foldInit(Init);
        J.attributeEnd();
      }
    });
  }

  void emitRecord(const RecordDecl *RD) {
    if (RD->isInvalidDecl()) return;
    const ASTRecordLayout &L = Ctx.getASTRecordLayout(RD);
    J.object([&] {
      J.attribute("name", recordName(RD));
      J.attribute("file", fileOf(RD->getLocation()));
      J.attribute("line", (int64_t)lineOf(RD->getLocation()));
      J.attribute("union", RD->isUnion());
      J.attribute("size", (int64_t)L.getSize().getQuantity());
      J.attributeArray("fields", [&] {
        for (const FieldDecl *F : RD->fields()) {
          J.object([&] {
            J.attribute("n", F->getName());
            QualType T = F->getType();
            J.attribute("t", typeStr(T));
            J.attribute("off", (int64_t)(L.getFieldOffset(F->getFieldIndex()) / 8));
            if (!T->isIncompleteType()) J.attribute("sz", (int64_t)Ctx.getTypeSizeInChars(T).getQuantity());
            if (const ConstantArrayType *CAT = Ctx.getAsConstantArrayType(T)) {
              J.attribute("alen", (int64_t)CAT->getSize().getZExtValue());
              J.attribute("esz", (int64_t)Ctx.getTypeSizeInChars(CAT->getElementType()).getQuantity());
            }
            bool FP = false;
            if (T->isPointerType() && T->getPointeeType()->isFunctionType()) FP = true;
            J.attribute("ptr", T->isPointerType());
            J.attribute("fptr", FP);
            if (const RecordType *RT = T.getCanonicalType()->getAs<RecordType>()) J.attribute("rec", recordName(RT->getDecl()));
            else if (T->isPointerType())
              if (const RecordType *RT2 = T->getPointeeType().getCanonicalType()->getAs<RecordType>()) J.attribute("prec", recordName(RT2->getDecl()));
          });
        }
      });
    });
  }

  void run(TranslationUnitDecl *TU, StringRef MainFile) {
    std::vector<const FunctionDecl *> Fns;
    std::vector<const VarDecl *> Globals;
    std::vector<const EnumDecl *> Enums;
    std::vector<const FunctionDecl *> Protos;
    for (const Decl *D : TU->decls()) {
      if (!inRepo(D->getLocation())) continue;
      if (auto *FD = dyn_cast<FunctionDecl>(D)) {
        if (FD->doesThisDeclarationHaveABody()) Fns.push_back(FD);
        else Protos.push_back(FD);
      } else if (auto *VD = dyn_cast<VarDecl>(D)) {
        Globals.push_back(VD);
      } else if (auto *ED = dyn_cast<EnumDecl>(D)) {
        if (ED->isCompleteDefinition()) Enums.push_back(ED);
      } else if (auto *RD = dyn_cast<RecordDecl>(D)) {
        if (RD->isCompleteDefinition()) noteRecord(Ctx.getRecordType(RD));
      } else if (auto *TD = dyn_cast<TypedefNameDecl>(D)) {
        noteRecord(TD->getUnderlyingType());
        if (const EnumType *ET = TD->getUnderlyingType()->getAs<EnumType>())
          if (ET->getDecl()->isCompleteDefinition()) Enums.push_back(ET->getDecl());
      }
    }
    J.object([&] {
      J.attribute("file", MainFile);
      J.attributeArray("functions", [&] { for (auto *F : Fns) emitFunction(F); });
      J.attributeArray("protos", [&] {
        for (auto *F : Protos)
          J.object([&] {
            J.attribute("name", F->getName());
            J.attribute("d", declId(F));
            J.attribute("file", fileOf(F->getLocation()));
            J.attribute("line", (int64_t)lineOf(F->getLocation()));
            J.attribute("static", F->getStorageClass() == SC_Static);
          });
      });
      J.attributeArray("globals", [&] {
        for (auto *V : Globals) emitGlobal(V, "");
        for (auto *V : StaticLocals) emitGlobal(V, StaticLocalOwner[V]);
      });
      J.attributeArray("enums", [&] {
        std::set<const EnumDecl *> Done;
        for (auto *E : Enums) {
          if (!Done.insert(E).second) continue;
          J.object([&] {
            std::string N = E->getIdentifier() ? E->getName().str()
                            : (E->getTypedefNameForAnonDecl() ? E->getTypedefNameForAnonDecl()->getName().str() : "");
            J.attribute("name", N);
            J.attribute("file", fileOf(E->getLocation()));
            J.attribute("line", (int64_t)lineOf(E->getLocation()));
            J.attributeArray("consts", [&] {
              for (const EnumConstantDecl *C : E->enumerators())
                J.array([&] {
                  J.value(C->getName());
                  llvm::SmallString<40> S; C->getInitVal().toString(S, 10); J.rawValue(S);
                });
            });
          });
        }
      });
      J.attributeArray("records", [&] {
        // records may grow while emitting (noteRecord); iterate on a snapshot until fixpoint
        std::set<const RecordDecl *> Done;
        bool Again = true;
        while (Again) {
          Again = false;
          std::vector<const RecordDecl *> Snap(Records.begin(), Records.end());
          for (auto *R : Snap)
            if (Done.insert(R).second) { if (inRepo(R->getLocation())) emitRecord(R); Again = true; }
        }
      });
    });
  }
};

class Consumer : public ASTConsumer {
  std::string Main;
public:
  explicit Consumer(StringRef M) : Main(M.str()) {}
  void HandleTranslationUnit(ASTContext &Ctx) override {
    if (Ctx.getDiagnostics().hasErrorOccurred()) { llvm::errs() << "sfx: errors in " << Main << "\n"; }
    std::error_code EC;
    llvm::raw_fd_ostream OS(OutFile, EC);
    if (EC) { llvm::errs() << "sfx: cannot open " << OutFile << "\n"; exit(3); }
    OStream J(OS);
    Extractor X(Ctx, J);
    X.run(Ctx.getTranslationUnitDecl(), Main);
    OS << "\n";
  }
};

class Action : public ASTFrontendAction {
public:
  std::unique_ptr<ASTConsumer> CreateASTConsumer(CompilerInstance &CI, StringRef File) override {
    return std::make_unique<Consumer>(File);
  }
};

} // namespace

int main(int argc, const char **argv) {
  auto Opts = CommonOptionsParser::create(argc, argv, Cat);
  if (!Opts) { llvm::errs() << llvm::toString(Opts.takeError()) << "\n"; return 2; }
  ClangTool Tool(Opts->getCompilations(), Opts->getSourcePathList());
  return Tool.run(newFrontendActionFactory<Action>().get());
}
