#!/bin/bash
# import_seed.sh <ID> <N> : verify and store a seeded change under /verif/seeded/<ID>-<N>/
ID=$1; N=$2; O=/tmp/mutout/$ID; PID=${ID%[bcde]}; DN=$N; case $ID in *b) DN=$((N+2));; *c) DN=$((N+4));; *d) DN=$((N+6));; *e) DN=$((N+8));; esac; D=/verif/seeded/$PID-$DN
OUT=$(/verif/tools/verify_seed.sh $ID $N 2>&1); echo "$OUT" | tail -4
echo "$OUT" | grep -q "RESULT: CONFIRMED" || exit 1
mkdir -p $D; cp $O/patch$N.diff $D/patch.diff; cp $O/demo$N.c $D/demo.c
python3 - "$ID" "$N" "$OUT" "$D" "$PID" <<'PY'
import json,sys
i,n,out,d,pid=sys.argv[1:6]
m=json.load(open('/tmp/mutout/%s/meta%s.json'%(i,n)))
m['breaks_property']=pid; m['property']=pid; m['round']={'b':2,'c':3,'d':4,'e':5}.get(i[-1],1)
m['confirmed_by']={'script':'tools/verify_seed.sh %s %s (scratch worktree /tmp/mut/%s, removed afterwards)'%(i,n,i),
  'observed':[l for l in out.split('\n') if l.startswith(('ctest','demo w','RESULT'))]}
json.dump(m,open(d+'/meta.json','w'),indent=1)
PY
echo "stored $D"
