#!/bin/bash
# import_seed.sh <ID> <N> : verify and store a seeded change under /verif/seeded/<ID>-<N>/
ID=$1; N=$2; O=/tmp/mutout/$ID; D=/verif/seeded/$ID-$N
OUT=$(/verif/tools/verify_seed.sh $ID $N 2>&1); echo "$OUT" | tail -4
echo "$OUT" | grep -q "RESULT: CONFIRMED" || exit 1
mkdir -p $D; cp $O/patch$N.diff $D/patch.diff; cp $O/demo$N.c $D/demo.c
python3 - "$ID" "$N" "$OUT" <<'PY'
import json,sys
i,n,out=sys.argv[1:4]
m=json.load(open('/tmp/mutout/%s/meta%s.json'%(i,n)))
m['breaks_property']=i
m['confirmed_by']={'script':'tools/verify_seed.sh %s %s (scratch worktree /tmp/mut/%s, removed afterwards)'%(i,n,i),
  'observed':[l for l in out.split('\n') if l.startswith(('ctest','demo w','RESULT'))]}
json.dump(m,open('/verif/seeded/%s-%s/meta.json'%(i,n),'w'),indent=1)
PY
echo "stored $D"
