#!/usr/bin/env python3
"""Run the claimed checks against every seeded change and print which checks report it.

default      : each change is applied to a scratch copy of /repo's src/ + include/ (outside /repo and /verif,
               removed afterwards); the checks run on the copy (VERIF_REPO), several changes in parallel.
--in-repo    : the way the brief describes it: git -C /repo apply, run the checks, git -C /repo checkout -- .
usage: tools/seedtest.py [seed-dir-names...] [--checks=C13,C10] [--jobs=4] [--in-repo]"""
import json, os, re, shutil, subprocess, sys, tempfile
from concurrent.futures import ThreadPoolExecutor
V = os.path.dirname(os.path.dirname(os.path.abspath(__file__)))
args = [a for a in sys.argv[1:] if not a.startswith('--')]
only = None
jobs = 4
in_repo = '--in-repo' in sys.argv
SDIR = 'seeded'
for a in sys.argv[1:]:
    if a.startswith('--checks='):
        only = a.split('=', 1)[1].split(',')
    if a.startswith('--jobs='):
        jobs = int(a.split('=', 1)[1])
    if a.startswith('--dir='):
        SDIR = a.split('=', 1)[1]
seeds = args or sorted(d for d in os.listdir(os.path.join(V, SDIR)) if os.path.isdir(os.path.join(V, SDIR, d)))
seeds = [s for s in seeds if os.path.exists(os.path.join(V, SDIR, s, 'patch.diff'))]


def parse(outs):
    per = {}
    broken = []
    for o in outs:
        cur = None
        for l in o.split('\n'):
            m = re.match(r'VIOLATION property=(\S+)', l)
            if m:
                cur = m.group(1)
                per.setdefault(cur, [])
            elif l.startswith('  rule') and cur:
                if len(per[cur]) < 2:
                    per[cur].append(l.strip())
            elif l.startswith('ANALYSIS-BROKEN'):
                broken.append(l.strip()[:220])
    return sorted(per.items()), broken


def run_checks(env):
    e = dict(os.environ)
    e.update(env)
    if only:
        return [subprocess.run([os.path.join(V, 'check'), c], capture_output=True, text=True, cwd=V, env=e).stdout for c in only]
    return [subprocess.run([os.path.join(V, 'check'), 'all'], capture_output=True, text=True, cwd=V, env=e).stdout]


def one_scratch(s):
    d = os.path.join(V, SDIR, s)
    sc = tempfile.mkdtemp(prefix='sfverif-seed-')
    try:
        for sub in ('src', 'include'):
            shutil.copytree(os.path.join('/repo', sub), os.path.join(sc, sub), symlinks=True)
        r = subprocess.run(['git', 'apply', os.path.join(d, 'patch.diff')], capture_output=True, text=True, cwd=sc)
        if r.returncode != 0:
            return s, None, ['PATCH FAILED ' + r.stderr[:160]]
        env = {'VERIF_REPO': sc, 'VERIF_COMPDB_FROM': '/repo', 'VERIF_CACHE': os.path.join(sc, '.cache'),
               'VERIF_EVID': os.path.join(sc, 'evid')}
        if '--fast' in sys.argv and not s.startswith('C10'):
            env['VERIF_SKIP'] = 'C10'      # C10 costs 4 CPU-minutes per run; in fast mode it only runs for the changes written against it
        hit, broken = parse(run_checks(env))
        return s, hit, broken
    finally:
        shutil.rmtree(sc, ignore_errors=True)


def one_inrepo(s):
    d = os.path.join(V, SDIR, s)
    r = subprocess.run(['git', '-C', '/repo', 'apply', os.path.join(d, 'patch.diff')], capture_output=True, text=True)
    if r.returncode != 0:
        return s, None, ['PATCH FAILED ' + r.stderr[:160]]
    try:
        hit, broken = parse(run_checks({}))
        return s, hit, broken
    finally:
        subprocess.run(['git', '-C', '/repo', 'checkout', '--', '.'])


def report(s, hit, broken):
    if hit is None:
        print('%-10s %s' % (s, broken[0]))
        return
    print('%-10s %s' % (s, 'DETECTED by ' + ', '.join(c for c, _ in hit) if hit else 'missed'))
    for c, f in hit:
        for l in f[:1]:
            print('      ', c, l[:240])
    for b in broken:
        print('      ', b, '(not a detection)')
    sys.stdout.flush()


res = {}
if in_repo:
    assert subprocess.run(['git', '-C', '/repo', 'status', '--porcelain', '--untracked-files=no'], capture_output=True, text=True).stdout.strip() == '', '/repo not clean'
    for s in seeds:
        s, hit, broken = one_inrepo(s)
        report(s, hit, broken)
        res[s] = hit
else:
    with ThreadPoolExecutor(max_workers=jobs) as ex:
        for s, hit, broken in ex.map(one_scratch, seeds):
            report(s, hit, broken)
            res[s] = hit
lr = os.path.join(V, SDIR, 'last_results.json')
if not args and not only:
    json.dump({k: (None if v is None else [[c, f] for c, f in v]) for k, v in res.items()}, open(lr, 'w'), indent=1)
elif args and not only and os.path.exists(lr):
    # a re-run of named seeds with the full set of checks refreshes their rows of the stored matrix
    old = json.load(open(lr))
    old.update({k: (None if v is None else [[c, f] for c, f in v]) for k, v in res.items()})
    json.dump(old, open(lr, 'w'), indent=1)
