#!/usr/bin/env python3
"""Apply each seeded change to /repo, run the claimed checks, undo; print which checks report it.
usage: tools/seedtest.py [seed-dir-names...] [--checks C13,C10]"""
import json, os, subprocess, sys
V = os.path.dirname(os.path.dirname(os.path.abspath(__file__)))
args = [a for a in sys.argv[1:] if not a.startswith('--')]
only = None
for a in sys.argv[1:]:
    if a.startswith('--checks'):
        only = a.split('=', 1)[1].split(',')
seeds = args or sorted(os.listdir(os.path.join(V, 'seeded')))
man = json.load(open(os.path.join(V, 'MANIFEST.json')))
checks = [c['property_id'] for c in man['checks']]
if only:
    checks = only
assert subprocess.run(['git', '-C', '/repo', 'status', '--porcelain', '--untracked-files=no'], capture_output=True, text=True).stdout.strip() == '', '/repo not clean'
res = {}
for s in seeds:
    d = os.path.join(V, 'seeded', s)
    if not os.path.exists(os.path.join(d, 'patch.diff')):
        continue
    r = subprocess.run(['git', '-C', '/repo', 'apply', os.path.join(d, 'patch.diff')], capture_output=True, text=True)
    if r.returncode != 0:
        print(s, 'PATCH FAILED', r.stderr[:200]); continue
    try:
        hit = []
        for c in checks:
            o = subprocess.run([os.path.join(V, 'check'), c], capture_output=True, text=True, cwd=V)
            if o.returncode == 1 and 'VIOLATION' in o.stdout:
                first = [l for l in o.stdout.split('\n') if l.startswith('  rule')][:2]
                hit.append((c, first))
            elif o.returncode == 2:
                print('      ', c, 'ANALYSIS-BROKEN (not a detection):', o.stdout.strip()[:200])
        res[s] = hit
        print('%-10s %s' % (s, 'DETECTED by ' + ', '.join(c for c, _ in hit) if hit else 'missed'))
        for c, f in hit:
            for l in f:
                print('      ', c, l.strip()[:260])
    finally:
        subprocess.run(['git', '-C', '/repo', 'checkout', '--', '.'])
json.dump({k: [[c, f] for c, f in v] for k, v in res.items()}, open(os.path.join(V, 'seeded', 'last_results.json'), 'w'), indent=1)
