#include <string.h>
#include <stdint.h>
#define SF_MIN(a,b) ((a) < (b) ? (a) : (b))
typedef struct { unsigned count, used ; int *chunks ; } T ;
typedef struct { char buf [64] ; int len ; T t ; } P ;
extern int ext (P *p) ;
int f1 (P *p, int n)
{	int k, s = 0 ;
	for (k = 0 ; k < n ; k++)
		s += p->t.chunks [k] ;        /* Q1: k in [0, <n) */
	return s ;
}
int f2 (P *p, size_t marker_len)
{	if (marker_len > 64)
		marker_len = 64 ;
	memcpy (p->buf, "x", marker_len) ;   /* Q2: marker_len <= 64 */
	return 0 ;
}
int f3 (P *p, int len, int avail)
{	int count = SF_MIN (len, avail) ;
	memcpy (p->buf, "x", count) ;        /* Q3: count <= len, <= avail */
	return 0 ;
}
int f4 (P *p, int x)
{	if (x < 0 || x >= p->len)
		return -1 ;
	return p->buf [x] ;                  /* Q4: 0 <= x < p->len */
}
int f5 (P *p, int x)
{	if (x >= p->len)
		return -1 ;
	ext (p) ;
	return p->buf [x] ;                  /* Q5: ub p->len stale (ext may write len) */
}
int f6 (unsigned char c, int v)
{	static int tab [256] ;
	return tab [c] + tab [v & 0xff] + tab [(v >> 4) % 16] ;   /* Q6 */
}
int ext (P *p) { p->len = 3 ; return 0 ; }
