/* tiny positive (bad_*) and negative (good_*) examples for the generic rules; pushed through the same extractor on every run */
#include <stdio.h>
#include <string.h>
#include <stdlib.h>
typedef long sf_count_t ;
struct files { char name [16] ; char dir [64] ; int filedes ; } ;
typedef struct { struct files file ; int n ; } P ;
sf_count_t psf_fread (void *ptr, sf_count_t bytes, sf_count_t items, P *psf) ;

void bad_sizeof (P *p, const char *s) { snprintf (p->file.dir, sizeof (p->file.name), "%s", s) ; }
void good_sizeof (P *p, const char *s) { snprintf (p->file.dir, sizeof (p->file.dir), "%s", s) ; }

int bad_fd (P *p) { if (p->file.filedes <= 0) return 0 ; return 1 ; }
int good_fd (P *p) { if (p->file.filedes < 0) return 0 ; return 1 ; }

void bad_iocount (P *p, sf_count_t skip)
{	char junk [64] ;
	while (skip > 0)
	{	sf_count_t n = skip < 64 ? skip : 64 ;
		psf_fread (junk, 1, sizeof (junk), p) ;
		skip -= n ;
		}
}
void good_iocount (P *p, sf_count_t skip)
{	char junk [64] ;
	while (skip > 0)
	{	sf_count_t n = skip < 64 ? skip : 64 ;
		if (psf_fread (junk, 1, n, p) != n)
			break ;
		skip -= n ;
		}
}

int use_table (short *t, int id, int count) ;
int bad_counttable (P *p, int n1, int n2)
{	short *tab = NULL ; int count = 0 ;
	if (n1) { count = n1 ; tab = calloc (count, sizeof (short)) ; }
	if (n2 > 100) count = n2 ;		/* new count, table not reallocated */
	return use_table (tab, 3, count) ;
}
int good_counttable (P *p, int n1, int n2)
{	short *tab = NULL ; int count = 0 ;
	if (n1) { count = n1 ; tab = calloc (count, sizeof (short)) ; }
	if (n2 > 100) { count = n2 ; free (tab) ; tab = calloc (count, sizeof (short)) ; }
	return use_table (tab, 3, count) ;
}

float bad_shift (const unsigned char *c)
{	int e = ((c [3] & 0x7F) << 1) | ((c [2] & 0x80) ? 1 : 0) ;
	float v = 1.0f ;
	e -= 127 ;
	if (e > 0)
		v *= (float) (1ULL << e) ;		/* e up to 128: beyond the 64-bit operand */
	return v ;
}
float good_shift (const unsigned char *c)
{	int e = (c [3] & 0x3F) ;
	float v = 1.0f ;
	if (e > 0)
		v *= (float) (1ULL << e) ;
	return v ;
}

void bad_ptrscale (int *block, int blocksize, int k)
{	memset (block + k, 0, blocksize - k) ;
}
void good_ptrscale (int *block, int blocksize, int k)
{	memset (((char *) block) + k, 0, blocksize - k) ;
	memset (block + k, 0, (blocksize - k) * sizeof (int)) ;
}

/* WIDE-PRODUCT: a block count computed from a 64-bit length, multiplied in int and widened afterwards */
typedef struct { sf_count_t datalength ; sf_count_t frames ; int blocksize ; int samplesperblock ; int blocks ; } WP ;
void bad_wideproduct (WP *w)
{	w->blocks = w->datalength / w->blocksize ;
	w->frames = w->samplesperblock * w->blocks ;
}
void good_wideproduct (WP *w)
{	w->blocks = w->datalength / w->blocksize ;
	w->frames = (sf_count_t) w->samplesperblock * w->blocks ;
}

/* COUNT-NARROW: the 64-bit request handed to an int parameter / kept in an int */
int fx_block (short *ptr, int len) ;
sf_count_t bad_countnarrow (P *p, short *ptr, sf_count_t len)
{	int total ;
	total = fx_block (ptr, len) ;
	return total ;
}
sf_count_t good_countnarrow (P *p, short *ptr, sf_count_t len)
{	sf_count_t total = 0 ;
	int n, count ;
	while (len > 0)
	{	n = (len > 0x10000000) ? 0x10000000 : (int) len ;
		count = fx_block (ptr + total, n) ;
		total += count ;
		len -= count ;
		if (count != n)
			break ;
		}
	return total ;
}
