/* positive control for GROW-CAP: bad_grow forgets to update the capacity, good_grow does not */
#include <stdlib.h>
typedef struct { unsigned count, used ; int *items ; } TAB ;
int bad_grow (TAB *t, int v)
{	if (t->used >= t->count)
	{	int *old = t->items ;
		int n = 3 * (t->count + 1) / 2 ;
		int *p = realloc (old, n * sizeof (int)) ;
		if (p == NULL)
			return 1 ;
		else
			t->items = p ;
		} ;
	t->items [t->used++] = v ;
	return 0 ;
}
int good_grow (TAB *t, int v)
{	if (t->used >= t->count)
	{	int *old = t->items ;
		int n = 3 * (t->count + 1) / 2 ;
		int *p = realloc (old, n * sizeof (int)) ;
		if (p == NULL)
			return 1 ;
		t->items = p ;
		t->count = n ;
		} ;
	t->items [t->used++] = v ;
	return 0 ;
}
