/* positive controls for C16: leaky() loses an allocation on an early return; skip_release() can return before the guarded fclose */
#include <stdlib.h>
#include <stdio.h>
typedef struct { FILE *tmp ; char *buf ; int mode ; } PRIV ;
extern int work (char *p) ;
int leaky (int n)
{	char *p = malloc (n) ;
	if (p == NULL)
		return 1 ;
	if (work (p) != 0)
		return 2 ;          /* leak */
	free (p) ;
	return 0 ;
}
int not_leaky (int n)
{	char *p = malloc (n) ;
	if (p == NULL)
		return 1 ;
	if (work (p) != 0)
	{	free (p) ;
		return 2 ;
		}
	free (p) ;
	return 0 ;
}
int skip_release (PRIV *pv)
{	if (pv->mode == 2)
	{	if (pv->tmp != NULL)
		{	if (work (pv->buf) != 0)
				return 5 ;  /* skips fclose although its guards hold */
			fclose (pv->tmp) ;
			}
		}
	free (pv->buf) ;
	return 0 ;
}
int no_skip (PRIV *pv)
{	if (pv->mode == 2)
	{	if (pv->tmp != NULL)
		{	work (pv->buf) ;
			fclose (pv->tmp) ;
			}
		}
	free (pv->buf) ;
	return 0 ;
}
