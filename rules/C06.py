"""C06 — decoded audio depends only on frame position (seek consistency)."""
from engine.seekrules import seek_table, oracle, dispatch_sites, lenient_path
from engine.util import assigned_lvalues
from engine.bounds import Bounds
from engine.effects import Effects

EXPLANATION = ('Decides: (WHENCE) the decision table of sf_seek, extracted by partial evaluation over whence x open mode x {offset 0, offset != 0} (96 classes), equals the documented one: '
               'absolute target expression per whence, early return of the right pointer for a zero-offset SEEK_CUR, SFE_WRONG_SEEK / SFE_BAD_SEEK for incompatible or unknown whence; '
               '(SEEK-GATE) the codec seek is reached only after the seekable test and the range test (< 0 always, > frames in read mode); (SEEK-ERR) in sf_seek and in every function of the '
               'seek slot each return of PSF_SEEK_ERROR is preceded by a store of a non-zero error (or the error is known set), and no seek function returns an error code as a position; '
               '(BLOCK-SEEK) block-addressed codec seeks compute block index and in-block offset as quotient and remainder by the same quantity, position the file at dataoffset + block * (the '
               'byte size the block reader reads), set the block counter before decoding and the in-block position after it; (BLOCK-FILL) no block reader decodes bytes a short read left over from an earlier block. Equality of sample sequences under partitions/seeks is NOT decided.')
NOT_DECIDED = ['sample sequence equality under arbitrary read partitions and seeks', 'last partial block arithmetic (SDS, PAF) beyond BLOCK-FILL']
ASSUMPTIONS = ['the header parser establishes blocksize / samplesperblock consistently']

BLOCK_SEEKS = {
    # function: (samples-per-block expr, bytes-per-block expr, decode call substring)
    'wavlike_ima_seek': ('pima->samplesperblock', 'pima->blocksize', 'decode_block'),
    'aiff_ima_seek': ('pima->samplesperblock', 'pima->blocksize', 'decode_block'),
    'msadpcm_seek': ('pms->samplesperblock', 'pms->blocksize', 'msadpcm_decode_block'),
    'gsm610_seek': ('pgsm610->samplesperblock', 'pgsm610->blocksize', 'decode_block'),
}


def run(ctx):
    prog = ctx.prog
    eff = Effects(prog)
    f, rows = seek_table(prog)
    ctx.rule('WHENCE', 'for each (whence, open mode, offset class): feasible-path exploration of sf_seek yields the documented absolute target expression, early return, or error code', floor=90)
    for (wh, mode, off), got in sorted(rows.items()):
        exp = oracle(wh, mode, off)
        key = '%s/%s/off%s' % (wh, mode, '0' if off == 0 else '!=0')
        if 'fail' in exp:
            ok = exp['fail'] in got['errors'] and not got['seek_called'] and got['rets'] == ['-1']
            msg = 'expected failure %s; got errors %s, returns %s, codec seek reached: %s' % (exp['fail'], got['errors'], got['rets'], got['seek_called'])
        elif 'early' in exp:
            ok = got['rets'] == [exp['early']] and not got['seek_called']
            msg = 'expected early return of %s; got returns %s, codec seek reached: %s' % (exp['early'], got['rets'], got['seek_called'])
        else:
            ok = got['target'] == [exp['target']] and got['seek_called'] and got['ret_dispatch']
            msg = 'expected target %s; got %s, codec seek reached: %s, returns %s' % (exp['target'], got['target'], got['seek_called'], got['rets'])
        ctx.ob('WHENCE', key, ok, f.loc(f.body), msg, got)

    ctx.rule('SEEK-GATE', 'the indirect call psf->seek reached from sf_seek (directly or through a static helper of sndfile.c) is dominated by the seekable test and by `target < 0` -> SFE_BAD_SEEK, '
             'and every path to it either found `target > sf.frames` false or found the open mode of the handle (psf->file.mode, never the mode bits of whence) to be a writing one', floor=3)
    sites = dispatch_sites(prog, f)
    ctx.require(sites, 'sf_seek has no codec seek dispatch')
    nn, sk_ok, facts = False, False, []
    for (g, c, tgt) in sites:
        bd = Bounds(prog, g, eff)
        b = bd.ev_at(g.unwrap(tgt), g.cfg.point(c))
        facts.append('%s: %r' % (g.name, b))
        nn = nn or (b.lo is not None and b.lo >= 0)
        sk = [n for n in g.walk() if n['k'] == 'MemberExpr' and g.s(n) == 'psf->sf.seekable']
        bs = bd.ev_at(sk[0], g.cfg.point(c)) if sk else None
        sk_ok = sk_ok or (bs is not None and (bs.lo is not None and bs.lo >= 1 or ('!=', '0') in bs.lbs))
    g0, c0, _ = sites[0]
    ctx.ob('SEEK-GATE', 'nonneg', nn, g0.loc(c0), 'target >= 0 at the codec seek: %s' % '; '.join(facts), None)
    ctx.ob('SEEK-GATE', 'seekable', sk_ok, g0.loc(c0), 'seekable test %s the codec seek' % ('dominates' if sk_ok else 'does NOT dominate'), None)
    wit = [(g, lenient_path(prog, g, c, tgt)) for (g, c, tgt) in sites]
    bad = all(w is not None for _, w in wit)
    ctx.ob('SEEK-GATE', 'upper-read', not bad, g0.loc(c0), 'every path to the codec seek has `target > frames` false or a writing open mode' if not bad else
           'a path reaches the codec seek on which neither `target > psf->sf.frames` was found false nor psf->file.mode was found to be SFM_WRITE / SFM_RDWR (lines %s): '
           'a read-only handle can be sought past its last frame' % ' / '.join('%s %s' % (g.name, g.cfg.block_lines(w)[-6:]) for g, w in wit), None)

    ctx.rule('SEEK-ERR', 'sf_seek and every function in the seek slot: every `return PSF_SEEK_ERROR` / `return -1` is preceded on all paths by a store of a non-zero value into psf->error, '
             'or happens under a test of psf->error; no return statement returns an SFE_* error constant as a position', floor=20)
    seekfns = [f] + prog.slot_fns('seek')
    ctx.require(len(seekfns) >= 12, 'seek slot has %d functions' % (len(seekfns) - 1))
    # codecs whose init switches seeking off (sf.seekable = SF_FALSE): sf_seek never dispatches to their seek with a non-zero target
    unseekable = set()
    for tgt, sites in prog.slots.get(('sf_private_tag', 'seek'), {}).items():
        for (sf_, an) in sites:
            offs = [n for (lv, n, rhs) in assigned_lvalues(sf_) if lv == 'psf->sf.seekable' and rhs is not None and sf_.unwrap(rhs).get('v') == 0]
            callers_off = False
            for gname in prog.callers.get(sf_.name, ()):
                for gf in prog.fns.get(gname, []):
                    if any(lv == 'psf->sf.seekable' and rhs is not None and gf.unwrap(rhs).get('v') == 0 for (lv, n, rhs) in assigned_lvalues(gf)):
                        callers_off = True
            if offs or callers_off:
                unseekable.add(tgt)
    ctx.notes.append('seek functions of codecs that disable seeking (sf.seekable = SF_FALSE in their init): %s' % sorted(unseekable))
    IO_SETS_ERROR = ('psf_fseek', 'psf_fread', 'psf_fwrite', 'psf_ftell')
    for g in seekfns:
        errstores = [n for (lv, n, rhs) in assigned_lvalues(g) if lv.endswith('->error') and rhs is not None and g.unwrap(rhs).get('v') != 0]
        k = 0
        for r in g.cfg.returns():
            if not r['kids']:
                continue
            e = g.unwrap(g.N[r['kids'][0]])
            k += 1
            cd_guard = any(a['k'] == 'IfStmt' and 'codec_data' in g.s(a['cond']) for a in g.ancestors(r))
            if cd_guard:
                ctx.ob('SEEK-ERR', '%s:return@%d' % (g.name, k), True, g.loc(r), 'defensive `codec_data == NULL` branch (cannot happen: the init that installs this seek allocated it)', None)
                continue
            if e['k'] == 'DeclRefExpr' and e.get('dk') == 'enum' and e['n'].startswith('SFE_') and e['n'] != 'SFE_NO_ERROR':
                ctx.ob('SEEK-ERR', '%s:return@%d' % (g.name, k), False, g.loc(r), 'returns the error code %s as if it were a frame position' % e['n'], None)
                continue
            if e.get('v') != -1:
                continue
            rp = g.cfg.point(r)
            avoid = {g.cfg.point(n) for n in errstores}
            same = [a for a in avoid if a[0] == rp[0] and a[1] < rp[1]]
            # error already known set: return under `if (psf->error)`
            under_err = any(a['k'] == 'IfStmt' and (g.s(a['cond']).endswith('->error') or any(c.get('callee') in IO_SETS_ERROR for c in g.calls(root=a['cond'])))
                            for a in g.ancestors(r))
            # error set by a callee that failed: `if (psf_fseek (...) ...)`; accept when a call that may set the error dominates
            bdg = Bounds(prog, g, eff)

            def edge_ok(b_, si_, g=g, bdg=bdg):
                # an edge on which the guard implies psf->error != 0 is not part of a path "without an error recorded"
                blk_ = g.cfg.blocks[b_]
                if 'cond' not in blk_ or len(blk_['succs']) != 2 or blk_.get('tk') == 'SwitchStmt':
                    return True
                cn_ = g.N[blk_['cond']]
                if g.unwrap(cn_).get('op') in ('&&', '||') and blk_['elems']:
                    cn_ = g.N[blk_['elems'][-1]]
                for (l_, op_, r_) in bdg.guard_facts(cn_, si_ == 0):
                    if isinstance(l_, dict) and bdg._lv_str(l_).endswith('->error') and op_ == '!=' and (r_ is None or g.unwrap(r_).get('v') == 0):
                        return False
                return True
            w = None if (same or under_err) else g.cfg.path_avoiding((g.cfg.entry, -1), {rp[0]}, avoid, edge_ok=edge_ok)
            ctx.ob('SEEK-ERR', '%s:return@%d' % (g.name, k), w is None, g.loc(r), 'return -1 %s' % ('always with an error recorded' if w is None else
                   'reachable WITHOUT recording an error: lines %s' % g.cfg.block_lines(w)), None)

    ctx.rule('BLOCK-SEEK', 'block codec seeks (frozen instances): newblock = offset / SPB and newsample = offset % SPB with the same SPB; file position = dataoffset + newblock * BYTES where BYTES is the '
             'block byte size; the block counter is assigned before the decode call and the in-block sample position after it', floor=4)
    for name, (spb, bpb, dec) in BLOCK_SEEKS.items():
        g = prog.fn(name)
        if name in unseekable:
            ctx.ob('BLOCK-SEEK', name, True, g.loc(g.body), 'codec disables seeking (sf.seekable = SF_FALSE): the block-addressed path is unreachable through sf_seek', None)
            continue
        asg = [(lv, g.s(rhs), n) for (lv, n, rhs) in assigned_lvalues(g) if rhs is not None]
        qv = [lv for (lv, r, n) in asg if r == '(offset / %s)' % spb]
        # per-channel block layouts (AIFF IMA): a local defined as quotient * channels also addresses blocks
        qv += [lv for (lv, r, n) in asg if any(r == '(%s * psf->sf.channels)' % q for q in qv)]
        mv = [lv for (lv, r, n) in asg if r == '(offset %% %s)' % spb]
        okq = bool(qv) and bool(mv)
        seeks = [g.s(g.args(c)[1]) for c in g.calls('psf_fseek')]
        blockseeks = [s_ for s_ in seeks if any(q in s_ for q in qv)] if qv else []
        oks = bool(blockseeks) and all(any(s_ == '(psf->dataoffset + (%s * %s))' % (q, bpb) for q in qv) for s_ in blockseeks)
        decs = [c for c in g.calls() if dec in g.s(c['kids'][0])]
        cnt = [n for (lv, r, n) in asg if lv.endswith('->blockcount')]
        smp = [n for (lv, r, n) in asg if lv.endswith('->samplecount')]
        oko = bool(decs) and bool(cnt) and bool(smp) and all(any(g.cfg.dominates(c, d) for c in cnt) for d in decs) and all(any(g.cfg.dominates(d, s_) for d in decs) for s_ in smp)
        # the block that is positioned to is the block the counter is set to: when the counter takes one of the quotient variables (per-channel layouts have two,
        # the block index and the block index times the channel count), every block-addressed seek uses that same variable
        cq = {r for (lv, r, n) in asg if lv.endswith('->blockcount') and r in qv}
        if cq and blockseeks:
            oks = oks and all(any(('(%s * ' % q) in s_ or ('%s * ' % q) in s_.replace('(long)', '').replace('(sf_count_t)', '') for q in cq) and
                              not any(('(%s * ' % q2) in s_ for q2 in qv if q2 not in cq and not any(q2 in q for q in cq)) for s_ in blockseeks)
        ok = okq and oks and oko
        ctx.ob('BLOCK-SEEK', name, ok, g.loc(g.body), 'quotient/remainder %s; block byte offset %s %s; counter-decode-position order %s' % (
            'by ' + spb if okq else 'NOT by the same %s' % spb, 'ok' if oks else 'WRONG', blockseeks, 'ok' if oko else 'WRONG'), None)

    ctx.rule('SIBLING-INDEX', 'shared with C05: the typed read variants of a block codec address its decoded block buffer identically (a read through another sample type sees the same frames)', floor=30)
    from engine.siblings import check_siblings
    check_siblings(ctx, prog, 'SIBLING-INDEX', ('pcm.c', 'float32.c', 'double64.c', 'ulaw.c', 'alaw.c'))

    ctx.rule('DECODE-STATE', 'what a block decoder carries from one block to the next (private fields it reads before writing and also writes) is re-established by every seek function of the codec '
             'that calls it: after a seek the decoded samples depend on the frame position only, not on what was decoded before', floor=8)
    from engine.stateless import decode_state
    ctx.require(decode_state(ctx, prog) >= 8, 'too few decoder / seek pairs found')

    ctx.rule('SEEK-RESULT', 'sf_seek stores the result of the codec seek into read_current / write_current only when it is non-negative: at every such store A-PENT proves retval >= 0 '
             '(a failed seek must leave both positions as they were)', floor=3)
    from engine.bounds import Bounds as _Bd
    from engine.util import assigned_lvalues as _al2
    sk = seek_table.roles['sites'][-1][0]                    # the function that holds the dispatch: sf_seek, or the static helper it was moved to
    resvar = seek_table.roles['resvar']
    ctx.require(resvar, 'the result of the codec seek is not kept in a variable')
    bd_ = _Bd(prog, sk, eff)
    nst = 0
    for lv, a, r in _al2(sk):
        if lv in ('psf->read_current', 'psf->write_current') and r is not None and sk.s(sk.unwrap(r)) == resvar:
            nst += 1
            b = bd_.ev_at(sk.unwrap(r), sk.cfg.point(a))
            ok = b.lo is not None and b.lo >= 0
            ctx.ob('SEEK-RESULT', '%s#%d' % (lv, nst), ok, sk.loc(a), '%s = %s with %s >= %s%s' % (lv, resvar, resvar, b.lo, '' if ok else ' — PSF_SEEK_ERROR (-1) from a failed codec seek becomes the position'), repr(b))
    ctx.require(nst >= 3, 'only %d stores of the codec seek result found in %s' % (nst, sk.name))

    ctx.rule('PROBE-RESTORE', 'a header helper that repositions the file to look at the audio data (a psf_fseek to something other than psf->dataoffset followed by reads: wavlike_analyze) puts it back to '
             'psf->dataoffset on every path to its exits: it runs as the last step of the header reader, so what it leaves behind is where the first read after sf_open starts, while '
             'sf_seek (0) goes to dataoffset', floor=1)
    n_pr = 0
    for g in sorted(prog.lib_fns(), key=lambda g_: (g_.file, g_.line)):
        if not (g.name.endswith('_analyze') or g.name.endswith('_probe')):
            continue
        seeks = [c_ for c_ in g.calls('psf_fseek') if g.cfg.point(c_) is not None]
        away = [c_ for c_ in seeks if g.s(g.unwrap(g.args(c_)[1])) != 'psf->dataoffset']
        back = [c_ for c_ in seeks if g.s(g.unwrap(g.args(c_)[1])) == 'psf->dataoffset' and g.unwrap(g.args(c_)[2]).get('v') == 0]
        if not away:
            continue
        n_pr += 1
        ok, wit = True, None
        for a_ in away:
            r_, w_ = g.cfg.must_pass(a_, back)
            if not r_:
                ok, wit = False, w_
        ctx.ob('PROBE-RESTORE', g.name, ok, g.loc(away[0]), 'every path from the probing seek to an exit passes psf_fseek (psf, psf->dataoffset, SEEK_SET)' if ok else
               'a path from the probing seek to an exit (lines %s) does not put the file back to psf->dataoffset: the first read after sf_open starts somewhere else than a read after sf_seek (0)' % g.cfg.block_lines(wit)[-5:], None)
    ctx.require(n_pr >= 1, 'no probing header helper found')

    ctx.rule('BLOCK-FILL', 'a block reader that fills a buffer of its private state with psf_fread and then decodes from it does not decode bytes the read did not deliver: on every path from the read '
             'to a use of the buffer the function returns, clears the buffer tail (memset) or stores the delivered count in the private object first; paths on which the read is known complete '
             'are exempt. Otherwise the samples of a truncated last block depend on which block was decoded before (sequential read vs. seek). Exceptions with a written argument whose supporting '
             'fact (non-seekable codec / frame count of whole blocks only) is re-established from the source on every run: tables/c06_blockfill.tsv', floor=12)
    from engine.blockfill import block_fill, load_frozen
    import os as _os
    n_bf = block_fill(ctx, prog, frozen=load_frozen(_os.path.join(_os.path.dirname(_os.path.dirname(_os.path.abspath(__file__))), 'tables', 'c06_blockfill.tsv')))
    ctx.require(n_bf >= 12, 'only %d reads into codec-private block buffers found' % n_bf)

    from engine.run import borrow
    borrow(ctx, 'C05', ['STAGING'], 'a staging loop that delivers more (or other) items for one large request than for the same request in pieces makes the samples depend on the partition')
    borrow(ctx, 'C05', ['FRAME-ALIGN'], 'a reader whose staging chunk is not a whole number of frames delivers different samples for one long read than for several short ones')
    borrow(ctx, 'C13', ['GETDATA-MIN'], 'a chunk query that does not put the file position back makes the next read deliver bytes from somewhere else: the audio then depends on the call history, not on the frame position')
    borrow(ctx, 'C04', ['WIDE-PRODUCT'], 'a codec seek that computes the byte offset of a block, or the position it reports, in 32-bit arithmetic lands somewhere else once the file is larger than 2 GB')

