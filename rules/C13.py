"""C13 — custom chunks: growable tables, iterator bounds, get_chunk_data minimum."""
from engine.bounds import Bounds
from engine.effects import Effects
from engine.util import local_defs, flow_sources, resolve_local, null_edge_pruner, base_of, assigned_lvalues

EXPLANATION = ('Decides structural necessary clauses of C13: (GROW-CAP) every realloc-grown table updates the capacity field its '
               'size was derived from on every success path; (ITER-BOUNDS) every subscript of a chunks[] table is bounded by the '
               'table\'s `used` field on every path (demand-driven interval/upper-bound analysis) or is the append slot guarded by '
               'the capacity test; (GETDATA-MIN) every get_chunk_data implementation copies at most chunk_info->datalen bytes '
               'into a non-NULL chunk_info->data and restores the file position; (SET-GATE) the public chunk API validates its '
               'arguments before dispatching. The behavioural property (payload identity after re-open, audio untouched) is NOT decided.')
NOT_DECIDED = ['payload bytes / order after re-open', 'audio data untouched by chunk serialisation', 'padding arithmetic of stored payloads']
ASSUMPTIONS = ['C integer arithmetic in size expressions does not overflow', 'no aliasing between distinct chunk tables']

GROW_TEXT = ('for every realloc whose size derives (through locals) from a field C of the same object as the reallocated pointer, '
             'every path from the realloc to a function exit on which the result is non-NULL assigns C (to the new capacity)')


def grow_cap(ctx, prog, fns, rule='GROW-CAP'):
    n_inst = 0
    for f in fns:
        calls = list(f.calls('realloc'))
        if not calls:
            continue
        defs = local_defs(f)
        for c in calls:
            args = f.args(c)
            ptr = resolve_local(f, args[0], defs)
            P = f.s(ptr)
            base = base_of(P)
            srcs = flow_sources(f, args[1], defs)
            # capacity candidates: member paths with the same base as the pointer (or members of the pointer itself)
            caps = set()
            for s in srcs:
                if ('->' in s or '.' in s) and s != P:
                    if base_of(s) == base and base != P:
                        caps.add(s)
                    elif base_of(s) == P:
                        caps.add(s)
            key = '%s:%s' % (f.name, P)
            n_inst += 1
            if not caps:
                ctx.ob(rule, key, True, f.loc(c), 'realloc of %s: size does not derive from a capacity field of the same object (not a capacity-tracked table)' % P,
                       {'pointer': P, 'size_sources': sorted(srcs)})
                continue
            # names holding the result
            res_names = set()
            par = f.N[f.parent[c['id']]] if c['id'] in f.parent else None
            node = c
            while par is not None and par['k'] in ('ImplicitCastExpr', 'CStyleCastExpr', 'ParenExpr'):
                node = par
                par = f.N[f.parent[par['id']]] if par['id'] in f.parent else None
            if par is not None and par['k'] == 'BinaryOperator' and par['op'] == '=':
                res_names.add(f.s(par['kids'][0]))
            if par is not None and par['k'] == 'DeclStmt':
                for d in par.get('decls', []):
                    if d.get('init') is not None and f.within(c, d['init']):
                        res_names.add(d['n'])
            # the new location of the table after success: lvalues assigned from the result names
            holders = set(res_names)
            for lv, an, rhs in assigned_lvalues(f):
                if rhs is not None and f.s(f.unwrap(rhs)) in res_names:
                    holders.add(lv)
            # capacity field may be reached through a renamed base (info = temp ; info->allocated = ...)
            cap_leafs = {s[len(base_of(s)):] for s in caps}
            through = []
            for lv, an, rhs in assigned_lvalues(f):
                if any(lv.endswith(cl) for cl in cap_leafs) and (lv in caps or base_of(lv) in holders or base_of(lv) == base):
                    through.append(an)
            ok, w = f.cfg.must_pass(c, through, edge_ok=null_edge_pruner(f, res_names | {P}))
            msg = 'capacity field %s is %s after realloc of %s' % ('/'.join(sorted(caps)), 'updated on every success path' if ok else
                                                               'NOT updated on a path to exit (lines %s)' % (f.cfg.block_lines(w) if w else '?'), P)
            ctx.ob(rule, key, ok, f.loc(c), msg, {'pointer': P, 'capacity': sorted(caps), 'updates_at': [f.loc(a) for a in through]})
    return n_inst


def run(ctx):
    prog = ctx.prog
    eff = Effects(prog)

    # ------------------------------------------------------------------ GROW-CAP
    ctx.rule('GROW-CAP', GROW_TEXT, floor=4)
    grow_cap(ctx, prog, list(prog.lib_fns()))
    # positive fixture
    from engine.fixture import fixture_prog
    fp = fixture_prog('c13_growcap.c')
    fctx = type(ctx)(ctx.pid, ctx.tier, fp)
    fctx.rule('GROW-CAP', GROW_TEXT)
    grow_cap(fctx, fp, list(fp.all_fns()))
    bad = {f['key'] for f in fctx.findings}
    ctx.fixture('GROW-CAP', bad == {'GROW-CAP:bad_grow:t->items'}, 'fixtures/c13_growcap.c: bad_grow must fire, good_grow must not (got %s)' % sorted(bad))

    # ------------------------------------------------------------------ ITER-BOUNDS
    ctx.rule('ITER-BOUNDS', 'every subscript X.chunks[i] of a READ_CHUNKS/WRITE_CHUNKS table has 0 <= i < X.used on every path '
             '(or is the append slot X.chunks[X.used] in a function whose capacity test `used >= count` / `used == count` guards a grow step); '
             'indices obtained from psf_find_read_chunk_* are accepted when the finder returns only -1 or a value < used and the caller excludes negatives', floor=20)
    finders = {}
    for name in ('psf_find_read_chunk_str', 'psf_find_read_chunk_m32', 'psf_find_read_chunk_iterator'):
        f = prog.fn(name, 'chunk.c')
        bd = Bounds(prog, f, eff)
        p0 = f.params[0]['n']
        okf = True
        why = []
        for r in f.cfg.returns():
            e = f.N[r['kids'][0]]
            eu = f.unwrap(e)
            b = bd.ev(eu)
            if b.hi is not None and b.hi < 0:
                why.append('%s: returns %s (negative)' % (f.loc(r), f.s(eu)))
                continue
            if ('<', '%s->used' % p0) in b.ubs:
                why.append('%s: returns %s < %s->used' % (f.loc(r), f.s(eu), p0))
                continue
            okf = False
            why.append('%s: return %s not bounded by %s->used (%r)' % (f.loc(r), f.s(eu), p0, b))
        finders[name] = okf
        ctx.ob('ITER-BOUNDS', 'finder:' + name, okf, f.loc(f.body), '; '.join(why), why)

    n_sub = 0
    for f in prog.lib_fns():
        subs = []
        for n in f.walk():
            if n['k'] == 'ArraySubscriptExpr':
                base = f.unwrap(f.N[n['kids'][0]])
                if base['k'] == 'MemberExpr' and base['n'] == 'chunks' and base.get('rec') in ('READ_CHUNKS', 'WRITE_CHUNKS'):
                    subs.append((n, base))
        if not subs:
            continue
        bd = Bounds(prog, f, eff)
        for n, base in subs:
            n_sub += 1
            idx = f.unwrap(f.N[n['kids'][1]])
            tab = f.s(base['kids'][0]) + ('->' if base['arrow'] else '.')
            used = tab + 'used'
            key = '%s:%s[%s]' % (f.name, f.s(base), f.s(idx))
            b = bd.ev(idx)
            if ('<', used) in b.ubs and b.lo is not None and b.lo >= 0:
                ctx.ob('ITER-BOUNDS', key, True, f.loc(n), 'index %s in [0, %s)' % (f.s(idx), used), repr(b))
                continue
            if f.s(idx) == used:
                # append slot: must be dominated by a capacity test on the same table that leads to a grow step
                grow = [c for c in f.calls(('realloc', 'calloc'))]
                cnt = tab + 'count'
                tests = []
                for blk in f.cfg.blocks.values():
                    if 'cond' in blk:
                        cs = f.s(blk['cond'])
                        if cs in ('(%s >= %s)' % (used, cnt), '(%s == %s)' % (used, cnt)):
                            tests.append((blk['id'], len(blk['elems'])))
                allocs = [f.cfg.point(c) for c in f.calls('calloc')]
                sp = f.cfg.point(n)
                has_test = bool(tests) and f.cfg.path_avoiding((f.cfg.entry, -1), {sp[0]}, set(tests + allocs)) is None
                ok = bool(grow) and has_test
                ctx.ob('ITER-BOUNDS', key, ok, f.loc(n), 'append slot %s: capacity test %s grow step %s' % (
                    f.s(n), 'present' if has_test else 'MISSING', 'present' if grow else 'MISSING'), None)
                continue
            # finder idiom
            okk = False
            why = repr(b)
            defs = bd.reaching_defs(f.s(idx), f.cfg.point(n))
            if defs and all(d[0] == 'def' and d[2] is not None for d in defs):
                srcs = set()
                for d in defs:
                    r = f.unwrap(f.N[d[2]])
                    if r['k'] == 'CallExpr' and r.get('callee') in finders and finders[r['callee']]:
                        a0 = f.unwrap(f.args(r)[0])
                        a0s = f.s(a0)
                        if a0s == '&' + tab[:-1] or a0s == tab[:-2]:
                            srcs.add(r['callee'])
                            continue
                    srcs.add(None)
                if None not in srcs and b.lo is not None and b.lo >= 0:
                    okk = True
                    why = 'index from %s (returns -1 or < used), negatives excluded (lo=%s)' % ('/'.join(sorted(srcs)), b.lo)
            ctx.ob('ITER-BOUNDS', key, okk, f.loc(n), 'index %s of %s: %s' % (f.s(idx), f.s(base), why if okk else 'cannot prove 0 <= index < %s: %s' % (used, why)), why)

    # ------------------------------------------------------------------ GETDATA-MIN
    ctx.rule('GETDATA-MIN', 'every function in the get_chunk_data slot: each read into chunk_info->data has byte count <= chunk_info->datalen, '
             'is reached only with chunk_info->data != NULL, and every psf_fseek away is followed on all paths by a psf_fseek back to the psf_ftell value', floor=3)
    gfns = prog.slot_fns('get_chunk_data')
    ctx.require(len(gfns) >= 3, 'get_chunk_data slot has %d functions' % len(gfns))
    for f in gfns:
        bd = Bounds(prog, f, eff)
        ci = f.params[2]['n']
        reads = [c for c in f.calls(('psf_fread', 'memcpy', 'fread', 'psf_binheader_readf')) if f.s(f.unwrap(f.args(c)[0])).startswith(ci + '->data')]
        # the caller's capacity is an INPUT of this call: a hook that stores into it replaces the bound by the chunk's own size
        wr = [a for (lv, a, r) in assigned_lvalues(f) if lv == ci + '->datalen']
        ctx.ob('GETDATA-MIN', f.name + ':datalen-input', not wr, f.loc(wr[0]) if wr else f.loc(f.body), '%s->datalen is never assigned' % ci if not wr else
               '%s->datalen (the caller\'s buffer size) is overwritten (`%s`): the bound of the copy below is no longer what the caller allowed' % (ci, f.s(wr[0])[:70]), None)
        if not reads:
            ctx.ob('GETDATA-MIN', f.name + ':read', False, f.loc(f.body), 'no read into %s->data found' % ci)
        for c in reads:
            args = f.args(c)
            if c['callee'] == 'psf_fread':
                cnt, item = f.unwrap(args[1]), f.unwrap(args[2])
                if item.get('v') != 1 and cnt.get('v') == 1:
                    cnt, item = item, cnt
                ok_item = item.get('v') == 1
            else:
                cnt, ok_item = f.unwrap(args[2]), True
            b = bd.ev(cnt)
            ok = ok_item and (('<=', ci + '->datalen') in b.ubs or ('<', ci + '->datalen') in b.ubs)
            ctx.ob('GETDATA-MIN', f.name + ':count', ok, f.loc(c), 'bytes read into %s->data = %s; %s' % (
                ci, f.s(cnt), 'bounded by %s->datalen' % ci if ok else 'NOT bounded by %s->datalen (%r)' % (ci, b)), repr(b))
            dst = f.unwrap(args[0])
            nb = bd.ev(dst)
            okn = nb.lo is not None and nb.lo >= 1
            ctx.ob('GETDATA-MIN', f.name + ':nonnull', okn, f.loc(c), '%s->data %s before the read' % (ci, 'checked != NULL' if okn else 'NOT checked against NULL'), repr(nb))
        # position restore
        tells = [n for (lv, n, rhs) in assigned_lvalues(f) if rhs is not None and f.unwrap(rhs).get('callee') == 'psf_ftell']
        seeks = list(f.calls('psf_fseek'))
        if seeks:
            posv = {f.s(n['kids'][0]) for n in tells}
            back = [s for s in seeks if f.s(f.unwrap(f.args(s)[1])) in posv]
            away = [s for s in seeks if s not in back]
            okp = bool(back) and bool(tells)
            w = None
            for s in away:
                r, w = f.cfg.must_pass(s, back)
                if not r:
                    okp = False
                    break
                if not any(f.cfg.dominates(t, s) for t in tells):
                    okp = False
            ctx.ob('GETDATA-MIN', f.name + ':restore', okp, f.loc(seeks[0]), 'file position %s' % ('saved before and restored after the chunk read on every path' if okp else
                   'NOT restored on every path after seeking to the chunk'), None)

    # ------------------------------------------------------------------ SET-GATE
    ctx.rule('SET-GATE', 'sf_set_chunk / sf_get_chunk_data / sf_get_chunk_size reject NULL chunk_info (and NULL data where required) before dispatching to the container hook, sf_set_chunk dispatches only while psf->have_written == 0 (custom chunks live in the header), '
             'and every set_chunk hook stores through psf_save_write_chunk on the handle\'s own wchunks table', floor=5)
    for name, need_data in (('sf_set_chunk', True), ('sf_get_chunk_data', True), ('sf_get_chunk_size', False)):
        f = prog.fn(name, 'sndfile.c')
        bd = Bounds(prog, f, eff)
        ind = [c for c in f.calls() if 'callee' not in c]
        ctx.require(len(ind) >= 1, '%s has no indirect dispatch' % name)
        ci = [p['n'] for p in f.params if 'SF_CHUNK_INFO' in p['t']][0]
        for c in ind:
            arg = [a for a in f.args(c) if f.s(f.unwrap(a)) == ci]
            ctx.require(arg, '%s: dispatch does not pass %s' % (name, ci))
            b = bd.ev(f.unwrap(arg[0]))
            ok = b.lo is not None and b.lo >= 1
            ctx.ob('SET-GATE', name + ':nonnull', ok, f.loc(c), '%s %s before dispatch' % (ci, 'proved non-NULL' if ok else 'NOT checked against NULL'), repr(b))
            if need_data:
                # find a dominating guard on ci->data
                ok2 = False
                for blk in f.cfg.blocks.values():
                    if 'cond' in blk and ('%s->data == 0' % ci) in f.s(blk['cond']).replace('NULL', '0') and f.cfg.dominates((blk['id'], len(blk['elems'])), c):
                        ok2 = True
                ctx.ob('SET-GATE', name + ':data', ok2, f.loc(c), '%s->data %s before dispatch' % (ci, 'checked' if ok2 else 'NOT checked'), None)
    # a chunk set after audio was written must be refused: every container serialises custom chunks inside the header,
    # which cannot grow once data follows it (a larger header rewritten at close overwrites the start of the audio)
    f = prog.fn('sf_set_chunk', 'sndfile.c')
    bd = Bounds(prog, f, eff)
    hw = [n for n in f.walk() if n['k'] == 'MemberExpr' and n.get('n') == 'have_written']
    for c in [c for c in f.calls() if 'callee' not in c]:
        if hw:
            b = bd.ev_at(hw[0], f.cfg.point(c))
            ok = b.hi is not None and b.hi <= 0 and b.lo is not None and b.lo >= 0
        else:
            ok, b = False, None
        ctx.ob('SET-GATE', 'sf_set_chunk:have_written', ok, f.loc(c), 'the set_chunk hook is reached only with psf->have_written == 0' if ok else
               'the set_chunk hook is reached after audio data was written (psf->have_written not tested): the header rewrite at close grows over the start of the audio', repr(b))
    whs = {}
    for g in prog.slot_fns('set_chunk'):
        base = g.file.split('/')[-1]
        for w in prog.slot_fns('write_header'):
            if w.file == g.file:
                def uses(fn):
                    return [x for x in fn.walk() if x['k'] == 'MemberExpr' and x.get('n') == 'wchunks']
                cc = [(w, x) for x in uses(w)]
                for x in w.calls():
                    g2 = prog.fn_opt(x.get('callee') or '', None) if x.get('callee') else None
                    if g2 is not None and uses(g2):
                        cc.append((w, x))
                whs[base] = (w, cc)
    for base, (w, cc) in sorted(whs.items()):
        ctx.ob('SET-GATE', base + ':chunks-in-header', bool(cc), w.loc(cc[0][1]) if cc else w.loc(w.body),
               '%s serialises the wchunks table as part of the header%s: the reason late chunks must be refused' % (w.name, '' if cc else ' — NO use of wchunks found'), None)
    sfns = prog.slot_fns('set_chunk')
    ctx.require(len(sfns) >= 4, 'set_chunk slot has %d functions' % len(sfns))
    for f in sfns:
        cs = list(f.calls('psf_save_write_chunk'))
        ok = len(cs) >= 1 and all(f.s(f.unwrap(f.args(c)[0])) == '&%s->wchunks' % f.params[0]['n'] for c in cs)
        ctx.ob('SET-GATE', f.name + ':store', ok, f.loc(f.body), 'stores via psf_save_write_chunk (&psf->wchunks, ...)' if ok else 'does not store into the handle\'s wchunks table', None)

    # ------------------------------------------------------------------ MATCH-RESULT
    ctx.rule('MATCH-RESULT', 'in chunk.c every search loop that tests pchk->chunks [K].hash / .mark32 against the wanted id and then returns: the matched index K is what is returned (finders) or is stored '
             'into iterator->current before the iterator is returned (so the iterator always designates the chunk that matched)', floor=3)
    for f in prog.lib_fns():
        if not f.file.endswith('/chunk.c'):
            continue
        for n in f.walk():
            if n['k'] != 'IfStmt':
                continue
            cs = f.s(n['cond'])
            import re as _re
            m = _re.match(r'^\(pchk->chunks\[(\w+)\]\.(hash|mark32) == \w+\)$', cs)
            if not m:
                continue
            K = m.group(1)
            rets = [x for x in f.walk(n['then']) if x['k'] == 'ReturnStmt' and x['kids']]
            for r in rets:
                e = f.s(f.unwrap(f.N[r['kids'][0]]))
                if e == K:
                    ok, why = True, 'returns the matched index %s' % K
                else:
                    st = [y for y in f.walk(n['then']) if y['k'] == 'BinaryOperator' and y['op'] == '=' and f.s(y['kids'][0]).endswith('->current') and f.s(y['kids'][1]) == K and y['id'] < r['id']]
                    ok = bool(st)
                    why = 'stores the matched index into the iterator before returning it' if ok else 'returns %s WITHOUT recording the matched index %s: the iterator designates a different chunk' % (e, K)
                ctx.ob('MATCH-RESULT', '%s:%s' % (f.name, cs), ok, f.loc(r), why, None)

    # ------------------------------------------------------------------ PAD-AGREE
    ctx.rule('PAD-AGREE', 'psf_save_write_chunk records the payload length rounded up to a multiple of 4 (`while (len & 3) len ++`) and the header writers serialise that many bytes from the '
             'private copy made by psf_memdup: the allocation size expression of psf_memdup, evaluated for every n in 0..63 (all residues, exact integer evaluation of the expression tree), is >= the rounded length', floor=1)
    md = prog.fn('psf_memdup', 'common.c')
    al = [c for c in md.calls() if c.get('callee') in ('calloc', 'malloc')]
    ctx.require(al, 'psf_memdup has no allocation')
    szn = md.args(al[0])[-1] if al[0]['callee'] == 'malloc' else md.args(al[0])[1]
    cntn = md.args(al[0])[0] if al[0]['callee'] == 'calloc' else None
    pn = md.params[1]['n']

    def ev(f_, n_, env):
        n_ = f_.unwrap(n_)
        k_ = n_['k']
        if n_.get('v') is not None and k_ != 'DeclRefExpr':
            return n_['v']
        if k_ == 'DeclRefExpr':
            return env[n_['n']]
        if k_ == 'ConditionalOperator':
            c_, a_, b_ = n_['kids']
            return ev(f_, f_.N[a_], env) if ev(f_, f_.N[c_], env) else ev(f_, f_.N[b_], env)
        if k_ == 'BinaryOperator':
            x_, y_ = ev(f_, f_.N[n_['kids'][0]], env), ev(f_, f_.N[n_['kids'][1]], env)
            return {'+': x_ + y_, '-': x_ - y_, '*': x_ * y_, '&': x_ & y_, '|': x_ | y_, '>>': x_ >> y_, '<<': x_ << y_, '/': x_ // y_ if y_ else 0, '%': x_ % y_ if y_ else 0,
                    '==': int(x_ == y_), '!=': int(x_ != y_), '<': int(x_ < y_), '>': int(x_ > y_), '<=': int(x_ <= y_), '>=': int(x_ >= y_), '&&': int(bool(x_) and bool(y_)), '||': int(bool(x_) or bool(y_))}[n_['op']]
        if k_ == 'UnaryOperator' and n_.get('op') in ('!', '-', '~'):
            x_ = ev(f_, f_.N[n_['kids'][0]], env)
            return {'!': int(not x_), '-': -x_, '~': ~x_}[n_['op']]
        raise KeyError(k_)
    sw = prog.fn('psf_save_write_chunk', 'chunk.c')
    rounds = any(n_['k'] == 'WhileStmt' and sw.s(n_['cond']).replace(' ', '') == '(len&3)' for n_ in sw.walk())
    bad = []
    try:
        for n0 in range(64):
            a_ = ev(md, szn, {pn: n0}) * (ev(md, cntn, {pn: n0}) if cntn is not None else 1)
            want = ((n0 + 3) & ~3) if rounds else n0
            if a_ < want:
                bad.append((n0, a_, want))
        ctx.ob('PAD-AGREE', 'psf_memdup', not bad, md.loc(al[0]), 'allocation covers the recorded (padded) length for every n in 0..63' if not bad else
               'for payload lengths %s the private copy holds %s bytes but %s are recorded and later read from it: heap over-read of the copy into the file' % ([b[0] for b in bad[:6]], [b[1] for b in bad[:6]], [b[2] for b in bad[:6]]), None)
    except KeyError as e_:
        ctx.ob('PAD-AGREE', 'psf_memdup', False, md.loc(al[0]), 'allocation size expression uses a construct the evaluator does not model (%s)' % e_, None)


    ctx.rule('ITER-RESET', 'the per-handle chunk iterator object (psf->iterator) is handed out by psf_get_chunk_iterator again and again: every field that psf_next_chunk_iterator reads '
             '(iterator->hash, iterator->current ...) is assigned on every path to `return psf->iterator` (or the whole object is cleared / freshly calloc\'ed on that path): a search '
             'by id that was not run to its end must not leave its hash behind, or the next full iteration visits only the chunks with that id', floor=2)
    gi = prog.fn('psf_get_chunk_iterator', 'chunk.c')
    ni = prog.fn('psf_next_chunk_iterator', 'chunk.c')
    it_par = ni.params[1]['n']
    read_fields = sorted({n['n'] for n in ni.walk() if n['k'] == 'MemberExpr' and ni.s(ni.unwrap(ni.N[n['kids'][0]])) == it_par})
    ctx.require(len(read_fields) >= 2, 'psf_next_chunk_iterator reads %s of the iterator' % read_fields)
    rets = [n for n in gi.walk() if n['k'] == 'ReturnStmt' and n.get('kids') and gi.s(gi.unwrap(gi.N[n['kids'][0]])) == 'psf->iterator']
    ctx.require(rets, 'psf_get_chunk_iterator no longer returns psf->iterator')
    from engine.util import assigned_lvalues as _al13
    whole = [c for c in gi.calls() if c.get('callee') == 'memset' and gi.s(gi.unwrap(gi.args(c)[0])) == 'psf->iterator']
    for fld in read_fields:
        sets_ = [a for lv, a, r in _al13(gi) if lv == 'psf->iterator->%s' % fld]
        fresh = [a for lv, a, r in _al13(gi) if lv == 'psf->iterator' and r is not None and any(c.get('callee') == 'calloc' for c in gi.calls(root=r))]
        avoid = set()
        for x in sets_ + whole:
            p_ = gi.cfg.point(x)
            if p_ is not None:
                avoid.add(p_)
        # a fresh calloc counts only if nothing but that path reaches the return: handled by treating it as a setter too
        for x in fresh:
            p_ = gi.cfg.point(x)
            if p_ is not None:
                avoid.add(p_)
        # paths that leave through another return (NULL) do not hand the object out
        for r_ in gi.walk():
            if r_['k'] == 'ReturnStmt' and r_ not in rets and gi.cfg.point(r_) is not None:
                avoid.add(gi.cfg.point(r_))
        w = gi.cfg.path_avoiding((gi.cfg.entry, -1), {gi.cfg.exit}, avoid)
        ctx.ob('ITER-RESET', 'psf_get_chunk_iterator:%s' % fld, w is None, gi.loc(rets[0]), 'iterator->%s is %s' % (fld, 'assigned (or the object cleared / fresh) on every path to the return' if w is None else
               'NOT assigned on a path to `return psf->iterator` (blocks %s): the value of the previous search survives - after an unfinished search by id a full iteration only visits chunks with that id' % w[:8]), None)

    ctx.rule('WRITE-NOCAP', 'psf_bump_header_allocation refuses a request (returns non-zero without calling realloc) only on a branch whose condition requires psf->file.mode == SFM_READ: the 100 KiB cap '
             'guards the parsers against hostile size fields; in the write modes what the header writers emit is the caller\'s own data (custom chunks, strings), and a refused allocation '
             'silently drops a payload after its marker and size were written - the file cannot be opened again', floor=1)
    ba = prog.fn('psf_bump_header_allocation', 'common.c')
    n_wn = 0
    for n in ba.walk():
        if n['k'] != 'IfStmt' or not any(y['k'] == 'ReturnStmt' and y.get('kids') and ba.unwrap(ba.N[y['kids'][0]]).get('v') not in (0, None) for y in ba.walk(ba.N[n['then']])):
            continue
        if any(c.get('callee') == 'realloc' for c in ba.calls(root=ba.N[n['cond']])):
            continue            # the out-of-memory exit
        n_wn += 1
        cs = ba.s(n['cond'])
        conj = []
        def _conj(x):
            x = ba.unwrap(x)
            if x.get('k') == 'BinaryOperator' and x.get('op') == '&&':
                _conj(ba.N[x['kids'][0]]); _conj(ba.N[x['kids'][1]])
            else:
                conj.append(ba.s(x))
        _conj(ba.N[n['cond']])
        ok = any(c_.replace(' ', '') in ('(psf->file.mode==SFM_READ)', '(psf->file.mode==16)') for c_ in conj)
        ctx.ob('WRITE-NOCAP', 'psf_bump_header_allocation@%d' % n['l'], ok, ba.loc(n), 'refusal under `%s`%s' % (cs[:70], '' if ok else
               ': also taken in the write modes - a header that needs more than the cap (two custom chunks of 40000 bytes) is written with payloads missing'), None)
    ctx.require(n_wn >= 1, 'psf_bump_header_allocation: no refusal branch found')

    ctx.rule('ABS-OFFSET', 'in the header readers the absolute position of the audio data is never taken from the header cache index: no assignment to psf->dataoffset / datalength / dataend outside the '
             'header writers has psf->header.indx on its right-hand side (after a skip too long to cache - a custom chunk larger than the cache in front of the data - the index is no longer the file '
             'offset; psf_ftell is)', floor=20)
    n_ao = 0
    from engine.util import assigned_lvalues as _al13b
    for f in sorted(prog.lib_fns(), key=lambda f: (f.file, f.line)):
        if 'write' in f.name or f.file.endswith('common.c'):
            continue
        for lv, a, r in _al13b(f):
            if lv not in ('psf->dataoffset', 'psf->datalength', 'psf->dataend') or r is None:
                continue
            n_ao += 1
            bad = 'psf->header.indx' in f.s(r)
            if bad or n_ao <= 400:
                ctx.ob('ABS-OFFSET', '%s:%s@%d' % (f.name, lv, a['l']), not bad, f.loc(a), '%s = %s' % (lv, f.s(r)[:60]) + ('' if not bad else
                       ': the cache index is used as a file offset - wrong as soon as a chunk in front of the data was too long to cache'), None)
    ctx.require(n_ao >= 20, 'only %d geometry assignments found in the readers' % n_ao)

    ctx.rule('UNION-INIT', 'a local union that is filled through a string member (snprintf / strcpy / memcpy into u.str) and read through a scalar member (u.marker) is initialised as a whole first '
             '(initializer, memset (&u ...), or an assignment to the scalar member dominating the fill): for a short chunk id the untouched bytes of the marker are stack residue that reaches the file', floor=3)
    from engine.unioninit import union_init
    n_ui = union_init(ctx, prog)
    ctx.require(n_ui >= 3, 'only %d string-filled unions found' % n_ui)

    ctx.rule('ID-WIDTH', 'chunk.c: every snprintf that builds the four-byte chunk marker from a caller-supplied id (psf_save_write_chunk on the write side, psf_get_chunk_iterator / psf_find_read_chunk_str '
             'on the search side) uses a field width of at least 4 (`%-4s`, `%-4.4s`): ids of one to three characters are padded with spaces on both sides alike. A marker with NUL bytes makes the '
             'WAV / AIFF / RF64 parsers stop before the data chunk (the file cannot be opened again), and a search must build the marker the writer built', floor=2)
    import re as _re13
    n_iw = 0
    # every function of chunk.c that prints a caller-supplied id into the string member of a marker union (wherever that code lives: a shared helper counts once),
    # except the reader-side table filler psf_store_read_chunk_str, whose ids come from a file
    for g in sorted([x for x in prog.lib_fns() if x.file.endswith('/chunk.c')], key=lambda x: x.line):
        fn_ = g.name
        if fn_ == 'psf_store_read_chunk_str':
            continue
        unions_ = {d['n'] for x in g.walk() if x['k'] == 'DeclStmt' for d in (x.get('decls') or []) if 'union' in (d.get('t') or '')}
        for c in g.calls('snprintf'):
            if g.s(g.unwrap(g.args(c)[0])).split('.')[0] not in unions_:
                continue
            fm = g.unwrap(g.args(c)[2]).get('s') or ''
            m_ = _re13.match(r'^%-?(\d+)(\.\d+)?s$', fm)
            n_iw += 1
            ok = bool(m_) and int(m_.group(1)) >= 4
            ctx.ob('ID-WIDTH', fn_, ok, g.loc(c), 'marker built with "%s"%s' % (fm, '' if ok else ': ids shorter than 4 characters leave NUL bytes in the marker'), None)
    ctx.require(n_iw >= 2, 'only %d marker constructions found' % n_iw)

    ctx.rule('CACHE-RECLAIM', 'the read side of the header cache (header_read, header_gets, psf_binheader_readf in common.c) never gives up on a refused psf_bump_header_allocation directly: it asks for room '
             'through a helper that, when the buffer may not grow (the read-mode cap), drops what the parser has already consumed from the front of the cache (a memmove onto psf->header.ptr and '
             'psf->header.indx = 0) before it reports failure. Without that a file whose chunks in front of the audio data add up to more than the cap - 190 custom chunks of 500 bytes - cannot '
             'be opened again although every single request is small', floor=3)
    from engine.util import assigned_lvalues as _al13
    cfile = prog.fn('header_read', 'common.c').file
    room = []
    for h_ in prog.lib_fns():
        if h_.file != cfile or not h_.static or not list(h_.calls('psf_bump_header_allocation')):
            continue
        slides = [c_ for c_ in h_.calls('memmove') if h_.s(h_.unwrap(h_.args(c_)[0])) == 'psf->header.ptr']
        resets = [a_ for lv_, a_, r_ in _al13(h_) if lv_ == 'psf->header.indx' and r_ is not None and h_.unwrap(r_).get('v') == 0]
        if slides and resets:
            room.append(h_.name)
    for name in ('header_read', 'header_gets', 'psf_binheader_readf'):
        g = prog.fn(name, 'common.c')
        direct = list(g.calls('psf_bump_header_allocation'))
        via = [c_ for c_ in g.calls() if c_.get('callee') in room]
        ok = not direct and bool(via)
        ctx.ob('CACHE-RECLAIM', name, ok, g.loc(direct[0]) if direct else g.loc(g.body), 'asks for room through %s (reclaims the consumed part of the cache when the buffer may not grow)' % sorted({c_['callee'] for c_ in via}) if ok else
               ('gives up when psf_bump_header_allocation refuses, without reclaiming the part of the cache the parser has consumed: headers whose chunks add up to more than the read-mode cap end the parse'
                if direct else 'does not ask for room in the cache at all'), None)
