"""C18 — PEAK data and signal-max commands equal the true maxima."""
from engine.util import assigned_lvalues
from engine.effects import Effects

EXPLANATION = ('Decides: (PEAK-FACTS) float32_peak_update and double64_peak_update scan channel c at indices c, c + channels, ... with a strict `<` (first occurrence wins inside a call), update the '
               'stored peak only on a strict `>` (first occurrence wins across calls) and store position = write_current + chunk frame offset + index / channels; the two siblings agree; '
               '(PEAK-CALL) every float/double write path that maintains PEAK data calls the updater on the converted chunk before any byte swap and before the write, with the chunk offset '
               'expressed in frames (total / channels); (PEAK-ALIGN) a chunked caller hands the per-channel scan a chunk that starts on a frame boundary: the chunk length is explicitly rounded to '
               'a multiple of the channel count; (CALC-RESTORE) psf_calc_signal_max and psf_calc_max_all_channels save the read position and SFC_GET_NORM_DOUBLE and restore both on every path '
               'after the first modifying call, early exits happen before any modification; (GET-MAX) the GET commands read the stored per-channel peaks over exactly `channels` entries. '
               'Numerical equality with the true maximum is NOT decided.')
NOT_DECIDED = ['numerical equality with the true maxima', 'PEAK chunk byte layout (field sequence agreement is covered by C12 where built)']
ASSUMPTIONS = ['requests are whole frames (enforced by the public wrappers: C05 WRAPPER)']


def updater_facts(f, prog=None):
    """facts of a peak updater, independent of spelling and of where the scan lives: loops may be for or while, psf->sf.channels may have been copied into a
    local, &psf->peak_info->peaks [chan] may have been taken into a pointer, fabs (buffer [k]) may have a temporary, and the per-channel scan may have been
    moved into a static helper of the same file.  The facts are stated over ROLES (channel index, scan index, running maximum, position of the maximum,
    count / frame offset parameters) and printed with the canonical names chan, k, fmaxval, position, count, indx."""
    import re as _re
    from engine.util import local_defs
    LOOPS = ('ForStmt', 'WhileStmt', 'DoStmt')

    def make_S(g, extra):
        params = {p_['n'] for p_ in g.params}
        al = assigned_lvalues(g)
        subst = dict(extra)
        for nm, ds in local_defs(g).items():
            if nm in params or len(ds) != 1 or ds[0] is None:
                continue
            d = ds[0] if isinstance(ds[0], dict) else g.N[ds[0]]
            du = g.unwrap(d)
            if du.get('k') == 'MemberExpr' and sum(1 for lv, a, r in al if lv == nm) == 0:
                subst[nm] = g.s(du)
            elif du.get('k') == 'UnaryOperator' and du.get('op') == '&':
                subst[nm + '->'] = g.s(g.unwrap(g.N[du['kids'][0]])) + '.'
            elif du.get('k') == 'CallExpr' and du.get('callee') in ('fabs', 'fabsf') and sum(1 for lv, a, r in al if lv == nm) <= 1:
                subst[nm] = g.s(du)

        def S(x, rounds=2):
            t = g.s(x) if not isinstance(x, str) else x
            for _ in range(rounds):
                for k_, v_ in subst.items():
                    if k_.endswith('->'):
                        t = t.replace(k_, v_)
                    else:
                        t = _re.sub(r'(?<![\w>.])%s(?![\w])' % _re.escape(k_), v_.replace('\\', '\\\\'), t)
            return t
        return S, subst

    facts = {}
    loops = [n for n in f.walk() if n['k'] in LOOPS]
    facts['n_for'] = len(loops)
    if not loops:
        return facts
    outer = loops[0]
    ocn = f.unwrap(f.N[outer['cond']]) if 'cond' in outer else {}
    chan = f.s(f.unwrap(f.N[ocn['kids'][0]])) if ocn.get('k') == 'BinaryOperator' else None
    roles_f = {}
    if chan:
        roles_f[chan] = 'chan'
    if len(f.params) >= 4:
        roles_f[f.params[2]['n']] = 'count'
        roles_f[f.params[3]['n']] = 'indx'
        roles_f[f.params[1]['n']] = 'buffer'
    # where the scan lives: a second loop in f, or the loop of a static helper called from the channel loop
    g, hcall, inner = f, None, None
    inn = [n for n in f.walk(f.N[outer['body']]) if n['k'] in LOOPS]
    if inn:
        inner = inn[0]
    elif prog is not None:
        for c_ in f.calls(root=f.N[outer['body']]):
            for h in prog.fns.get(c_.get('callee') or '', []):
                hl = [n for n in h.walk() if n['k'] in LOOPS]
                if h.static and h.file == f.file and hl:
                    g, hcall, inner = h, c_, hl[0]
    Sf, _ = make_S(f, roles_f)
    facts['outer_cond'] = Sf(outer['cond']) if 'cond' in outer else None
    maxvar_f = posvar_f = None
    if inner is not None:
        roles_g = dict(roles_f) if g is f else {}
        outmap = {}
        if g is not f:
            for p_, a_ in zip(g.params, f.args(hcall)):
                au = f.unwrap(a_ if isinstance(a_, dict) else f.N[a_])
                if au.get('k') == 'UnaryOperator' and au.get('op') == '&':
                    outmap[p_['n']] = f.s(f.unwrap(f.N[au['kids'][0]]))      # out-parameter: *p in the helper is this variable of the caller
                else:
                    roles_g[p_['n']] = Sf(au)
        icn = g.unwrap(g.N[inner['cond']]) if 'cond' in inner else {}
        k = g.s(g.unwrap(g.N[icn['kids'][0]])) if icn.get('k') == 'BinaryOperator' else None
        if k:
            roles_g[k] = 'k'
        ifs = [n for n in g.walk(inner['body']) if n['k'] == 'IfStmt']
        maxvar_g = posvar_g = None
        if ifs:
            cn = g.unwrap(g.N[ifs[0]['cond']])
            if cn.get('k') == 'BinaryOperator':
                sides = [g.unwrap(g.N[x]) for x in cn['kids']]
                mv = [x for x in sides if x.get('k') == 'DeclRefExpr']
                if mv:
                    maxvar_g = mv[0]['n']
            for lv, n_, r_ in assigned_lvalues(g, ifs[0]['then']):
                if r_ is not None and g.s(g.unwrap(r_)) == k:
                    posvar_g = lv
        if maxvar_g:
            roles_g[maxvar_g] = 'fmaxval'
        if posvar_g:
            roles_g[posvar_g] = 'position'
        Sg, _ = make_S(g, roles_g)
        facts['inner_cond'] = Sg(inner['cond']) if 'cond' in inner else None
        body_root = g.N[outer['body']] if g is f else g.N[g.body]
        starts = [Sg(a) for lv, a, r in assigned_lvalues(g, body_root) if lv == k and a.get('op') == '=' and not g.within(a, g.N[inner['body']])]
        steps = [Sg(a) for lv, a, r in assigned_lvalues(g, inner) if lv == k and a.get('op') != '=']
        facts['inner_init'] = starts[0] if len(starts) == 1 else starts
        facts['inner_inc'] = steps[0] if len(steps) == 1 else steps
        facts['scan_cmp'] = g.N[ifs[0]['cond']].get('op') if ifs else None
        facts['scan_cmp_s'] = Sg(ifs[0]['cond']) if ifs else None
        if g is f:
            maxvar_f, posvar_f = maxvar_g, posvar_g
        else:
            # the helper hands the maximum back as its result and the position through an out-parameter (or the other way round)
            hr = [g.s(g.unwrap(g.N[r_['kids'][0]])) for r_ in g.cfg.returns() if r_.get('kids')]
            par = f.N[f.parent[hcall['id']]]
            while par['k'] in ('ImplicitCastExpr', 'ParenExpr', 'CStyleCastExpr'):
                par = f.N[f.parent[par['id']]]
            res_f = f.s(par['kids'][0]) if par['k'] == 'BinaryOperator' and par.get('op') == '=' else (par.get('n') if par['k'] == 'VarDecl' else None)
            outs = {}
            for lv, n_, r_ in assigned_lvalues(g):
                if lv.startswith('*') and r_ is not None:
                    outs[lv.lstrip('*(').rstrip(')')] = g.s(g.unwrap(r_))
            if hr and all(x == maxvar_g for x in hr):
                maxvar_f = res_f
            elif hr and all(x == posvar_g for x in hr):
                posvar_f = res_f
            for pn, val in outs.items():
                if val == maxvar_g and pn in outmap:
                    maxvar_f = outmap[pn]
                if val == posvar_g and pn in outmap:
                    posvar_f = outmap[pn]
    if maxvar_f:
        roles_f[maxvar_f] = 'fmaxval'
    if posvar_f:
        roles_f[posvar_f] = 'position'
    Sf, _ = make_S(f, roles_f)
    upd = [n for n in f.walk() if n['k'] == 'IfStmt' and 'peak_info->peaks' in Sf(n['cond'])]
    if upd:
        facts['update_cmp'] = f.N[upd[0]['cond']].get('op')
        facts['update_cmp_s'] = Sf(upd[0]['cond'])
        for lv, n, rhs in assigned_lvalues(f, upd[0]['then']):
            if Sf(lv).endswith('.position'):
                facts['position'] = Sf(rhs)
            if Sf(lv).endswith('.value'):
                facts['value'] = Sf(rhs)
    return facts


def peak_facts(ctx, prog):
    ctx.rule('PEAK-FACTS', 'both peak updaters: for (chan = 0 ; chan < channels ; chan++) / for (k = chan ; k < count ; k += channels); scan comparison strict `<`; stored-peak update strict `>`; '
             'position = write_current + indx + position / channels; value = the scanned maximum; siblings agree', floor=12)
    fu = {}
    for name, file in (('float32_peak_update', 'float32.c'), ('double64_peak_update', 'double64.c')):
        f = prog.fn(name, file)
        ft = updater_facts(f, prog)
        fu[name] = ft
        exp = {'outer_cond': '(chan < psf->sf.channels)', 'inner_init': '(k = chan)', 'inner_cond': '(k < count)', 'inner_inc': '(k += psf->sf.channels)',
               'scan_cmp': '<', 'update_cmp': '>', 'position': '((psf->write_current + indx) + (position / psf->sf.channels))', 'value': 'fmaxval'}
        for k, v in exp.items():
            ctx.ob('PEAK-FACTS', '%s:%s' % (name, k), ft.get(k) == v, f.loc(f.body), '%s = %s (required %s)' % (k, ft.get(k), v), None)
        # the running maximum is kept at the precision of the samples: a maximum rounded to float compares equal to (or beats) neighbours it does not
        # equal, and the recorded position then names a frame that does not hold the maximum (0c5fa1b)
        grp = [f] + [g for c_ in f.calls() for g in prog.fns.get(c_.get('callee') or '', []) if g.static and g.file == f.file]
        narrow = [(g, n) for g in grp for n in g.walk() if n.get('ck') == 'FloatingCast' and n.get('t') == 'float' and g.N[n['kids'][0]].get('t') == 'double'
                  and g.unwrap(g.N[n['kids'][0]]).get('fv') is None and g.unwrap(g.N[n['kids'][0]]).get('v') is None]
        elem = (f.params[1].get('t') or '') if len(f.params) > 1 else ''
        bad = narrow if 'double' in elem else []
        ctx.ob('PEAK-FACTS', '%s:acc-type' % name, not bad, bad[0][0].loc(bad[0][1]) if bad else f.loc(f.body),
               'the scan of `%s` keeps its maximum at sample precision' % elem if not bad else
               '`%s` is narrowed to float while scanning doubles: values that differ below float precision compare through the rounded maximum and the peak position can name the wrong frame' % bad[0][0].s(bad[0][0].N[bad[0][1]['kids'][0]])[:50], None)
    a, b = fu['float32_peak_update'], fu['double64_peak_update']
    same = all(a.get(k) == b.get(k) for k in ('outer_cond', 'inner_init', 'inner_cond', 'inner_inc', 'scan_cmp', 'update_cmp', 'position'))
    ctx.ob('PEAK-FACTS', 'siblings', same, 'src/float32.c', 'float32 and double64 updaters agree' if same else 'updaters DIFFER: %s vs %s' % (a, b), None)



def run(ctx):
    prog = ctx.prog
    eff = Effects(prog)
    peak_facts(ctx, prog)

    ctx.rule('PEAK-CALL', 'every call of a peak updater from a chunked write loop passes the chunk just converted, its length, and the chunk offset in frames `total / psf->sf.channels`; it dominates the '
             'byte swap and the psf_fwrite of that chunk; unchunked callers pass (ptr, len, 0)', floor=14)
    ctx.rule('PEAK-ALIGN', 'in every chunked caller the chunk length handed to the per-channel scan is a multiple of the channel count: an assignment rounds it (x -= x % channels, or x = n - n % channels, '
             'or (x / channels) * channels) before the loop', floor=10)
    import re as _re18
    slotted = {g_.name for fld_ in ('write_short', 'write_int', 'write_float', 'write_double') for g_ in prog.slot_fns(fld_)}

    def _align(g, lv, key, where):
        rounded = False
        for (x, n, rhs) in assigned_lvalues(g):
            if x != lv or rhs is None:
                continue
            r = g.s(rhs)
            if n['k'] == 'CompoundAssignOperator' and n['op'] == '-=' and r == '(%s %% psf->sf.channels)' % lv:
                rounded = True
            if '% psf->sf.channels)' in r and ' - ' in r:
                rounded = True
            if '/ psf->sf.channels) * psf->sf.channels)' in r:
                rounded = True
        ctx.ob('PEAK-ALIGN', key, rounded, where, 'chunk length `%s` %s' % (lv, 'is rounded to whole frames' if rounded else
               'is NOT a multiple of the channel count (e.g. 2048 items with 3 channels): the per-channel scan of the 2nd chunk starts mid-frame and attributes peaks to the wrong channel'), None)

    for f in prog.lib_fns():
        base = f.file.split('/')[-1]
        if base not in ('float32.c', 'double64.c'):
            continue
        for c in f.calls(('float32_peak_update', 'double64_peak_update')):
            args = [f.s(f.unwrap(a)) for a in f.args(c)]
            in_loop = any(a['k'] in ('WhileStmt', 'ForStmt', 'DoStmt') for a in f.ancestors(c))
            key = '%s@%d' % (f.name, len([x for x in f.calls(c['callee']) if x['id'] <= c['id']]))
            fw = list(f.calls('psf_fwrite'))
            sw = [x for x in f.calls() if (x.get('callee') or '').startswith('endswap_') or (x.get('callee') or '') in ('f2bf_array', 'd2bd_write')]
            if in_loop:
                ok = args[3] == '(total / psf->sf.channels)' and args[1].startswith('ubuf.')
                order = all(c['id'] < x['id'] or not _same_loop(f, c, x) for x in fw + sw)
                ctx.ob('PEAK-CALL', key, ok and order, f.loc(c), 'peak update on %s, length %s, frame offset %s; %s' % (args[1], args[2], args[3], 'before swap/write' if order else 'AFTER swap/write'), None)
                _align(f, args[2], key, f.loc(c))
            elif f.static and f.name not in slotted and fw:
                # the tail of the chunk loops (peak update, swap, write) was moved into a helper: the ordering is decided here, the arguments at every call of the helper
                # no swap / write of the chunk can come before the update (the update may sit under `if (psf->peak_info)`, so it need not dominate them)
                pc_ = f.cfg.point(c)
                order = pc_ is not None and all(f.cfg.point(x) is None or (f.cfg.point(x)[0] != pc_[0] and f.cfg.path_avoiding(f.cfg.point(x), {pc_[0]}, set()) is None)
                                                or (f.cfg.point(x)[0] == pc_[0] and f.cfg.point(x)[1] > pc_[1]) for x in fw + sw)
                sites = [(g, hc) for g in prog.lib_fns() if g.file == f.file for hc in g.calls(f.name)]
                ctx.require(sites, '%s holds a peak update but is never called' % f.name)
                for g, hc in sites:
                    sub = {}
                    for p_, a_ in zip(f.params, g.args(hc)):
                        au = g.unwrap(a_ if isinstance(a_, dict) else g.N[a_])
                        if au.get('k') == 'UnaryOperator' and au.get('op') == '&':
                            sub[p_['n'] + '->'] = g.s(g.unwrap(g.N[au['kids'][0]])) + '.'
                        else:
                            sub[p_['n']] = g.s(au)
                    def S_(t):
                        for k_, v_ in sub.items():
                            if k_.endswith('->'):
                                t = t.replace(k_, v_)
                            else:
                                t = _re18.sub(r'(?<![\w>.])%s(?![\w])' % _re18.escape(k_), v_.replace('\\', '\\\\'), t)
                        return t
                    a2 = [S_(x) for x in args]
                    gkey = '%s@%d' % (g.name, len([x for x in g.calls(f.name) if x['id'] <= hc['id']]))
                    gl = any(a['k'] in ('WhileStmt', 'ForStmt', 'DoStmt') for a in g.ancestors(hc))
                    ok = gl and a2[3] == '(total / psf->sf.channels)' and a2[1].startswith('ubuf.')
                    ctx.ob('PEAK-CALL', gkey, ok and order, g.loc(hc), 'peak update (in %s) on %s, length %s, frame offset %s; %s' % (f.name, a2[1], a2[2], a2[3], 'before swap/write' if order else 'AFTER swap/write'), None)
                    _align(g, a2[2], gkey, g.loc(hc))
            else:
                ok = args[3] == '0' and args[1] == f.params[1]['n'] and args[2] == f.params[2]['n']
                ctx.ob('PEAK-CALL', key, ok, f.loc(c), 'unchunked peak update on (%s, %s, %s)' % (args[1], args[2], args[3]), None)

    ctx.rule('CALC-RESTORE', 'psf_calc_signal_max / psf_calc_max_all_channels: the normalisation state is read with SFC_GET_NORM_DOUBLE and written back with SFC_SET_NORM_DOUBLE on every path after it was '
             'changed; the read position is read with sf_seek (0, SEEK_CUR | SFM_READ) and restored with sf_seek (position, SEEK_SET | SFM_READ) on every path after the rewind, no seek of the command touches the write pointer; every return before the first change is an early exit', floor=8)
    E = prog.enums
    for name in ('psf_calc_signal_max', 'psf_calc_max_all_channels'):
        f = prog.fn(name, 'command.c')
        cmds = [c for c in f.calls('sf_command')]
        def cmd(c):
            return f.unwrap(f.args(c)[1]).get('v')
        gets = [c for c in cmds if cmd(c) == E['SFC_GET_NORM_DOUBLE']]
        sets = [c for c in cmds if cmd(c) == E['SFC_SET_NORM_DOUBLE']]
        other = [c for c in cmds if cmd(c) not in (E['SFC_GET_NORM_DOUBLE'], E['SFC_SET_NORM_DOUBLE'])]
        okg = bool(gets) and all(f.cfg.dominates(gets[0], c_) for c_ in sets)
        ctx.ob('CALC-RESTORE', '%s:save-first' % name, okg, f.loc(gets[0]) if gets else f.loc(f.body), 'the normalisation setting is read (SFC_GET_NORM_DOUBLE) %s' % ('before any SFC_SET_NORM_DOUBLE of the function' if okg else 'AFTER the function has already changed it: what is restored at the end is the temporary value, not the caller\'s setting'), None)
        ctx.ob('CALC-RESTORE', '%s:commands' % name, bool(gets) and len(sets) >= 2 and not other, f.loc(f.body), 'state commands used: %d x GET_NORM_DOUBLE, %d x SET_NORM_DOUBLE, %d other (%s)' % (
            len(gets), len(sets), len(other), [cmd(c) for c in other]), None)
        savev = set()
        for (lv, n, rhs) in assigned_lvalues(f):
            if rhs is not None and f.unwrap(rhs).get('callee') == 'sf_command' and f.unwrap(f.args(f.unwrap(rhs))[1]).get('v') == E['SFC_GET_NORM_DOUBLE']:
                savev.add(lv)
        restores = [c for c in sets if f.s(f.unwrap(f.args(c)[3])) in savev]
        changes = [c for c in sets if c not in restores]
        ok = bool(restores) and bool(changes)
        w = None
        for c in changes:
            r, w = f.cfg.must_pass(c, restores)
            ok = ok and r
        ctx.ob('CALC-RESTORE', '%s:norm' % name, ok, f.loc(changes[0]) if changes else f.loc(f.body), 'normalisation flag %s' % ('restored on every path after it is changed' if ok else
               'NOT restored on a path to the exit: lines %s' % (f.cfg.block_lines(w) if w else '?')), None)
        seeks = list(f.calls('sf_seek'))
        SFM_READ = E.get('SFM_READ', 0x10)
        SAVE_W, BACK_W = 1 | SFM_READ, 0 | SFM_READ          # SEEK_CUR | SFM_READ , SEEK_SET | SFM_READ

        def wh(c):
            return f.unwrap(f.args(c)[2]).get('v')
        posv = set()
        for (lv, n, rhs) in assigned_lvalues(f):
            if rhs is not None and f.unwrap(rhs).get('callee') == 'sf_seek':
                a = f.args(f.unwrap(rhs))
                if f.unwrap(a[1]).get('v') == 0 and f.unwrap(a[2]).get('v') == SAVE_W:
                    posv.add(lv)
        back = [c for c in seeks if f.s(f.unwrap(f.args(c)[1])) in posv and wh(c) == BACK_W]
        away = [c for c in seeks if c not in back and not (f.unwrap(f.args(c)[1]).get('v') == 0 and wh(c) == SAVE_W)]
        ok = bool(back) and bool(posv) and bool(away)
        for c in away:
            r, w = f.cfg.must_pass(c, back)
            ok = ok and r
        ctx.ob('CALC-RESTORE', '%s:position' % name, ok, f.loc(away[0]) if away else f.loc(f.body), 'read position %s' % ('saved (SEEK_CUR | SFM_READ) and restored (SEEK_SET | SFM_READ) on every path after the rewind' if ok else 'NOT saved with SEEK_CUR | SFM_READ and restored with SEEK_SET | SFM_READ on every path'), None)
        plain = [c for c in seeks if wh(c) is None or not (wh(c) & SFM_READ) or (wh(c) & 0x20)]
        ctx.ob('CALC-RESTORE', '%s:read-pointer-only' % name, not plain, f.loc(plain[0]) if plain else f.loc(f.body),
               'every sf_seek of the command is qualified with SFM_READ' if not plain else 'sf_seek with an unqualified whence (%s): in SFM_RDWR mode it reads / moves the write pointer as well, the read position is not what is restored' % wh(plain[0]), None)
        # early exits: every return that is not dominated by the first change must be before it (trivially true) and every return dominated by a change is dominated by a restore
        first = changes[0] if changes else None
        bad = [r for r in f.cfg.returns() if first is not None and f.cfg.dominates(first, r) and not any(f.cfg.dominates(x, r) for x in restores)]
        ctx.ob('CALC-RESTORE', '%s:returns' % name, not bad, f.loc(f.body), 'no return between the state change and its restore' if not bad else 'return at %s leaves the handle changed' % [f.loc(r) for r in bad], None)

    ctx.rule('SCAN-ALL', 'the scan loops of psf_calc_signal_max / psf_calc_max_all_channels visit every item of every block they read (index 0 .. count - 1 with step 1, or a cursor from the start of the buffer with step 1 bounded by the count): '
             'a loop that starts at 1 never compares the first item of each block', floor=2)
    LOOPK = ('ForStmt', 'WhileStmt', 'DoStmt')
    for name in ('psf_calc_signal_max', 'psf_calc_max_all_channels'):
        f = prog.fn(name, 'command.c')
        # roles: the read that fills the block (result variable RC, buffer BUF), and the loops after it inside the same read loop that look at BUF
        rds = [(lv, n, f.unwrap(rhs)) for (lv, n, rhs) in assigned_lvalues(f) if rhs is not None and f.unwrap(rhs).get('callee') in ('sf_read_double', 'sf_readf_double')
               and any(a_['k'] in LOOPK for a_ in f.ancestors(n))]
        ctx.require(rds, '%s: no block read inside a loop found' % name)
        scans = []
        for (rc, rn, call) in rds:
            buf = f.s(f.unwrap(f.args(call)[1]))
            outer = [a_ for a_ in f.ancestors(rn) if a_['k'] in LOOPK][0]
            for lp in f.walk(f.N[outer['body']]):
                if lp['k'] not in LOOPK or lp['id'] == outer['id']:
                    continue
                if any(x['k'] == 'DeclRefExpr' and x.get('n') == buf for x in f.walk(lp)):
                    scans.append((lp, rc, buf))
        ctx.require(scans, '%s: no scan loop over the block that was read found' % name)
        for k_, (lp, rc, buf) in enumerate(scans):
            # every assignment that belongs to the loop header or body, by variable
            hdr = [x for part in ('init', 'inc') if part in lp for x in f.walk(f.N[lp[part]])]
            inits = {}
            if 'init' in lp:
                for x in f.walk(f.N[lp['init']]):
                    if x['k'] == 'BinaryOperator' and x.get('op') == '=':
                        inits[f.s(f.unwrap(f.N[x['kids'][0]]))] = f.s(f.unwrap(f.N[x['kids'][1]]))
                    if x['k'] == 'DeclStmt':
                        for d_ in x.get('decls', []):
                            if 'init' in d_ and d_['init'] >= 0:
                                inits[d_['n']] = f.s(f.unwrap(f.N[d_['init']]))
            steps = {}
            for x in f.walk(lp):
                if x['k'] == 'UnaryOperator' and x.get('op') in ('++', 'post++', '--', 'post--'):
                    steps.setdefault(f.s(f.unwrap(f.N[x['kids'][0]])), []).append(1 if '+' in x['op'] else -1)
                if x['k'] == 'CompoundAssignOperator' and x.get('op') in ('+=', '-=') and f.unwrap(f.N[x['kids'][1]]).get('v') is not None:
                    steps.setdefault(f.s(f.unwrap(f.N[x['kids'][0]])), []).append(f.unwrap(f.N[x['kids'][1]])['v'] * (1 if x['op'] == '+=' else -1))
            cn = f.unwrap(f.N[lp['cond']]) if 'cond' in lp else {}
            cl, cr, cop = (f.s(f.unwrap(f.N[cn['kids'][0]])), f.s(f.unwrap(f.N[cn['kids'][1]])), cn.get('op')) if cn.get('k') == 'BinaryOperator' else (None, None, None)
            # how the block is addressed in the body: BUF [i] or * cursor
            subs = {f.s(f.unwrap(f.N[x['kids'][1]])) for x in f.walk(f.N[lp['body']]) if x['k'] == 'ArraySubscriptExpr' and f.s(f.unwrap(f.N[x['kids'][0]])) == buf}
            curs = {f.s(f.unwrap(f.N[x['kids'][0]])) for x in f.walk(f.N[lp['body']]) if x['k'] == 'UnaryOperator' and x.get('op') == '*'}
            form = None
            for i_ in subs:
                if inits.get(i_) == '0' and steps.get(i_) == [1] and cl == i_ and cr == rc and cop == '<':
                    form = 'index %s = 0 ; %s < %s ; %s++' % (i_, i_, rc, i_)
            for p_ in curs:
                if inits.get(p_) == buf and steps.get(p_) == [1]:
                    if cl == p_ and cop in ('<', '!=') and cr.replace(' ', '') in ('(%s+%s)' % (buf, rc), '(%s+%s)' % (rc, buf)):
                        form = 'cursor %s = %s ; %s %s %s + %s ; %s++' % (p_, buf, p_, cop, buf, rc, p_)
                    for c_ in steps:
                        if c_ != p_ and inits.get(c_) == rc and steps.get(c_) == [-1] and cl == c_ and cr == '0' and cop in ('>', '!='):
                            form = 'cursor %s = %s with count-down %s = %s ; %s %s 0' % (p_, buf, c_, rc, c_, cop)
            ctx.ob('SCAN-ALL', '%s#%d' % (name, k_ + 1), form is not None, f.loc(lp), 'the scan visits items 0 .. %s - 1 of %s: %s' % (rc, buf, form) if form else
                   'the scan loop (init %s, cond %s, steps %s) is not one of the covering forms: it does not visit every item of the block that was read, a maximum at a skipped index is not found' % (
                       inits, f.s(cn)[:40] if cn else None, steps), None)

    ctx.rule('GET-MAX', 'psf_get_signal_max takes the maximum over k < channels of peaks [k].value; psf_get_max_all_channels copies peaks [k].value for k < channels; both refuse when there is no peak_info', floor=2)
    for name in ('psf_get_signal_max', 'psf_get_max_all_channels'):
        f = prog.fn(name, 'command.c')
        loops = [n for n in f.walk() if n['k'] == 'ForStmt' and 'cond' in n and f.s(n['cond']) == '(k < psf->sf.channels)']
        guard = any('peak_info == 0' in f.s(b['cond']) for b in f.cfg.blocks.values() if 'cond' in b)
        uses = any('peak_info->peaks[k].value' in f.s(n) for n in f.walk() if n['k'] == 'MemberExpr')
        ctx.ob('GET-MAX', name, bool(loops) and guard and uses, f.loc(f.body), 'loop over channels %s, NULL peak_info guard %s, reads peaks[k].value %s' % (bool(loops), guard, uses), None)


    from engine.run import borrow
    borrow(ctx, 'C16', ['OWN-OVERWRITE'], 'a PEAK record parsed from the file that is overwritten by a fresh, zeroed one loses the maxima of the earlier sessions')
    borrow(ctx, 'C09', ['WRAPPER'], 'the SFC_CALC_* commands see exactly what sf_read_double returns: the sibling contract of the read wrappers (clamp at the end of the data in items = frames x channels) is a necessary condition for scanning every stored sample')
    borrow(ctx, 'C05', ['COUNT-NARROW'], 'a peak scan that receives the length of a long write cut to int looks at a part of the block only (or at nothing): the recorded maximum is not the maximum')

    ctx.rule('SEEK-CAP', 'every function installed in the seek slot either has a successful exit for offsets other than 0, or (rewind-only: it ignores its offset, or all its successful returns are '
             'taken for offset == 0) its codec\'s init sets psf->sf.seekable = SF_FALSE: the SFC_CALC_* commands refuse a non-seekable handle, and on a handle that claims to be seekable their '
             'restoring sf_seek (position) must be able to succeed - otherwise the query leaves the read position at the end of the data', floor=10)
    from engine.seekcap import seek_cap
    n_sc = seek_cap(ctx, prog)
    ctx.require(n_sc >= 10, 'only %d seek hooks found' % n_sc)


def _same_loop(f, a, b):
    la = [x['id'] for x in f.ancestors(a) if x['k'] in ('WhileStmt', 'ForStmt')]
    lb = [x['id'] for x in f.ancestors(b) if x['k'] in ('WhileStmt', 'ForStmt')]
    return bool(la) and bool(lb) and la[0] == lb[0]
