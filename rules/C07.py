"""C07 — output bytes are independent of how writes are split and of when they run (structural clauses)."""
from engine.effects import Effects
from engine.util import assigned_lvalues

EXPLANATION = ('Decides: (WHEN-FULL) every block encoder reachable from a write_T slot emits (encodes + writes) a block only under a fullness test on its carried fill counter, copies caller samples into the '
               'block buffer at the carried fill offset, and never resets the fill counter in a write worker (only the encoder that consumed the block may) — so block boundaries are a function of the '
               'concatenated samples, not of call boundaries; encoders that transform whatever one call supplies are violations; (NONDET) the only calls to clock / random / environment sources in '
               'the library units are the frozen, documented ones (PEAK timestamp, MAT5 date string, unique id / temp file name seed); none is reachable from audio data paths. '
               'Byte identity of whole files and encoder state content are NOT decided.')
NOT_DECIDED = ['byte identity of files as such', 'predictor / bit-packer state carried correctly across calls (content)', 'PEAK position tracking across splits (see C18)']
ASSUMPTIONS = ['close hooks flush the partial block (C01 FLUSH)']

NONDET = {'time', 'gettimeofday', 'clock', 'clock_gettime', 'rand', 'random', 'srand', 'getpid', 'getenv', 'localtime', 'localtime_r', 'gmtime', 'gmtime_r', 'rand_r', 'drand48', 'getrandom', 'uuid_generate'}
ALLOWED = {
    ('aiff.c', 'aiff_rewrite_header', 'time'): 'PEAK chunk timestamp (documented)', ('aiff.c', 'aiff_write_header', 'time'): 'PEAK chunk timestamp (documented)',
    ('aiff.c', 'aiff_write_tailer', 'time'): 'PEAK chunk timestamp (documented)', ('wavlike.c', 'wavlike_write_peak_chunk', 'time'): 'PEAK chunk timestamp (documented)',
    ('caf.c', 'caf_write_header', 'time'): 'PEAK chunk timestamp (documented)', ('caf.c', 'caf_write_tailer', 'time'): 'PEAK chunk timestamp (documented)',
    ('common.c', 'psf_get_date_str', 'time'): 'date string the caller did not set', ('common.c', 'psf_get_date_str', 'gmtime_r'): 'date string the caller did not set',
    ('common.c', 'psf_get_date_str', 'gmtime'): 'date string the caller did not set',
    ('common.c', 'psf_rand_int32', 'gettimeofday'): 'seed of the unique id / temp-name generator (never serialised by the built containers)',
    ('common.c', 'psf_rand_int32', 'time'): 'seed of the unique id / temp-name generator',
    ('common.c', 'psf_open_tmpfile', 'getenv'): 'temp directory of the ALAC scratch file',
}
RAND_CALLERS = {'psf_open_file': 'unique_id (not written to any file by the built containers)', 'psf_open_tmpfile': 'scratch file name',
                'ogg_opus_setup_encoder': 'ogg serial (not built)', 'vorbis_write_header': 'ogg serial (not built)', 'ogg_opus_write_header': 'not built'}
DATE_CALLERS = {'mat5_write_header': 'MAT5 header text carries a creation date (documented exception: date strings the caller did not set)'}
COUNTERS = ('sample_curr', 'write_count', 'partial_block_frames', 'samplecount', 'pcm_count')


def run(ctx):
    prog = ctx.prog
    eff = Effects(prog)

    ctx.rule('NONDET', 'every call to a clock / random / environment function in the library units is one of the frozen documented sites; psf_rand_int32 and psf_get_date_str are called only from the frozen callers', floor=8)
    n = 0
    for f in prog.lib_fns():
        base = f.file.split('/')[-1]
        for c in f.calls(NONDET):
            n += 1
            k = (base, f.name, c['callee'])
            okn = k in ALLOWED
            whyn = ALLOWED.get(k)
            if not okn and c['callee'] == 'time':
                # the documented PEAK timestamp, wherever the code that writes the PEAK chunk lives: time () is an argument of a psf_binheader_writef call
                # in a function that also emits the PEAK marker
                par_ = [a_ for a_ in f.ancestors(c) if a_['k'] == 'CallExpr' and a_.get('callee') == 'psf_binheader_writef']
                import struct as _st
                marks_ = {_st.unpack(e_ + 'I', t_)[0] for t_ in (b'PEAK', b'peak') for e_ in ('<', '>')}
                peak_ = any(x.get('v') in marks_ for w_ in f.calls('psf_binheader_writef') for a_ in f.args(w_) for x in f.walk(a_ if isinstance(a_, dict) else f.N[a_]))
                if par_ and peak_:
                    okn, whyn = True, 'PEAK chunk timestamp (documented): argument of the writef call of a function that emits the PEAK marker'
            ctx.ob('NONDET', '%s:%s:%s' % k, okn, f.loc(c), '%s () in %s: %s' % (c['callee'], f.name, whyn or 'NOT a documented source of run-to-run variation: file bytes would depend on when / where the program runs'), None)
    for callee, table in (('psf_rand_int32', RAND_CALLERS), ('psf_get_date_str', DATE_CALLERS)):
        for g in sorted(prog.callers.get(callee, ())):
            ctx.ob('NONDET', '%s<-%s' % (callee, g), g in table, prog.fns[g][0].loc(prog.fns[g][0].body) if g in prog.fns else 'src/', '%s called from %s: %s' % (callee, g, table.get(g, 'NOT a frozen caller')), None)

    ctx.rule('WHEN-FULL', 'for every function reachable (without slot resolution) from a function in the write_short/int/float/double slots of a block codec: each call that emits encoded data (a callee that '
             'transitively reaches psf_fwrite / fwrite, other than psf_fwrite itself) is inside a branch whose condition tests a carried fill counter of the codec private struct; the counter is never '
             'assigned a constant in a write worker', floor=8)
    wslots = set()
    for fld in ('write_short', 'write_int', 'write_float', 'write_double'):
        wslots |= set(prog.slot(fld))
    GRANULAR = ('pcm.c', 'float32.c', 'double64.c', 'ulaw.c', 'alaw.c', 'xi.c', 'dither.c', 'interleave.c', 'flac.c', 'mpeg_l3_encode.c', 'ogg_vorbis.c', 'ogg_opus.c', 'ogg_pcm.c', 'ogg_speex.c')
    memo = {}

    def guarded_by_counter(g, c):
        for a in g.ancestors(c):
            if a['k'] in ('IfStmt',) and g.within(c, a['then']):
                if any(x['k'] == 'MemberExpr' and x.get('rec') not in ('sf_private_tag', None) for x in g.walk(a['cond'])):
                    return True
            if a['k'] in ('WhileStmt',) and 'cond' in a and g.within(c, a['body']):
                if any(x['k'] == 'MemberExpr' and x.get('rec') not in ('sf_private_tag', None) and any(t in x['n'] for t in COUNTERS) for x in g.walk(a['cond'])):
                    return True
        return False

    def uncond_emit(name, depth=0):
        """list of (function, call node) chains: emission points in `name` not guarded by a private-counter test"""
        if name in memo:
            return memo[name]
        memo[name] = []
        out = []
        for g in prog.fns.get(name, []):
            if not g.file.endswith('.c'):
                continue
            for c in g.calls():
                cal = c.get('callee')
                sl = prog.indirect_callee_slot(g, c)
                if cal in ('psf_fwrite', 'fwrite'):
                    if not guarded_by_counter(g, c):
                        out.append((g, c, cal))
                    continue
                names = [cal] if cal else (sorted(prog.slot(sl[1], sl[0])) if sl and sl[0] != 'sf_private_tag' else [])
                for nm in names:
                    if nm in prog.fns and depth < 5 and uncond_emit(nm, depth + 1):
                        if not guarded_by_counter(g, c):
                            out.append((g, c, nm))
                        break
        memo[name] = out
        return out

    seen = 0
    for w in sorted(wslots):
        wf = prog.fns.get(w, [None])[0]
        if wf is None or wf.file.split('/')[-1] in GRANULAR:
            continue
        seen += 1
        ue = uncond_emit(w)
        ctx.ob('WHEN-FULL', w, not ue, wf.loc(wf.body), 'encoded data is emitted only under a fullness test of a carried counter' if not ue else
               'emits encoded data on every call regardless of fill: %s — output bytes depend on how the caller split the samples' % ['%s -> %s at %s' % (g.name, nm, g.loc(c)) for (g, c, nm) in ue[:3]], None)
    for w in sorted(wslots):
        wf = prog.fns.get(w, [None])[0]
        if wf is None or wf.file.split('/')[-1] in GRANULAR:
            continue
        for name in sorted(prog.reachable_from([w], resolve_slots=False)):
            for g in prog.fns.get(name, []):
                if g.file != wf.file or not (name.endswith('_write_block') or name.endswith('_write') or name == w):
                    continue
                resets = [(lv, n_) for (lv, n_, rhs) in assigned_lvalues(g) if rhs is not None and g.unwrap(rhs).get('v') == 0 and any(lv.endswith('->' + t) for t in COUNTERS) and n_['k'] == 'BinaryOperator']
                if ('reset', name) in memo or list(g.calls(('psf_fwrite', 'fwrite'))):
                    continue      # the function that writes the block is the one entitled to reset the counter
                memo[('reset', name)] = True
                ctx.ob('WHEN-FULL', '%s:no-reset' % name, not resets, g.loc(resets[0][1]) if resets else g.loc(g.body), 'fill counter %s' % ('is never reset in the write worker' if not resets else
                       'is reset here (%s): samples carried from the previous call are dropped' % [r[0] for r in resets]), None)
    ctx.require(seen >= 30, 'only %d codec write slot functions found' % seen)

    # shared facts that are also split-independence conditions: PEAK tie handling (first occurrence wins across calls) and the SDS header writer
    # restoring the encoder counters around its temporary flush (a header update between two writes must not change later bytes)
    from rules.C18 import peak_facts
    from rules.C11 import block_restore
    peak_facts(ctx, prog)
    block_restore(ctx, prog)

    ctx.rule('UNINIT-SERIAL', 'every local array serialised by psf_binheader_writef (`b` field) or psf_fwrite is initialised over the serialised length on every path '
             '(memset / initialiser / string producer covering it): no stack residue reaches the file', floor=4)
    from engine.uninit import uninit_serial
    uninit_serial(ctx, prog)

    from engine.run import borrow
    borrow(ctx, 'C18', ['PEAK-CALL', 'PEAK-ALIGN'], 'the PEAK position written to the file must not depend on how the writes were split')

    ctx.rule('KERNEL-SIBS', 'the s / i / f / d variants of one conversion kernel (<code>2T_array, T2<code>_array) agree on everything that is not the sample type: carried locals '
             '(accumulators, values copied into or out of the codec state) have the same type, and the stores into the codec-private state are the same (field, expression) pairs', floor=20)
    from engine.kernelsibs import kernel_sibs
    ctx.require(kernel_sibs(ctx, prog) >= 20, 'too few kernel families found')
    borrow(ctx, 'C05', ['SIBLING-INDEX'], 'a typed write variant that addresses the block buffer differently (e.g. computes its offset once per call instead of once per chunk) makes the bytes depend on how the writes were split')
    borrow(ctx, 'C05', ['FRAME-ALIGN'], 'a writer whose staging chunk is not a whole number of frames stores different bytes for one long write than for the same samples in short writes')



    ctx.rule('ZERO-ALLOC', 'the allocator helpers whose blocks are later serialised into files (functions named *_alloc / *_calloc / *_dup / psf_memdup that return a pointer) hand out '
             'zero-initialised memory: they allocate with calloc (or allocate through another such helper and fill the block): no byte a header writer can emit is stale heap content of '
             'an earlier handle', floor=6)
    import re as _re9
    nza = 0
    for g in sorted(prog.lib_fns(), key=lambda g: (g.file, g.line)):
        if not (_re9.search(r'(_alloc|_calloc|_dup|memdup)$', g.name) and g.ret.rstrip().endswith('*')):
            continue
        al = [c for c in g.calls() if c.get('callee') in ('malloc', 'calloc', 'realloc')]
        via = [c for c in g.calls() if c.get('callee') and _re9.search(r'(_alloc|_calloc|memdup)$', c['callee'])]
        bad = [c for c in al if c['callee'] != 'calloc']
        nza += 1
        ctx.ob('ZERO-ALLOC', g.name, not bad and (bool(al) or bool(via)), g.loc(bad[0]) if bad else g.loc(g.body), '%s allocates with %s' % (g.name, sorted({c['callee'] for c in al + via}) or 'nothing recognisable') +
               ('' if not bad else ': the block is not zeroed — bytes the caller never sets (padding after a string terminator, unused table slots) reach the file with whatever the heap held before'), None)
    ctx.require(nza >= 6, 'only %d allocator helpers found' % nza)

    ctx.rule('WH-STATE', 'every store / increment through a pointer in a function installed in the write_header slot goes to the header cache, to a geometry field recomputed on every call '
             '(datalength, dataoffset, filelength, sf.frames, dataend, endian, bytewidth, error) or to a listed per-container header field (engine/whstate.py, one reason each): '
             'no other persistent state (peak edit count, codec predictor, string table) may depend on how many times the header was written', floor=18)
    from engine.whstate import wh_state
    n_wh_ = wh_state(ctx, prog)
    ctx.require(n_wh_ >= 18, 'only %d header writers found' % n_wh_)
