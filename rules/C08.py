"""C08 — read/write mode keeps independent, correct read and write positions."""
import json
from engine.seekrules import seek_table, oracle
from engine.wrappers import sheet, TYPES
from engine.peval import PEval
from engine.effects import Effects
from engine.util import assigned_lvalues

EXPLANATION = ('Decides: (SEEK-UPDATE) for every (whence, open mode, offset class) the feasible-path exploration of sf_seek writes exactly the pointers the documentation names — only read_current '
               'for an effective mode of SFM_READ, only write_current for SFM_WRITE, both for SFM_RDWR — and a zero-offset plain SEEK_CUR on a read/write handle really performs the seek; last_op is '
               'set; (RESEEK) every typed and raw read wrapper re-seeks to read_current when the previous operation was not a read, every write wrapper to write_current; the RDWR open path sets '
               'write_current = frames; (TRUNCATE) the SFC_FILE_TRUNCATE case checks mode and size, seeks to the new frame count, stores it in sf.frames and truncates at the byte position taken after '
               'the seek; (RDWR-CLOSE) WAV close truncates a stale tail only when the position is before the file length and rewrites the header afterwards. Operation-sequence semantics are NOT decided.')
NOT_DECIDED = ['data written at p is what a read at p returns', 'preservation of untouched content', 'all op-sequence histories']
ASSUMPTIONS = ['codec seek functions position the stream at the requested frame (C06)']


def run(ctx):
    prog = ctx.prog
    E = prog.enums
    eff = Effects(prog)
    from rules.C04 import tail_rules
    tail_rules(ctx, prog)      # TAIL-STALE / TAILER-DATAEND: stale chunks after the data in SFM_RDWR mode are not counted as audio
    f, rows = seek_table(prog)
    ctx.rule('SEEK-UPDATE', 'per (whence, open mode, offset class): pointers written by sf_seek on feasible paths equal the documented set; last_op assigned; no early return when both pointers must move', floor=40)
    for (wh, mode, off), got in sorted(rows.items()):
        exp = oracle(wh, mode, off)
        if 'writes' not in exp:
            continue
        key = '%s/%s/off%s' % (wh, mode, '0' if off == 0 else '!=0')
        ok = got['writes'] == sorted(exp['writes']) and bool(got['last_op']) and got['seek_called']
        ctx.ob('SEEK-UPDATE', key, ok, f.loc(f.body), 'expected pointer update %s; got %s (last_op %s, codec seek reached %s, returns %s)' % (
            exp['writes'], got['writes'], got['last_op'], got['seek_called'], got['rets']), None)

    ctx.rule('RESEEK', 'each of the 8 typed + 1 raw read wrappers contains `if (psf->last_op != SFM_READ) psf->seek (psf, SFM_READ, psf->read_current)` before the transfer, each of the 8 + 1 write '
             'wrappers the symmetric re-seek to write_current, and sets last_op afterwards; psf_open_file sets write_current = sf.frames for SFM_RDWR', floor=19)
    names = [('sf_read_%s' % t, 'R') for t in TYPES] + [('sf_readf_%s' % t, 'R') for t in TYPES] + [('sf_read_raw', 'R')] + \
            [('sf_write_%s' % t, 'W') for t in TYPES] + [('sf_writef_%s' % t, 'W') for t in TYPES] + [('sf_write_raw', 'W')]
    for name, kind in names:
        g = prog.fn(name, 'sndfile.c')
        flat = json.dumps(sheet(g, None))
        m, cur = ('SFM_READ', 'read_current') if kind == 'R' else ('SFM_WRITE', 'write_current')
        i1 = flat.find('(psf->last_op != %s)' % m)
        i2 = flat.find('psf->seek(psf, %s, psf->%s)' % (m, cur))
        i3 = max(flat.find('psf->read_'), flat.find('psf_fread(')) if kind == 'R' else max(flat.find('= psf->write_'), flat.find('psf_fwrite('))
        i4 = flat.rfind('(psf->last_op = %s)' % m)
        ok = 0 <= i1 < i2 and i2 < flat.find('(count = ') and i4 > i2
        ctx.ob('RESEEK', name, ok, g.loc(g.body), 're-seek to %s %s' % (cur, 'before the transfer, last_op set after it' if ok else 'MISSING / misplaced'), None)
    g = prog.fn('psf_open_file', 'sndfile.c')
    st = [(lv, n, g.s(rhs)) for (lv, n, rhs) in assigned_lvalues(g) if lv == 'psf->write_current' and rhs is not None]
    ok = any(r == 'psf->sf.frames' and any(a['k'] == 'IfStmt' and 'SFM_RDWR' in g.s(a['cond']) for a in g.ancestors(n)) for (lv, n, r) in st)
    ctx.ob('RESEEK', 'psf_open_file:rdwr-write_current', ok, g.loc(g.body), 'RDWR open %s' % ('starts writing at the end (write_current = sf.frames)' if ok else 'does not set write_current = sf.frames'), None)

    ctx.rule('TRUNCATE', 'SFC_FILE_TRUNCATE: feasible paths with mode WRITE/RDWR and datasize == sizeof (sf_count_t) call sf_seek to the requested frame, store it into sf.frames, take the byte position '
             '(psf_fseek (psf, 0, SEEK_CUR)) after the seek and pass it to psf_ftruncate; read-only handles are refused', floor=3)
    c = prog.fn('sf_command', 'sndfile.c')
    pe = PEval(prog, sticky=('file.mode',), effects=eff, max_depth=1)
    r = pe.explore(c, {'command': E['SFC_FILE_TRUNCATE'], 'psf->file.mode': E['SFM_RDWR'], 'datasize': 8, 'sndfile': 1, 'psf->virtual_io': 1})
    okc = {'sf_seek', 'psf_fseek', 'psf_ftruncate'} <= r.calls and any(x[1] == 'psf->sf.frames' and x[2] == 'position' for x in r.store_exprs)
    ctx.ob('TRUNCATE', 'rdwr', okc, c.loc(c.body), 'RDWR: calls %s, stores %s' % (sorted(x for x in r.calls if x in ('sf_seek', 'psf_fseek', 'psf_ftruncate')),
           sorted((x[1], x[2]) for x in r.store_exprs if x[1] == 'psf->sf.frames')), None)
    pe.memo.clear()
    r2 = pe.explore(c, {'command': E['SFC_FILE_TRUNCATE'], 'psf->file.mode': E['SFM_READ'], 'datasize': 8, 'sndfile': 1, 'psf->virtual_io': 1})
    ctx.ob('TRUNCATE', 'readonly-refused', 'psf_ftruncate' not in r2.calls, c.loc(c.body), 'read-only handle %s' % ('never reaches psf_ftruncate' if 'psf_ftruncate' not in r2.calls else 'can be truncated'), None)
    # the count that becomes sf.frames is not negative: a failed sf_seek returns -1, so `sf_seek (...) != position` does not refuse a request for -1 frames
    from engine.bounds import Bounds as _Bd8
    bd8 = _Bd8(prog, c, eff)
    from engine.arms import switch_arm_stmts as _sas8
    arm8 = [st_ for sw_ in c.walk() if sw_['k'] == 'SwitchStmt' for vals_, names_, dflt_, stmts_ in _sas8(c, sw_) if E['SFC_FILE_TRUNCATE'] in vals_ for st_ in stmts_]
    fr = [(a_, r_) for st_ in arm8 for lv_, a_, r_ in assigned_lvalues(c, st_) if lv_ == 'psf->sf.frames' and r_ is not None]
    ctx.require(fr, 'SFC_FILE_TRUNCATE no longer stores the new frame count')
    for a_, r_ in fr:
        b8 = bd8.ev_at(c.unwrap(r_), c.cfg.point(a_))
        ok8 = b8.lo is not None and b8.lo >= 0
        ctx.ob('TRUNCATE', 'non-negative', ok8, c.loc(a_), 'the new frame count `%s` is %s' % (c.s(c.unwrap(r_)), 'proved >= 0 where it is stored (%r)' % b8 if ok8 else
               'NOT proved >= 0 (%r): for -1 the failed sf_seek returns the requested value, the command goes on and truncates the file to its header' % b8), None)
    # order inside the case: ftruncate argument is the value of psf_fseek (psf, 0, SEEK_CUR) taken after sf_seek
    seeks = [x for x in c.calls('sf_seek') if any(a['k'] == 'CaseStmt' for a in c.ancestors(x))]
    tr = list(c.calls('psf_ftruncate'))
    pos = [n for (lv, n, rhs) in assigned_lvalues(c) if lv == 'position' and rhs is not None and c.unwrap(rhs).get('callee') == 'psf_fseek']
    oko = bool(tr) and bool(pos) and all(any(c.cfg.dominates(p_, t) for p_ in pos) for t in tr) and all(c.s(c.unwrap(c.args(t)[1])) == 'position' for t in tr) and \
        any(c.cfg.dominates(s_, p_) for s_ in c.calls('sf_seek') for p_ in pos)
    ctx.ob('TRUNCATE', 'order', oko, c.loc(tr[0]) if tr else c.loc(c.body), 'byte position %s' % ('taken after the frame seek and passed to psf_ftruncate' if oko else 'NOT taken after the seek / not the truncate argument'), None)

    # psf_ftruncate itself: a length of 0 is valid (RAW file truncated to nothing); only negative lengths are refused
    pf = [g for g in prog.lib_fns() if g.name == 'psf_ftruncate']
    ctx.require(pf, 'psf_ftruncate not found')
    from engine.bounds import Bounds
    for g in pf:
        sysc = [x for x in g.calls() if x.get('callee') in ('ftruncate', 'ftruncate64', '_chsize', '_chsize_s', 'SetEndOfFile')]
        ctx.require(sysc, 'psf_ftruncate: no truncating system call found')
        bd = Bounds(prog, g, eff)
        ln = [n for n in g.walk() if n['k'] == 'DeclRefExpr' and n['n'] == 'len']
        b = bd.ev_at(ln[0], g.cfg.point(sysc[0]))
        okz = b.lo is not None and b.lo == 0
        ctx.ob('TRUNCATE', 'psf_ftruncate:zero-allowed', okz, g.loc(sysc[0]), 'the system call is reached for every len >= 0 (lower bound of len there: %s)%s' % (b.lo, '' if okz else
               ': a valid length is refused — SFC_FILE_TRUNCATE to that length reports success to the position bookkeeping but leaves the file as it was'), repr(b))

    ctx.rule('RDWR-CLOSE', 'wav_close in RDWR mode: psf_ftruncate (psf, current) only under current < psf->filelength, and the header rewrite follows it', floor=1)
    w = prog.fn('wav_close', 'wav.c')
    tr = list(w.calls('psf_ftruncate'))
    ok = bool(tr)
    for t in tr:
        conds = [w.s(a['cond']) for a in w.ancestors(t) if a['k'] == 'IfStmt']
        hdr = [x for x in w.calls() if prog.indirect_callee_slot(w, x) and prog.indirect_callee_slot(w, x)[1] == 'write_header' or x.get('callee') == 'wav_write_header']
        ok = ok and '(current < psf->filelength)' in conds and any('SFM_RDWR' in c_ for c_ in conds) and hdr and all(not w.cfg.dominates(h, t) for h in hdr)
    ctx.ob('RDWR-CLOSE', 'wav_close', ok, w.loc(w.body), 'stale tail truncated only when shorter, header rewritten afterwards' if ok else 'RDWR close truncation guard / order changed', None)

    from engine.run import borrow
    borrow(ctx, 'C11', ['WH-RESTORE'], 'a header rewrite in SFM_RDWR mode must leave the file position where the next read / write expects it')
    borrow(ctx, 'C04', ['WH-CALC'], 'in SFM_RDWR mode the header update must take its lengths from the real file, not from the current position')
    borrow(ctx, 'C09', ['WRAPPER'], 'every typed write wrapper advances write_current by the frames written (sibling contract): a wrapper that does not leaves the write position behind the data in SFM_RDWR mode')

    ctx.rule('OPEN-NO-NEW-CHUNK', 'the container open functions add a default PEAK chunk (psf->peak_info = peak_info_calloc ...) only for a file that is being created (guarded by '
             'psf->file.mode == SFM_WRITE): an existing file opened SFM_RDWR has no room for a chunk its header did not have, its header could never be rewritten again', floor=3)
    from engine.util import assigned_lvalues as _al8
    n8 = 0
    for g in sorted(prog.lib_fns(), key=lambda g: (g.file, g.line)):
        if not g.name.endswith('_open'):
            continue
        for lv, a, r in _al8(g):
            if lv != 'psf->peak_info' or r is None or g.unwrap(r).get('callee') != 'peak_info_calloc':
                continue
            conds = [g.s(x['cond']) for x in g.ancestors(a) if x['k'] == 'IfStmt' and g.within(a, x['then'])]

            def conj8(n_):
                n_ = g.unwrap(n_)
                if n_.get('k') == 'BinaryOperator' and n_.get('op') == '&&':
                    return conj8(g.N[n_['kids'][0]]) + conj8(g.N[n_['kids'][1]])
                return [g.s(n_)]
            ok = any('(psf->file.mode == SFM_WRITE)' in conj8(g.N[x['cond']]) for x in g.ancestors(a) if x['k'] == 'IfStmt' and g.within(a, x['then']))
            n8 += 1
            ctx.ob('OPEN-NO-NEW-CHUNK', g.name, ok, g.loc(a), 'default PEAK record %s' % ('only when the file is created (SFM_WRITE)' if ok else
                   'also for an existing file opened SFM_RDWR (guards: %s): the header grows by a PEAK chunk there is no room for, every later header rewrite is refused and appended frames never appear in the header' % [c_[:70] for c_ in conds]), None)
    ctx.require(n8 >= 3, 'only %d default PEAK allocations found in open functions' % n8)

