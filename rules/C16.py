"""C16 — no leaked memory, descriptors or temporary files."""
from engine.own import Own, RELEASE
from engine.util import assigned_lvalues, null_edge_pruner
from engine.fixture import fixture_prog

EXPLANATION = ('Decides ownership clauses on every CFG path: (FREE-ALL) every SF_PRIVATE pointer field (incl. nested header/strings/chunk tables) that is ever '
               'assigned a fresh allocation anywhere in the program is released in psf_close; (HOOK-FREE) every pointer field of a codec/container private '
               'struct that receives an allocation or FILE* is released in a function reachable from the close hook slots; (NOSKIP) no release call in psf_close or in '
               'a close hook can be skipped on a path that takes all the branch edges the release is control dependent on (no early return between guard and release); '
               '(HOOK-ORDER) a close hook that releases nested resources is installed before any failing return that follows the private-data allocation; '
               '(LOCAL-LEAK) an allocation held by a local is freed, returned or stored on every path to exit; (OPEN-FAIL) every failing open path after psf_allocate '
               'passes psf_close; (TMP-PAIR) temp files are fclosed and removed. History-dependent leaks through repeated commands are decided only for the replace pattern.')
NOT_DECIDED = ['leaks that depend on call histories across API calls beyond the replace-pair rule', 'descriptor table contents at run time']
ASSUMPTIONS = ['free (NULL) is a no-op (ISO C)', 'ownership transfer = store into a struct field / out-parameter / return']

# nested owners that are function-local aggregates, released in the same function (confirmed by reading)
LOCAL_AGGREGATES = {('SD2_RSRC', 'rsrc_data'): 'local SD2_RSRC in sd2_parse_rsrc_fork, freed there when need_to_free_rsrc_data',
                    ('SF_CHUNK_INFO', 'data'): 'local SF_CHUNK_INFO in alac.c, freed in the same function'}
PSF_NESTED = {'sf_private_tag', 'READ_CHUNKS', 'WRITE_CHUNKS', 'WRITE_CHUNK'}


def noskip(ctx, prog, own, fns, rule='NOSKIP'):
    for f in fns:
        for c, key, s in own.releases_in(f):
            w = own.release_skippable(f, c)
            ctx.ob(rule, '%s:%s(%s)' % (f.name, c['callee'], s), w is None, f.loc(c),
                   '%s (%s) %s' % (c['callee'], s, 'cannot be skipped once its guards hold' if w is None else
                                   'can be SKIPPED on a path that satisfies all its guards: lines %s' % f.cfg.block_lines(w)), None)


def local_leak(ctx, prog, own, fns, rule='LOCAL-LEAK'):
    n = 0
    for f in fns:
        leaks = own.local_leaks(f)
        holders = 0
        for c in f.calls():
            if c.get('callee') in own.retalloc and c.get('callee') != 'realloc':
                holders += 1
        bad = {(call['id']) for call, var, w in leaks}
        for c in f.calls():
            if c.get('callee') in own.retalloc and c.get('callee') != 'realloc':
                n += 1
                lk = [(call, var, w) for call, var, w in leaks if call['id'] == c['id']]
                ctx.ob(rule, '%s:%s@%d' % (f.name, c['callee'], len([x for x in f.calls(c['callee']) if x['id'] <= c['id']])), not lk, f.loc(c),
                       'result of %s %s' % (c['callee'], 'is released, returned or stored on every path' if not lk else
                                            'held by local `%s` can reach the function exit unreleased: lines %s' % (lk[0][1], f.cfg.block_lines(lk[0][2]))), None)
    return n


def open_fail(ctx, prog):
    psf_close = prog.fn('psf_close', 'sndfile.c')
    # ------------------------------------------------------------------ OPEN-FAIL
    ctx.rule('OPEN-FAIL', 'in sf_open, sf_open_fd, sf_open_virtual: after psf_allocate succeeded every path to a return passes psf_close (psf) or returns psf_open_file (...); '
             'in psf_open_file every path that returns NULL passes psf_close (psf) and stores a non-zero value into sf_errno; sf_close returns psf_close (psf)', floor=5)
    for name in ('sf_open', 'sf_open_fd', 'sf_open_virtual'):
        f = prog.fn(name, 'sndfile.c')
        allocs = [c for c in f.calls('psf_allocate')]
        ctx.require(allocs, '%s does not call psf_allocate' % name)
        through = [c for c in f.calls(('psf_close', 'psf_open_file'))]
        ok, w = f.cfg.must_pass(allocs[0], through, edge_ok=null_edge_pruner(f, {'psf'}))
        ctx.ob('OPEN-FAIL', name, ok, f.loc(allocs[0]), 'after psf_allocate %s' % ('every path passes psf_close or psf_open_file' if ok else
               'a path reaches return without psf_close / psf_open_file: lines %s' % f.cfg.block_lines(w)), None)
    f = prog.fn('psf_open_file', 'sndfile.c')
    closes = list(f.calls('psf_close'))
    nullrets = [r for r in f.cfg.returns() if r['kids'] and f.unwrap(f.N[r['kids'][0]]).get('v') == 0]
    ctx.require(nullrets, 'psf_open_file has no NULL return')
    for r in nullrets:
        # every path entry -> this return passes psf_close: search path from entry to the return's block avoiding psf_close points
        rp = f.cfg.point(r)
        avoid = {f.cfg.point(c) for c in closes}
        same = [a for a in avoid if a[0] == rp[0] and a[1] < rp[1]]
        w = None if same else f.cfg.path_avoiding((f.cfg.entry, -1), {rp[0]}, avoid)
        ctx.ob('OPEN-FAIL', 'psf_open_file:return-NULL@%s' % len([x for x in nullrets if x['id'] <= r['id']]), w is None, f.loc(r),
               'NULL return %s' % ('always preceded by psf_close (psf)' if w is None else 'reachable WITHOUT psf_close: lines %s' % f.cfg.block_lines(w)), None)
        errs = [n for (lv, n, rhs) in assigned_lvalues(f) if lv == 'sf_errno' and rhs is not None and f.unwrap(rhs).get('v') != 0]
        avoid2 = {f.cfg.point(n) for n in errs}
        same2 = [a for a in avoid2 if a[0] == rp[0] and a[1] < rp[1]]
        w2 = None if same2 else f.cfg.path_avoiding((f.cfg.entry, -1), {rp[0]}, avoid2)
        ctx.ob('OPEN-FAIL', 'psf_open_file:sf_errno@%s' % len([x for x in nullrets if x['id'] <= r['id']]), w2 is None, f.loc(r),
               'NULL return %s' % ('always preceded by a store of the error into sf_errno' if w2 is None else 'reachable without setting sf_errno: lines %s' % f.cfg.block_lines(w2)), None)
    f = prog.fn('sf_close', 'sndfile.c')
    rets = [f.unwrap(f.N[r['kids'][0]]) for r in f.cfg.returns() if r['kids']]
    okc = any(r['k'] == 'CallExpr' and r.get('callee') == 'psf_close' for r in rets)
    ctx.ob('OPEN-FAIL', 'sf_close:returns-psf_close', okc, f.loc(f.body), 'sf_close %s' % ('returns psf_close (psf)' if okc else 'does not return the result of psf_close'), None)
    # psf_close returns the result of psf_fclose
    rets = [psf_close.s(psf_close.unwrap(psf_close.N[r['kids'][0]])) for r in psf_close.cfg.returns() if r['kids']]
    fc = [(lv, n) for (lv, n, rhs) in assigned_lvalues(psf_close) if rhs is not None and psf_close.unwrap(rhs).get('callee') == 'psf_fclose']
    ctx.ob('OPEN-FAIL', 'psf_close:calls-psf_fclose-once', len(list(psf_close.calls('psf_fclose'))) == 1 and len(list(psf_close.calls('psf_close_rsrc'))) == 1, psf_close.loc(psf_close.body),
           'psf_close calls psf_fclose %d time(s), psf_close_rsrc %d time(s); returns %s' % (len(list(psf_close.calls('psf_fclose'))), len(list(psf_close.calls('psf_close_rsrc'))), rets), None)



def run(ctx):
    prog = ctx.prog
    own = Own(prog)
    psf_close = prog.fn('psf_close', 'sndfile.c')

    # ------------------------------------------------------------------ FREE-ALL
    ctx.rule('FREE-ALL', 'set of SF_PRIVATE-owned pointer fields assigned a fresh allocation anywhere (allocator closure: malloc/calloc/realloc/strdup/psf_memdup and every '
             'function returning such a value) is a subset of the fields released by free () in psf_close', floor=15)
    freed = {}
    for c, key, s in own.releases_in(psf_close):
        if key:
            freed[key] = c
    psf_rec_fields = set()
    for (rec, fld), sites in own.owned_fields.items():
        # fields that live inside SF_PRIVATE: its own record, or records embedded in it
        emb = rec == 'sf_private_tag' or rec in ('READ_CHUNKS', 'WRITE_CHUNKS', 'WRITE_CHUNK') or any(
            fl.get('rec') == rec for fl in prog.record('sf_private_tag')['fields'])
        if not emb:
            continue
        psf_rec_fields.add((rec, fld))
        ok = (rec, fld) in freed
        f0, n0, src = sites[0]
        ctx.ob('FREE-ALL', '%s.%s' % (rec, fld), ok, f0.loc(n0), 'field %s.%s (allocated e.g. in %s via %s, %d site(s)) %s' % (
            rec, fld, f0.name, src, len(sites), 'is freed in psf_close' if ok else 'is NOT freed in psf_close'), [s[0].name for s in sites][:5])
    ctx.require(len(psf_rec_fields) >= 15, 'only %d owned SF_PRIVATE fields found' % len(psf_rec_fields))

    # ------------------------------------------------------------------ HOOK-FREE
    ctx.rule('HOOK-FREE', 'every pointer field of a codec/container private struct that receives an allocation / FILE* / codec state is released in a function reachable '
             'from the codec_close / container_close slots (function-local aggregates: released in the allocating function)', floor=5)
    hooks = sorted(set(prog.slot('codec_close')) | set(prog.slot('container_close')))
    reach = prog.reachable_from(hooks)
    rel_by_field = {}
    for name in reach:
        for f in prog.fns.get(name, []):
            for c, key, s in own.releases_in(f):
                if key:
                    rel_by_field.setdefault(key, []).append((f, c))
    hook_fields = []
    for (rec, fld), sites in sorted(own.owned_fields.items()):
        if (rec, fld) in psf_rec_fields:
            continue
        f0, n0, src = sites[0]
        if (rec, fld) in LOCAL_AGGREGATES:
            rel = [c for f, n, s2 in sites for c, key, s in own.releases_in(f) if key == (rec, fld)]
            ok = bool(rel)
            ctx.ob('HOOK-FREE', '%s.%s' % (rec, fld), ok, f0.loc(n0), 'local aggregate field %s.%s: %s (%s)' % (rec, fld, 'released in the allocating function' if ok else 'NO release in the allocating function', LOCAL_AGGREGATES[(rec, fld)]), None)
            continue
        hook_fields.append((rec, fld))
        rl = rel_by_field.get((rec, fld), [])
        ctx.ob('HOOK-FREE', '%s.%s' % (rec, fld), bool(rl), f0.loc(n0), 'field %s.%s (allocated in %s via %s) %s' % (
            rec, fld, f0.name, src, 'released in %s' % sorted({f.name for f, c in rl}) if rl else 'is NOT released by any function reachable from the close hooks'), None)

    # ------------------------------------------------------------------ NOSKIP
    ctx.rule('NOSKIP', 'for every release call R (free/fclose/remove/gsm_destroy/close) in psf_close and in every function in the codec_close/container_close slots: no path from '
             'entry to exit takes all branch edges R is (transitively) control dependent on and still avoids R', floor=25)
    nfns = [psf_close] + [f for h in hooks for f in prog.fns.get(h, [])]
    noskip(ctx, prog, own, nfns)
    fp = fixture_prog('c16_leak.c')
    fctx = type(ctx)(ctx.pid, ctx.tier, fp)
    fctx.rule('NOSKIP', '')
    noskip(fctx, fp, Own(fp), [fp.fn('skip_release'), fp.fn('no_skip')])
    got = sorted(f['key'] for f in fctx.findings)
    ctx.fixture('NOSKIP', got == ['NOSKIP:skip_release:fclose(pv->tmp)', 'NOSKIP:skip_release:free(pv->buf)'], 'fixtures/c16_leak.c skip_release must fire, no_skip must not: %s' % got)

    # ------------------------------------------------------------------ HOOK-ORDER
    ctx.rule('HOOK-ORDER', 'in every function that installs a close hook H which (transitively) releases nested resources, the installation `psf->..._close = H` dominates every '
             'return of a possibly non-zero value that is reachable after an acquisition of such a resource (direct store or call to an acquiring function) with the resource non-NULL; '
             'exempt: functions all of whose callers already installed H; returns in the default arm of a switch over the format word (defensive, cannot happen)', floor=3)
    nested_of = {}      # hook -> set of (rec, field) it (transitively) releases, excluding SF_PRIVATE-owned fields
    for h in hooks:
        for name in prog.reachable_from([h]):
            for f in prog.fns.get(name, []):
                for c, key, s in own.releases_in(f):
                    if key and key in own.owned_fields and key not in psf_rec_fields and key not in LOCAL_AGGREGATES:
                        nested_of.setdefault(h, set()).add(key)
    # functions that (transitively) acquire a nested field
    acquirers = {}
    for key, sites in own.owned_fields.items():
        for (f, n, src) in sites:
            acquirers.setdefault(key, set()).add(f.name)

    def in_format_default(f, r):
        """is return r inside the default arm of a switch over the format word (defensive, gated by sf_format_check / parser)?"""
        prev = r
        for a in f.ancestors(r):
            if a['k'] == 'DefaultStmt':
                # find enclosing switch
                for b in f.ancestors(a):
                    if b['k'] == 'SwitchStmt':
                        return 'format' in f.s(b['cond'])
            if a['k'] in ('CaseStmt',):
                return False
        return False

    for slotname in ('codec_close', 'container_close'):
        for tgt, sites in sorted(prog.slots.get(('sf_private_tag', slotname), {}).items()):
            if tgt not in nested_of:
                continue
            for (f, an) in sites:
                # exempt when every caller installs the same hook before calling f
                callers = [(g, c) for g in prog.all_fns() for c in g.calls(f.name)]
                if callers and all(any(g.cfg.dominates(n2, c) for (g2, n2) in sites if g2 is g) for (g, c) in callers):
                    ctx.ob('HOOK-ORDER', '%s:%s=%s' % (f.name, slotname, tgt), True, f.loc(an), 'hook %s already installed by every caller before %s runs' % (tgt, f.name), None)
                    continue
                acq_points = []
                for key in nested_of[tgt]:
                    for (lv, n, rhs) in assigned_lvalues(f):
                        l = f.unwrap(f.N[n['kids'][0]])
                        if l['k'] == 'MemberExpr' and (l.get('rec'), l['n']) == key and rhs is not None and f.unwrap(rhs).get('v') != 0:
                            acq_points.append((n, f.s(l)))
                    for c in f.calls():
                        cal = c.get('callee')
                        if cal and cal in prog.fns and (prog.reachable_from([cal]) & acquirers.get(key, set())):
                            acq_points.append((c, None))
                bad = []
                for (ap, lvname) in acq_points:
                    sp = f.cfg.point(ap)
                    for r in f.cfg.returns():
                        if not r['kids'] or f.unwrap(f.N[r['kids'][0]]).get('v') == 0 or in_format_default(f, r):
                            continue
                        rp = f.cfg.point(r)
                        if sp is None or rp is None:
                            continue
                        eo = null_edge_pruner(f, {lvname}) if lvname else None
                        reach = (sp[0] == rp[0] and sp[1] < rp[1]) or f.cfg.path_avoiding(sp, {rp[0]}, set(), edge_ok=eo) is not None
                        if reach and not f.cfg.dominates(an, r):
                            bad.append(r)
                bad = list({r['id']: r for r in bad}.values())
                ctx.ob('HOOK-ORDER', '%s:%s=%s' % (f.name, slotname, tgt), not bad, f.loc(an),
                       'hook %s (releases %s) %s' % (tgt, sorted('%s.%s' % k for k in nested_of[tgt]), 'installed before every failing return that follows an acquisition' if not bad else
                                                   'is installed AFTER failing return(s) at %s that follow an acquisition: psf_close would not run %s there' % ([f.loc(r) for r in bad[:4]], tgt)), None)

    # ------------------------------------------------------------------ LOCAL-LEAK
    ctx.rule('LOCAL-LEAK', 'for every call to an allocator (closure of malloc/calloc/strdup/psf_memdup/fopen/gsm_create... under "returns a fresh allocation") whose result is held by a '
             'local variable: every path from the allocation to a function exit on which the pointer is non-NULL frees it, returns it, stores it into a field/out-parameter, or passes it '
             'to a function that does', floor=60)
    local_leak(ctx, prog, own, list(prog.lib_fns()))
    fctx = type(ctx)(ctx.pid, ctx.tier, fp)
    fctx.rule('LOCAL-LEAK', '')
    local_leak(fctx, fp, Own(fp), [fp.fn('leaky'), fp.fn('not_leaky')])
    got = sorted(f['key'] for f in fctx.findings)
    ctx.fixture('LOCAL-LEAK', got == ['LOCAL-LEAK:leaky:malloc@1'], 'fixtures/c16_leak.c leaky must fire, not_leaky must not: %s' % got)

    open_fail(ctx, prog)
    psf_close = prog.fn('psf_close', 'sndfile.c')

    # ------------------------------------------------------------------ TMP-PAIR
    ctx.rule('FD-REOPEN', 'file_io.c: a descriptor field that receives the result of psf_open_fd more than once in one function (the resource-fork probes) is never overwritten while it holds an open '
             'descriptor: every path from one such store to the next passes psf_close_fd on that field, leaves the function, or is the path on which the first open failed (the false edge of '
             '`(fd = psf_open_fd (...)) >= 0`)', floor=2)
    n_fr = 0
    for g in sorted([x for x in prog.lib_fns() if x.file.endswith('/file_io.c')], key=lambda x: x.line):
        opens = [(lv, a) for lv, a, r in assigned_lvalues(g) if r is not None and g.unwrap(r).get('callee') == 'psf_open_fd' and g.cfg.point(a) is not None]
        by = {}
        for lv, a in opens:
            by.setdefault(lv, []).append(a)
        for lv, sts in by.items():
            sts = sorted(sts, key=lambda a: (a.get('l'), a.get('c')))
            for s1, s2 in zip(sts, sts[1:]):
                n_fr += 1
                closes = {g.cfg.point(c) for c in g.calls('psf_close_fd') if lv in g.s(g.args(c)[0]) and g.cfg.point(c) is not None}
                p1, p2 = g.cfg.point(s1), g.cfg.point(s2)

                def fail_edge(b, si, _s1=s1):
                    blk = g.cfg.blocks[b]
                    if 'cond' not in blk or len(blk['succs']) != 2:
                        return False
                    cn = g.N[blk['cond']] if isinstance(blk['cond'], int) else blk['cond']
                    cu = g.unwrap(cn)
                    if cu.get('op') in ('&&', '||') and blk['elems']:
                        e_ = blk['elems'][-1]
                        cu = g.unwrap(g.N[e_] if isinstance(e_, int) else e_)
                    if cu.get('k') == 'BinaryOperator' and cu.get('op') in ('>=', '>') and g.within(_s1, cu):
                        return si == 1
                    if cu.get('k') == 'BinaryOperator' and cu.get('op') == '<' and g.within(_s1, cu):
                        return si == 0
                    return False
                w = g.cfg.path_avoiding(p1, {p2[0]}, closes, start_inclusive=False, edge_ok=lambda b, si: not fail_edge(b, si))
                ctx.ob('FD-REOPEN', '%s:%s@%s' % (g.name, lv, s2.get('l')), w is None, g.loc(s2), 'the store at line %s is reached from the open at line %s only after psf_close_fd or a failed open' % (s2.get('l'), s1.get('l')) if w is None else
                       '%s is overwritten by a new psf_open_fd (line %s) on a path on which the descriptor opened at line %s is still open (lines %s): that descriptor is leaked' % (lv, s2.get('l'), s1.get('l'), g.cfg.block_lines(w)[-5:]), None)
    ctx.require(n_fr >= 2, 'only %d repeated descriptor stores found in file_io.c' % n_fr)

    ctx.rule('TMP-PAIR', 'every FILE* field obtained from psf_open_tmpfile is fclosed, and the recorded temp name removed, in the same guarded region of a close hook', floor=1)
    for (rec, fld), sites in own.owned_fields.items():
        if not any(src == 'psf_open_tmpfile' for f, n, src in sites):
            continue
        rl = rel_by_field.get((rec, fld), [])
        okp = False
        for f, c in rl:
            if c['callee'] == 'fclose':
                rm = [x for x in f.calls('remove')]
                if rm and any(own.control_edges(f, f.cfg.point(x)[0]) == own.control_edges(f, f.cfg.point(c)[0]) for x in rm):
                    okp = True
        ctx.ob('TMP-PAIR', '%s.%s' % (rec, fld), okp, sites[0][0].loc(sites[0][1]), 'temp file %s.%s %s' % (rec, fld, 'is fclosed and removed under the same guards' if okp else 'is NOT both fclosed and removed'), None)

    ctx.rule('FD-VALID', 'every test of a descriptor value against a constant is `< 0`, `>= 0` or an (in)equality with a negative code: descriptor 0 is valid and must be closed like any other', floor=6)
    from engine.fdvalid import fd_valid
    fd_valid(ctx, prog)
    from engine.fixture import generic_fixture
    generic_fixture(ctx, [('FD-VALID', lambda c_, p_: fd_valid(c_, p_, minimum=0), 'bad_fd')])

    ctx.rule('OWN-OVERWRITE', 'an owned pointer field (released only at close) is never overwritten by a fresh allocation while it may hold one: every path to the store frees the old value, '
             'assigns NULL, passes a guard that implies NULL, or starts at the entry of a function that runs once per handle; realloc-in-place exempt', floor=30)
    from engine.overwrite import own_overwrite
    from engine.effects import Effects as _Eff
    own_overwrite(ctx, prog, own, _Eff(prog))

    from engine.fdvalid import state_pair
    state_pair(ctx, prog)

    ctx.rule('RELEASE-UNCOND', 'in psf_close no release (free, psf_fclose, close hook call) is control dependent on an error value: what a hook or an earlier step returned must not decide whether '
             'the descriptor is closed and the memory freed', floor=20)
    pc = prog.fn('psf_close', 'sndfile.c')
    nru = 0
    for c in pc.calls():
        cal = c.get('callee')
        if cal not in ('free', 'psf_fclose', 'psf_close_rsrc') and cal:
            continue
        conds = [pc.s(a['cond']) for a in pc.ancestors(c) if a['k'] == 'IfStmt']
        bad = [x for x in conds if 'error' in x]
        nru += 1
        ctx.ob('RELEASE-UNCOND', '%s#%d' % (cal or 'hook', nru), not bad, pc.loc(c), 'release `%s` %s' % (pc.s(c)[:50], 'depends only on the resource itself' if not bad else
               'is skipped when `%s` is false: a non-zero hook result leaves the descriptor open / the memory allocated while sf_close frees the handle' % bad[0][:60]), None)
    ctx.require(nru >= 20, 'only %d releases found in psf_close' % nru)

    from engine.run import borrow
    borrow(ctx, 'C15', ['FAIL-NOWRITE'], 'a failing write-mode open must still run the write-side clean-up of the codec it has set up (temporary file, stream) before it leaves')
