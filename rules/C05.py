"""C05 — read and write calls honour their count, bounds and position contract."""
from engine.effects import Effects
from engine.staging import check_staging
from engine.bufacc import check_buffer
from engine.bounds import B

EXPLANATION = ('Decides: (WRAPPER) the 16 typed and 2 raw public read/write wrappers agree family-wise on guards, error codes, zero-fill sizes, clamp to the frame count, position and '
               'frame-count updates, and contain every required fact of the documented contract; (STAGING) every conversion loop that stages samples through the 8 KiB BUF_UNION '
               '(pcm, float32, double64, ulaw, alaw, xi/dpcm: 121 loops) transfers at most the buffer capacity and at most the remaining request, keeps the transfer result, adds it to the '
               'running total on every path to the exit, leaves on a short transfer, converts only what was read into the caller buffer, and returns the total; (BLOCK-CLAMP) in every '
               'block codec worker each access to the caller buffer (subscript, memcpy, memset) lies inside the `len` items requested, proven by the interval / upper-bound analysis with '
               'the element size as unit. That the items stored are the *next* items of the stream, and codec internals, are NOT decided.')
NOT_DECIDED = ['content of the delivered items', 'short counts only at end of data', 'codec block internals']
ASSUMPTIONS = ['psf_fread / psf_fwrite transfer at most the requested number of items into / from the given buffer (C15 IO-RETURN)', '1 <= channels <= 1024 for an open handle']


def run(ctx):
    prog = ctx.prog
    eff = Effects(prog)
    from rules.C09 import wrapper_rule
    ctx.rule('WRAPPER', 'within each family (read items, read frames, write items, write frames) the four typed wrappers have identical normalised fact sheets; each family reference and the two raw '
             'variants contain every required guard (in order) and update of the documented contract', floor=16)
    wrapper_rule(ctx, prog)

    ctx.rule('STAGING', 'every (psf, T *ptr, sf_count_t len) function that moves samples between the caller buffer and psf_fread / psf_fwrite through a local BUF_UNION: count x element size fits the '
             'union; count <= remaining request; transfer result kept, added to the running total on every path from the transfer to the exit, short transfer leaves the loop, converter to the '
             'caller buffer consumes the transfer result (reads), remaining request shrinks, running total returned', floor=110)
    check_staging(ctx, prog, eff)

    ctx.rule('BLOCK-CLAMP', 'in every library function outside pcm.c with parameters (..., T *ptr, ... len): each access through ptr (subscript, memcpy, memset, pointer passed on with len) is inside '
             '[0, len) items: A-PENT proves offset + count <= len with the element size as unit', floor=60)
    counts = {}

    def report(rule, ok, fn, node, msg):
        k = (rule, fn.name, fn.s(node)[:60])
        counts[k] = counts.get(k, 0) + 1
        ctx.ob(rule, '%s:%s#%d' % (fn.name, fn.s(node)[:60], counts[k]), ok, fn.loc(node), msg, None)

    n = 0
    for f in prog.lib_fns():
        if f.file.split('/')[-1] in ('pcm.c', 'sndfile.c', 'float32.c', 'double64.c', 'ulaw.c', 'alaw.c', 'xi.c', 'dither.c', 'file_io.c'):
            continue
        pp = [q for q in f.params if q['t'].rstrip().endswith('*') and q['n'] == 'ptr' and 'void' not in q['t']]
        ln = [q for q in f.params if q['n'] == 'len']
        if not pp or not ln:
            continue
        esz = {'short': 2, 'int': 4, 'float': 4, 'double': 8}.get(pp[0]['t'].replace('const ', '').replace('*', '').strip())
        if not esz:
            continue
        n += 1
        inv = {'len': B(0, 2 ** 62), 'psf->sf.channels': B(1, 1024)}
        check_buffer(prog, f, 'ptr', 'len', eff, inv, 0, report, None, None, '', esz, 'BLOCK-CLAMP', 'BLOCK-NULL', False)
    ctx.require(n >= 40, 'only %d block worker functions found' % n)
    # pointer non-NULL is the caller's contract for sample buffers: drop those obligations
    ctx.rules.pop('BLOCK-NULL', None)
    ctx.findings[:] = [x for x in ctx.findings if x['rule'] != 'BLOCK-NULL']

    ctx.rule('SIBLING-INDEX', 'for every codec that installs the four typed read (write) functions together: the int / float / double variants (and the short variant when it stages) use the same set of '
             'addressing expressions over the codec private struct (buffer offsets, indices) — a copy-paste slip in one variant shows as a set difference', floor=30)
    from engine.siblings import check_siblings
    check_siblings(ctx, prog, 'SIBLING-INDEX', ('pcm.c', 'float32.c', 'double64.c', 'ulaw.c', 'alaw.c'))

    ctx.rule('FRAME-ALIGN', 'a block worker that advances its position by `count / channels` is only handed whole frames: the caller\'s own request, or a staging chunk whose capacity was rounded to a '
             'multiple of the channel count, or (evidence re-checked) a codec restricted to 1-2 channels with an even capacity', floor=20)
    ctx.rule('EOD-TAIL', 'the end-of-data exit of a block read loop (zero fill + return) is nested under, or conjoined with, the buffer-exhausted test, or is a strict test on a block counter that only '
             'advances when the buffer is exhausted: buffered samples of the last block are always delivered', floor=6)
    from engine.blockrules import frame_align, eod_tail
    frame_align(ctx, prog)
    eod_tail(ctx, prog)

    ctx.rule('PTR-ADVANCE', 'every function in the eight typed read/write slots that works its request off in pieces (a loop decrementing `len`) addresses the caller buffer relative to the running '
             'offset (ptr + T, ptr [T + k]) or advances the parameter itself: no piece after the first touches the start of the buffer again', floor=150)
    ctx.rule('READ-STORES', 'every function installed in a read slot uses its buffer parameter (a stub returning a count without storing hands back uninitialised memory)', floor=100)
    ctx.rule('SLOT-RET', 'no function installed in a typed read/write slot returns a negative constant (the wrappers treat the result as an item count)', floor=200)
    from engine.ptradvance import ptr_rules
    na_, ns_ = ptr_rules(ctx, prog)
    ctx.require(na_ >= 150 and ns_ >= 100, 'too few slot functions / chunk loops found (%d, %d)' % (na_, ns_))


    ctx.rule('CHUNK-VAR', 'in every chunk loop that computes its piece length as W = (len >= B) ? B : len (B the staging capacity, len what is left of the request) the capacity B is not used again '
             'in the loop body after that statement: converters, copies and block workers are handed W, so nothing reads past the caller\'s data or stores past the request', floor=50)
    from engine.chunkvar import chunk_var
    n_cv = chunk_var(ctx, prog)
    ctx.require(n_cv >= 50, 'only %d chunk loops with a min (capacity, request) piece length found' % n_cv)

    ctx.rule('HOOK-SAVE', 'a wrapper never saves itself as the function it wraps: every `B->f = psf->slot ; psf->slot = W` (dither, interleave) either is guarded by `psf->slot != W` or sits in a function '
             'that returns at once when its backup object already exists, and no earlier install of W in the same function reaches the save - otherwise the next read / write through the slot '
             'calls W -> B->f = W -> ... and never returns', floor=8)
    from engine.hooksave import hook_save
    n_hs = hook_save(ctx, prog)
    ctx.require(n_hs >= 8, 'only %d save-and-wrap sites found' % n_hs)

    ctx.rule('READ-COUNT', 'every function installed in a typed read slot that returns a local accumulator feeds that accumulator only from results of calls (psf_fread, a block reader, another '
             'typed reader) - directly or through a local whose every definition is such a result - or with 0: a count fed from the request (the chunk length taken from len) reports '
             'items that a short read never delivered (frozen: the ALAC readers add the frames of the block the decoder has just produced)', floor=90)
    from engine.readcount import read_count
    n_rc = read_count(ctx, prog)
    ctx.require(n_rc >= 90, 'only %d accumulator feeds found in the read slots' % n_rc)

    ctx.rule('COUNT-NARROW', 'in every function installed in a typed read / write slot, a 64-bit value (the request, the result of psf_fread) that is converted to a narrower integer type is bounded '
             'within that type by A-PENT at the conversion (the chunking idiom `n = (len > 0x10000000) ? 0x10000000 : (int) len`); the result of a typed read / write call is bounded when its '
             'request is; only the upper side is judged (counts are positive by the wrapper contract). A request of 2^31 items or more must not come back as a negative or partial count, leave '
             'part of the buffer unconverted, or be scanned only in part. Exceptions with a re-checked supporting fact: tables/c05_countnarrow.tsv', floor=300)
    from engine.widearith import count_narrow, load_frozen as _lf_cn
    import os as _os5
    n_cn = count_narrow(ctx, prog, eff, frozen=_lf_cn(_os5.path.join(_os5.path.dirname(_os5.path.dirname(_os5.path.abspath(__file__))), 'tables', 'c05_countnarrow.tsv')))
    ctx.require(n_cn >= 300, 'only %d narrowing conversions found in the typed read / write functions' % n_cn)
    from engine.fixture import generic_fixture as _gf5
    from engine.effects import Effects as _Ef5
    _gf5(ctx, [('COUNT-NARROW', lambda c_, p_: count_narrow(c_, p_, _Ef5(p_), fns=[g_ for g_ in p_.all_fns() if g_.name.endswith('_countnarrow')]), 'bad_countnarrow')])

    from engine.run import borrow
    borrow(ctx, 'C06', ['BLOCK-SEEK'], 'after sf_seek (k) the position reported and the data delivered must be frame k: a block codec seek that positions the file at another block than the one it records delivers other frames')
    borrow(ctx, 'C03', ['TABLE-INDEX'], 'a write call whose sample value steers a table subscript outside the table reads memory outside anything the caller supplied (G.711 float encoders)')
    borrow(ctx, 'C11', ['BLOCK-RESTORE'], 'items a write call has accepted (w = requested) must reach the file: a header refresh that loses the codec\'s fill count makes the next write overwrite them')
