"""C02 — sample-type conversions follow the documented rules (scale constants, clipping, switches, rounding)."""
import re
from engine.util import assigned_lvalues
from engine.peval import PEval
from engine.effects import Effects

EXPLANATION = ('Decides for every float/double <-> integer kernel of pcm.c, common.c, float32.c, double64.c, ulaw.c and alaw.c (facts taken from the AST, expectations from closed formulas in the '
               'encoded width w): (SCALE) writers multiply by 2^(w-1)-1 with normalisation on and by 1 with it off; clipping writers multiply by 2^(w-1), saturate at >= 2^(w-1)-1 and <= -2^(w-1) '
               'and store exactly the bytes 7F FF.. / 80 00.. in the byte order of the kernel (unsigned 8 bit: FF / 00); readers multiply by 1/2^(w-1) (tribyte / 32-bit data held MSB-aligned in an '
               'int32: 1/2^31, and 1/256 un-normalised for tribyte); G.711 and float-file readers/writers use the documented constants; (NORM-WIRE) float kernels select the constant by '
               'psf->norm_float, double kernels by psf->norm_double, clipping variants are selected by psf->add_clipping, and the five sf_command cases write exactly these switches; '
               '(ROUND-ONLY) no conversion kernel converts floating point to integer by a truncating cast: all go through psf_lrint / psf_lrintf. Numeric results for individual values are NOT decided.')
NOT_DECIDED = ['numeric result of individual conversions (ties, NaN, +-1.0 edge)', 'int <-> int lane moves (see C01 notes)', 'SDS / XI / codec-internal conversions']
ASSUMPTIONS = ['psf_lrint / psf_lrintf round to nearest (libm or SSE2 cvt)']

WIDTH = {'sc': 8, 'uc': 8, 'bes': 16, 'les': 16, 'bet': 24, 'let': 24, 'bei': 32, 'lei': 32, 's': 16, 'i': 32}


def fval(f, n):
    n = f.unwrap(n)
    if 'fv' in n:
        return float(n['fv'])
    if 'v' in n:
        return float(n['v'])
    return None


def run(ctx):
    prog = ctx.prog
    eff = Effects(prog)
    ctx.rule('SCALE', 'per kernel: normalisation constant, un-normalised constant, clip thresholds and saturation bytes equal the closed formula for the encoded width and byte order', floor=100)
    ctx.rule('NORM-WIRE', 'the normalisation constant is selected by psf->norm_float in float paths and psf->norm_double in double paths; clip variants by psf->add_clipping; SFC_SET_NORM_FLOAT/DOUBLE, '
             'SFC_SET_CLIPPING, SFC_SET_SCALE_FLOAT_INT_READ, SFC_SET_SCALE_INT_FLOAT_WRITE store into exactly those fields', floor=40)

    def cond_const(f, lv_names):
        """[(cond string, on value, off value, node)] for assignments lv = c ? a : b"""
        out = []
        cands = []
        for lv, n, r in assigned_lvalues(f):
            if r is not None and lv.isidentifier():
                ru = f.unwrap(r)
                if ru['k'] == 'ConditionalOperator':
                    c, a, b = ru['kids']
                    cands.append((lv, (f.s(c), fval(f, a), fval(f, b), n, f.s(a), f.s(b))))
        # the scale local is recognised by what it is - a local set from `cond ? constant : constant` - not by its name
        out = [t for lv, t in cands if lv in lv_names] or [t for lv, t in cands if t[1] is not None and t[2] is not None]
        return out

    # ---- writers: x2Y[_clip]_array in pcm.c and psf_x2Y[_clip]_array in common.c
    for f in sorted(prog.lib_fns(), key=lambda f: (f.file, f.line)):
        base = f.file.split('/')[-1]
        m = re.match(r'^(psf_)?([fd])2(sc|uc|bes|les|bet|let|bei|lei|s|i)(_clip)?_array$', f.name)
        if not m or base not in ('pcm.c', 'common.c'):
            continue
        src, dst, clip = m.group(2), m.group(3), bool(m.group(4))
        w = WIDTH[dst]
        cc = cond_const(f, ('normfact',))
        if not cc:
            ctx.ob('SCALE', f.name + ':normfact', False, f.loc(f.body), 'no normalisation constant found', None)
            continue
        cs, on, off, node, _, _ = cc[0]
        want_on = float(2 ** (w - 1)) if clip else float(2 ** (w - 1) - 1)
        ctx.ob('SCALE', f.name + ':normfact', on == want_on and off == 1.0 and cs == (f.params[-1]['n'] if f.params else 'normalize'), f.loc(node),
               '%d-bit %s writer: normalised x %s (formula %s), un-normalised x %s, selected by `%s`' % (w, 'clipping' if clip else 'plain', on, want_on, off, cs), None)
        if clip:
            th = {}
            for n in f.walk():
                if n['k'] == 'IfStmt' and f.unwrap(f.N[n['cond']]).get('k') == 'BinaryOperator' and f.unwrap(f.N[n['cond']]).get('op') in ('>=', '<=') and f.unwrap(f.N[f.unwrap(f.N[n['cond']])['kids'][0]]).get('k') == 'DeclRefExpr' and fval(f, f.unwrap(f.N[n['cond']])['kids'][1]) is not None:
                    cn = f.N[n['cond']]
                    op = cn.get('op')
                    tv = fval(f, cn['kids'][1])
                    stores = {}
                    for x in f.walk(n['then']):
                        if x['k'] == 'BinaryOperator' and x['op'] == '=':
                            lv = f.s(x['kids'][0])
                            mi = re.search(r'\[(\d+)\]$', lv)
                            sv = f.unwrap(f.N[x['kids'][1]]).get('v')
                            if sv is not None and dst in ('s', 'i'):
                                sv = (sv + 2 ** (w - 1)) % 2 ** w - 2 ** (w - 1)
                            stores[int(mi.group(1)) if mi else 0] = sv
                    th[op] = (tv, stores)
            nb = w // 8
            be = dst.startswith('b') or dst in ('sc', 'uc')
            def sat(hi):
                if dst == 'uc':
                    return {0: 255 if hi else 0}
                if dst == 'sc':
                    return {0: 127 if hi else -128}
                if dst in ('s', 'i'):
                    return {0: (2 ** (w - 1) - 1) if hi else -(2 ** (w - 1))}
                top, rest = (0x7F, 0xFF) if hi else (0x80, 0x00)
                return {k: (top if (k == 0) == be else rest) if nb > 1 else top for k in range(nb)} if be else {k: (top if k == nb - 1 else rest) for k in range(nb)}
            okh = '>=' in th and th['>='][0] == float(2 ** (w - 1) - 1) and th['>='][1] == sat(True)
            okl = '<=' in th and th['<='][0] == -float(2 ** (w - 1)) and th['<='][1] == sat(False)
            ctx.ob('SCALE', f.name + ':clip-high', okh, f.loc(f.body), 'saturate when >= %s with bytes %s (formula: >= %s, %s)' % (
                th.get('>=', (None,))[0], th.get('>=', (None, None))[1], float(2 ** (w - 1) - 1), sat(True)), None)
            ctx.ob('SCALE', f.name + ':clip-low', okl, f.loc(f.body), 'saturate when <= %s with bytes %s (formula: <= %s, %s)' % (
                th.get('<=', (None,))[0], th.get('<=', (None, None))[1], -float(2 ** (w - 1)), sat(False)), None)

    # ---- readers in pcm.c: pcm_read_X2f / X2d
    for f in sorted(prog.lib_fns(), key=lambda f: (f.file, f.line)):
        m = re.match(r'^pcm_read_(sc|uc|bes|les|bet|let|bei|lei)2([fd])$', f.name)
        if not m or not f.file.endswith('/pcm.c'):
            continue
        code, t = m.group(1), m.group(2)
        w = WIDTH[code]
        cc = cond_const(f, ('normfact',))
        if not cc:
            ctx.ob('SCALE', f.name, False, f.loc(f.body), 'no normalisation constant', None)
            continue
        cs, on, off, node, _, _ = cc[0]
        weff = 32 if w >= 24 else w
        want_on = 1.0 / 2 ** (weff - 1)
        want_off = 1.0 / 256 if w == 24 else 1.0
        ctx.ob('SCALE', f.name, on == want_on and off == want_off, f.loc(node), '%d-bit reader: normalised x %s (formula 1/2^%d), un-normalised x %s (formula %s)' % (w, on, weff - 1, off, want_off), None)
        fld = 'psf->norm_float' if t == 'f' else 'psf->norm_double'
        ctx.ob('NORM-WIRE', f.name, cs in ('(%s == SF_TRUE)' % fld, fld), f.loc(node), 'constant selected by `%s` (required %s)' % (cs, fld), None)

    # ---- pcm writers select clip variant and pass the right norm flag
    for f in sorted(prog.lib_fns(), key=lambda f: (f.file, f.line)):
        m = re.match(r'^pcm_write_([fd])2(sc|uc|bes|les|bet|let|bei|lei)$', f.name)
        if not m or not f.file.endswith('/pcm.c'):
            continue
        t, code = m.group(1), m.group(2)
        sel = [f.s(r) for lv, n, r in assigned_lvalues(f) if lv == 'convert' and r is not None]
        want = '(psf->add_clipping ? %s2%s_clip_array : %s2%s_array)' % (t, code, t, code)
        fld = 'psf->norm_float' if t == 'f' else 'psf->norm_double'
        calls = [c for c in f.calls() if 'callee' not in c and f.s(c['kids'][0]) == 'convert']
        passes = bool(calls) and all(f.s(f.unwrap(f.args(c)[3])) == fld for c in calls)
        ctx.ob('NORM-WIRE', f.name, sel == [want] and passes, f.loc(f.body), 'kernel selection %s; normalise argument %s' % (sel, [f.s(f.unwrap(f.args(c)[3])) for c in calls]), None)

    # ---- G.711 and float-file scale constants
    TAB = {
        'ulaw_read_ulaw2f': ('norm_float', 1.0 / 0x8000, 1.0), 'ulaw_read_ulaw2d': ('norm_double', 1.0 / 0x8000, 1.0),
        'alaw_read_alaw2f': ('norm_float', 1.0 / 0x8000, 1.0), 'alaw_read_alaw2d': ('norm_double', 1.0 / 0x8000, 1.0),
        'ulaw_write_f2ulaw': ('norm_float', 0x7FFF / 4.0, 0.25), 'ulaw_write_d2ulaw': ('norm_double', 0x7FFF / 4.0, 0.25),
        'alaw_write_f2alaw': ('norm_float', 0x7FFF / 16.0, 1.0 / 16), 'alaw_write_d2alaw': ('norm_double', 0x7FFF / 16.0, 1.0 / 16),
    }
    for name, (fld, on_w, off_w) in TAB.items():
        f = prog.fn(name)
        cc = cond_const(f, ('normfact',))
        ok = bool(cc) and cc[0][1] == on_w and cc[0][2] == off_w
        ctx.ob('SCALE', name, ok, f.loc(f.body), 'G.711 %s: normalised x %s, un-normalised x %s (formula %s / %s)' % (name, cc[0][1] if cc else None, cc[0][2] if cc else None, on_w, off_w), None)
        okw = bool(cc) and cc[0][0] in ('(psf->%s == SF_TRUE)' % fld, 'psf->%s' % fld)
        ctx.ob('NORM-WIRE', name, okw, f.loc(f.body), 'selected by `%s` (required psf->%s)' % (cc[0][0] if cc else None, fld), None)
    for f in sorted(prog.lib_fns(), key=lambda f: (f.file, f.line)):
        base = f.file.split('/')[-1]
        m = re.match(r'^(host|replace)_(read|write)_([sifd])2([sifd])$', f.name)
        if not m or base not in ('float32.c', 'double64.c'):
            continue
        rw, a, b = m.group(2), m.group(3), m.group(4)
        cc = []
        for lv, n, r in assigned_lvalues(f):
            if lv == 'scale' and r is not None and f.unwrap(r)['k'] == 'ConditionalOperator':
                c, x, y = f.unwrap(r)['kids']
                cc.append((f.s(c), f.s(x), f.s(y), fval(f, x), fval(f, y), n))
        if not cc:
            continue
        cs, xs, ys, xv, yv, node = cc[0]
        if rw == 'read':
            w = WIDTH[b]
            want_y = '(32767 / psf->float_max)' if w == 16 else '(2147483648.0 / psf->float_max)'.replace('2147483648.0', repr(2147483648.0))
            ok = cs == '(psf->float_int_mult == 0)' and xv == 1.0 and (ys == want_y or ys.replace(' ', '') == want_y.replace(' ', ''))
            ctx.ob('SCALE', f.name, ok, f.loc(node), 'float-file -> %d-bit int read: scale = %s ? %s : %s' % (w, cs, xs, ys), None)
        else:
            w = WIDTH[a]
            ok = cs == '(psf->scale_int_float == 0)' and xv == 1.0 and yv == 1.0 / 2 ** (w - 1)
            ctx.ob('SCALE', f.name, ok, f.loc(node), '%d-bit int -> float-file write: scale = %s ? %s : %s (formula 1/2^%d)' % (w, cs, xs, yv, w - 1), None)

    # ---- command wiring
    E = prog.enums
    c = prog.fn('sf_command', 'sndfile.c')
    pe = PEval(prog, effects=eff, max_depth=0)
    for cmd, fld in (('SFC_SET_NORM_FLOAT', 'psf->norm_float'), ('SFC_SET_NORM_DOUBLE', 'psf->norm_double'), ('SFC_SET_CLIPPING', 'psf->add_clipping'),
                     ('SFC_SET_SCALE_FLOAT_INT_READ', 'psf->float_int_mult'), ('SFC_SET_SCALE_INT_FLOAT_WRITE', 'psf->scale_int_float')):
        pe.memo.clear()
        r = pe.explore(c, {'command': E[cmd]})
        st = sorted({x[1] for x in r.store_exprs if x[0] == 'sf_command' and x[1] in ('psf->norm_float', 'psf->norm_double', 'psf->add_clipping', 'psf->float_int_mult', 'psf->scale_int_float')})
        ctx.ob('NORM-WIRE', cmd, st == [fld], c.loc(c.body), '%s stores into %s (required [%s])' % (cmd, st, fld), None)

    # ---- G.711 kernels: grid index expressions (shared with C20)
    from rules.C20 import g711_kernels
    g711_kernels(ctx, prog)

    # ---- ROUND-ONLY
    ctx.rule('ROUND-ONLY', 'in the conversion files (pcm.c, common.c *_array, float32.c, double64.c, ulaw.c, alaw.c) every float/double -> integer conversion of a sample goes through psf_lrint / psf_lrintf: '
             'no cast of kind FloatingToIntegral occurs in a conversion kernel (frozen exceptions: the exponent arithmetic of the portable IEEE writers)', floor=60)
    EXC = {'float32_le_write', 'float32_be_write', 'double64_le_write', 'double64_be_write'}
    for f in sorted(prog.lib_fns(), key=lambda f: (f.file, f.line)):
        base = f.file.split('/')[-1]
        if base not in ('pcm.c', 'float32.c', 'double64.c', 'ulaw.c', 'alaw.c') and not (base == 'common.c' and f.name.endswith('_array')):
            continue
        if not (f.name.endswith('_array') or re.match(r'^(host|replace|pcm|ulaw|alaw)_(read|write)_', f.name) or f.name in EXC):
            continue
        casts = [n for n in f.walk() if n.get('ck') == 'FloatingToIntegral']
        if f.name in EXC:
            ctx.ob('ROUND-ONLY', f.name, True, f.loc(f.body), 'frozen exception: mantissa/exponent arithmetic of the portable IEEE serialiser (%d cast(s))' % len(casts), None)
            continue
        rnd = sorted({x.get('callee') for x in f.calls() if x.get('callee') in ('psf_lrint', 'psf_lrintf')})
        ctx.ob('ROUND-ONLY', f.name, not casts, f.loc(casts[0]) if casts else f.loc(f.body), 'rounding via %s; truncating casts: %s' % (rnd or 'n/a', [f.s(n)[:40] for n in casts]), None)
    _norm_slot_and_round_type(ctx)
    # ---- the scale of SFC_SET_SCALE_FLOAT_INT_READ is 0x7FFF / float_max (2^31 / float_max): float_max must be positive when it is used
    ctx.rule('CLIP-SELECT', 'every selection `psf->add_clipping ? A : B` between two conversion functions, anywhere in the library (pcm.c, ALAC, FLAC, MPEG ...), has the clipping variant '
             '(name containing _clip) as A and its plain twin (the same name without _clip) as B: with SFC_SET_CLIPPING on, out-of-range input saturates instead of wrapping', floor=20)
    n_cs = 0
    for f in sorted(prog.lib_fns(), key=lambda f: (f.file, f.line)):
        for n in f.walk():
            if n['k'] != 'ConditionalOperator':
                continue
            kids = [f.unwrap(f.N[k]) for k in n['kids']]
            cs = f.s(kids[0]).replace('(', '').replace(')', '').replace(' == SF_TRUE', '').strip()
            if not cs.endswith('add_clipping') or '!' in cs:
                continue
            a, b = kids[1], kids[2]
            if a.get('dk') != 'func' or b.get('dk') != 'func':
                continue
            n_cs += 1
            ok = '_clip' in a['n'] and a['n'].replace('_clip', '') == b['n']
            ctx.ob('CLIP-SELECT', '%s@%d' % (f.name, n['l']), ok, f.loc(n), 'clipping on selects %s, off selects %s%s' % (a['n'], b['n'], '' if ok else
                   ': the arms are not (clipping variant, plain twin) in this order - with clipping requested the non-saturating converter runs'), None)
    ctx.require(n_cs >= 20, 'only %d add_clipping selections found' % n_cs)

    ctx.rule('CLIP-GUARD', 'wherever a rounded value is stored under a saturation chain `if (X > HI) d = MAX ; else if (X < LO) d = MIN ; else d = psf_lrint[f] (X)`, the folded thresholds satisfy '
             'HI <= max (type of d) and LO >= min (type of d): every value that reaches the rounding call fits the destination (a threshold that rounds up to 2^31 as a float lets exactly '
             'that value through and it wraps to INT_MIN)', floor=4)
    from engine.model import int_type as _it
    n_cg = 0
    for f in sorted(prog.lib_fns(), key=lambda f: (f.file, f.line)):
        for n in f.walk():
            if n['k'] != 'IfStmt' or n.get('else') is None:
                continue
            par = f.N[f.parent[n['id']]] if n['id'] in f.parent else None
            if par is not None and par['k'] == 'IfStmt' and par.get('else') == n['id']:
                continue            # not the head of the chain
            chain, cur = [], n
            while cur is not None and cur['k'] == 'IfStmt':
                chain.append(cur)
                cur = f.N[cur['else']] if cur.get('else') is not None else None
            if cur is None:
                continue
            # the stored value must BE the rounded value (d = psf_lrint (X)), not an expression built from it (+ 128, << 8 ...): only then do the thresholds bound d itself
            fin = [a for a in f.walk(cur) if a['k'] == 'BinaryOperator' and a.get('op') == '=' and f.unwrap(f.N[a['kids'][1]]).get('k') == 'CallExpr' and f.unwrap(f.N[a['kids'][1]]).get('callee') in ('psf_lrint', 'psf_lrintf', 'lrint', 'lrintf')]
            if len(fin) != 1:
                continue
            a = fin[0]
            call = [c for c in f.calls(root=a) if c.get('callee') in ('psf_lrint', 'psf_lrintf', 'lrint', 'lrintf')][0]
            X = f.s(f.unwrap(f.args(call)[0]))
            dt = _it(f.N[a['kids'][0]].get('t') or '')
            if not dt:
                continue
            tmax, tmin = (2 ** (dt[0] - 1) - 1, -2 ** (dt[0] - 1)) if dt[1] else (2 ** dt[0] - 1, 0)
            for g in chain:
                cn = f.unwrap(f.N[g['cond']])
                if cn.get('k') != 'BinaryOperator' or cn.get('op') not in ('>', '>=', '<', '<='):
                    continue
                l, r = f.unwrap(f.N[cn['kids'][0]]), f.N[cn['kids'][1]]
                ru = f.unwrap(r)
                C = r.get('fv', ru.get('fv', ru.get('v')))
                if f.s(l) != X or C is None:
                    continue
                n_cg += 1
                up = cn['op'] in ('>', '>=')
                ok = (C <= tmax) if up else (C >= tmin)
                ctx.ob('CLIP-GUARD', '%s:%s' % (f.name, 'high' if up else 'low'), ok, f.loc(g), '`%s` with folded threshold %r; destination %s holds [%d, %d]%s' % (f.s(cn)[:50], C, f.N[a['kids'][0]].get('t'), tmin, tmax,
                       '' if ok else ': values between the destination limit and the threshold reach %s and overflow' % call['callee']), None)
    ctx.require(n_cg >= 4, 'only %d saturation thresholds found' % n_cg)

    ctx.rule('SCALE-NONZERO', 'the measured maximum stored into psf->float_max by SFC_SET_SCALE_FLOAT_INT_READ is replaced by a positive constant when it is not positive (a silent file), '
             'before the command returns: the readers divide by it', floor=1)
    cf = prog.fn('sf_command', 'sndfile.c')
    meas = [a for lv, a, r in assigned_lvalues(cf) if lv == 'psf->float_max' and r is not None and any(c.get('callee') == 'psf_calc_signal_max' for c in cf.calls(root=r))]
    ctx.require(meas, 'sf_command does not store a measured maximum into psf->float_max')
    for k, a in enumerate(meas):
        fix = []
        for n in cf.walk():
            if n['k'] == 'IfStmt' and cf.s(n['cond']).replace(' ', '') in ('(psf->float_max<=0.0)', '(psf->float_max<=0)', '(psf->float_max==0.0)', '(psf->float_max<=0.000000)'):
                pos = [x for lv, x, r in assigned_lvalues(cf, n['then']) if lv == 'psf->float_max' and r is not None and (cf.unwrap(r).get('fv') or cf.unwrap(r).get('v') or 0) > 0]
                if pos and cf.cfg.dominates(a, n):
                    fix.append(n)
        ctx.ob('SCALE-NONZERO', 'sf_command#%d' % (k + 1), bool(fix), cf.loc(a), 'measured maximum %s' % ('is clamped to a positive value before use' if fix else
               'can be 0 (silent file): the readers compute 0x7FFF / 0 = inf, inf * 0 = NaN, every sample becomes INT_MIN'), None)


def _norm_slot_and_round_type(ctx):
    prog = ctx.prog
    ctx.rule('NORM-SLOT', 'every function installed in a read_float / write_float slot (all codecs and containers) never reads psf->norm_double, every function in a '
             'read_double / write_double slot never reads psf->norm_float; when the float variant of a codec selects its scale by norm_float the double variant selects it by norm_double', floor=100)
    fam = {}
    for slot, bad, good in (('read_float', 'norm_double', 'norm_float'), ('write_float', 'norm_double', 'norm_float'),
                            ('read_double', 'norm_float', 'norm_double'), ('write_double', 'norm_float', 'norm_double')):
        for f in sorted(prog.slot_fns(slot), key=lambda f: (f.file, f.line)):
            refs = {}
            for n in f.walk():
                if n.get('k') == 'MemberExpr' and n.get('n') in ('norm_float', 'norm_double'):
                    refs.setdefault(n['n'], n)
            ctx.ob('NORM-SLOT', '%s:%s' % (slot, f.name), bad not in refs, f.loc(refs[bad]) if bad in refs else f.loc(f.body),
                   '%s (slot %s) reads %s' % (f.name, slot, sorted(refs) or 'no normalisation flag'), None)
            fam.setdefault((f.file, slot.split('_')[0]), {})[slot.split('_')[1]] = (f, good in refs)
    for (file, rw), d in sorted(fam.items()):
        if 'float' in d and 'double' in d:
            ff, fu = d['float']
            df, du = d['double']
            ctx.ob('NORM-SLOT', 'pair:%s:%s' % (ff.name, df.name), fu == du, df.loc(df.body),
                   '%s uses norm_float: %s; %s uses norm_double: %s (siblings must both honour their flag)' % (ff.name, fu, df.name, du), None)

    ctx.rule('DOUBLE-PATH', 'in every conversion kernel whose source is `const double *` (d2…_array and the double64.c readers) no sample value is narrowed to float on its way to the '
             'integer result (no implicit FloatingCast double -> float of a non-constant); this includes the PEAK scan (the exception once frozen for it hid 0c5fa1b: a maximum kept in a float names the wrong frame)', floor=30)
    ndp = 0
    for f in sorted(prog.lib_fns(), key=lambda f: (f.file, f.line)):
        if not any('const double *' in q['t'] for q in f.params):
            continue
        base = f.file.split('/')[-1]
        if base not in ('pcm.c', 'double64.c', 'common.c', 'ulaw.c', 'alaw.c', 'xi.c', 'flac.c'):
            continue
        casts = [n for n in f.walk() if n.get('ck') == 'FloatingCast' and n.get('t') == 'float' and f.N[n['kids'][0]].get('t') == 'double'
                 and f.unwrap(f.N[n['kids'][0]]).get('fv') is None and f.unwrap(f.N[n['kids'][0]]).get('v') is None]
        ndp += 1
        ctx.ob('DOUBLE-PATH', f.name, not casts, f.loc(casts[0]) if casts else f.loc(f.body), 'no narrowing of the double sample' if not casts else
               '`%s` is narrowed to float: the low bits of the sample are lost before rounding' % f.s(f.N[casts[0]['kids'][0]])[:50], None)
    ctx.require(ndp >= 30, 'only %d double-source kernels found' % ndp)

    ctx.rule('ROUND-TYPE', 'psf_lrintf is applied only to float-typed expressions: a double argument would be narrowed to float before rounding (double rounding; the stored code can differ from the nearest integer)', floor=30)
    for f in sorted(prog.lib_fns(), key=lambda f: (f.file, f.line)):
        for c in f.calls():
            if c.get('callee') != 'psf_lrintf':
                continue
            a = f.args(c)[0]
            a = a if isinstance(a, dict) else f.N[a]
            inner = f.unwrap(a)
            ctx.ob('ROUND-TYPE', '%s:%s' % (f.name, f.s(inner)[:50]), inner.get('t') == 'float', f.loc(c),
                   'psf_lrintf (%s) : argument type %s' % (f.s(inner)[:60], inner.get('t')), None)

    ctx.rule('KERNEL-SIBS', 'the s / i / f / d variants of one conversion kernel (<code>2T_array, T2<code>_array) agree on everything that is not the sample type: carried locals '
             '(accumulators, values copied into or out of the codec state) have the same type, and the stores into the codec-private state are the same (field, expression) pairs', floor=20)
    from engine.kernelsibs import kernel_sibs
    ctx.require(kernel_sibs(ctx, prog) >= 20, 'too few kernel families found')

    from engine.run import borrow
    borrow(ctx, 'C18', ['CALC-RESTORE'], 'a query that leaves SFC_SET_NORM_DOUBLE changed alters every later double read')

