"""C12 — metadata set before the audio survives close and re-open unchanged (structural clauses)."""
import json
from engine.arms import all_arms, switch_arms
from engine.fieldseq import sequence, payload
from engine.wrappers import sheet, TYPES
from engine.effects import Effects
from engine.bounds import Bounds

EXPLANATION = ('Decides: (STR-MARKERS) for WAV/RF64/W64 LIST-INFO, AIFF text chunks and CAF info keys the chunk id / key a writer arm emits for a string type is the one the reader arm maps back to the '
               'same type, and the sets of types written and restored coincide per container; (FIELD-SEQ) the ordered (spec, field, width) sequences of the bext and cart writers equal those of their '
               'readers (including the reserved skip), and the PEAK writer/reader spec letter sequences agree; (PAD-SKIP) every AIFF text-chunk arm consumes the chunk plus its pad byte; (SET-GUARD) '
               'every metadata setter in sf_command and psf_store_string tests have_written (or the END-placement flag) before mutating, restricted to the documented containers, and every one of the '
               'nine write wrappers sets have_written before it transfers data. Field values surviving (lengths, padding, CRLF normalisation) are NOT decided.')
NOT_DECIDED = ['content-dependent survival of values (lengths, padding, line-end normalisation, 16 KiB history)', 'cue / instrument / channel-map field sequences (no named field lists on both sides)']
ASSUMPTIONS = ['psf_binheader_readf/writef interpret format letters as documented in common.c']

STR = lambda x: x.startswith('SF_STR_') and x not in ('SF_STR_ALLOW_START', 'SF_STR_ALLOW_END', 'SF_STR_LOCATE_START', 'SF_STR_LOCATE_END', 'SF_STR_FIRST', 'SF_STR_LAST')


def marker_values(f, node):
    out = set()
    for x in f.walk(node):
        if x.get('m') == 'MAKE_MARKER' and 'v' in x and x['k'] in ('BinaryOperator', 'CStyleCastExpr', 'ParenExpr', 'ImplicitCastExpr'):
            out.add(x['v'] & 0xFFFFFFFF)
    return out


def run(ctx):
    prog = ctx.prog
    E = prog.enums
    eff = Effects(prog)

    ctx.rule('STR-MARKERS', 'per container: writer arm (string type -> chunk id / key) composed with reader arm (chunk id / key -> string type) is the identity on the types written, and every type written is restored', floor=18)
    from engine.arms import switch_arm_stmts
    from engine.util import assigned_lvalues

    def enum_names(f, stmts):
        return {x['n'] for st in stmts for x in f.walk(st) if x['k'] == 'DeclRefExpr' and x.get('dk') == 'enum' and STR(x['n'])}

    for wname, rname in (('wavlike_write_strings', 'wavlike_subchunk_parse'), ('aiff_write_strings', 'aiff_read_header')):
        wf, rf = prog.fn(wname), prog.fn(rname)
        rmap = {}
        for sw in [n for n in rf.walk() if n['k'] == 'SwitchStmt']:
            for vals, names, dflt, stmts in switch_arm_stmts(rf, sw):
                ts = enum_names(rf, stmts)
                if ts:
                    for v in vals:
                        rmap.setdefault(v & 0xFFFFFFFF, set()).update(ts)
        written = set()
        for sw in [n for n in wf.walk() if n['k'] == 'SwitchStmt']:
            for vals, names, dflt, stmts in switch_arm_stmts(wf, sw):
                T = sorted(k for k in names if STR(k))
                if not T:
                    continue
                mv = set()
                for st in stmts:
                    mv |= marker_values(wf, st)
                back = {v: sorted(rmap[v]) for v in mv if v in rmap}
                for t in T:
                    written.add(t)
                    ok = bool(back) and all(t in ts for ts in back.values())
                    ctx.ob('STR-MARKERS', '%s:%s' % (wname, t), ok, wf.loc(stmts[0]), '%s written under chunk id(s) %s; reader maps them to %s' % (
                        t, sorted(hex(v) for v in back) or 'that the reader does not know', back), None)
        restored = set()
        for ts in rmap.values():
            restored |= ts
        ctx.ob('STR-MARKERS', '%s:coverage' % wname, bool(written) and written <= restored, wf.loc(wf.body), 'types written %s, types the reader restores %s' % (sorted(written), sorted(restored)), None)
    # CAF: info keys, hashed by the reader with string_hash32 (constants taken from its AST, folded here on the writer's literal keys)
    wf, rf = prog.fn('caf_write_strings', 'caf.c'), prog.fn('caf_read_strings', 'caf.c')
    hf = prog.fn('string_hash32', 'caf.c')
    init = [d['init'] for n in hf.walk() if n['k'] == 'DeclStmt' for d in n.get('decls', []) if 'init' in d and d['init'] >= 0]
    mult = [hf.unwrap(hf.N[n['kids'][1]]).get('v') for n in hf.walk() if n['k'] == 'BinaryOperator' and n['op'] == '*' and 'v' in hf.unwrap(hf.N[n['kids'][1]])]
    ctx.require(len(init) == 1 and len(mult) == 1 and hf.N[init[0]].get('v') is not None, 'string_hash32 is no longer hash = hash * K + c')
    h0, hm = hf.N[init[0]]['v'] & 0xFFFFFFFF, mult[0]

    def khash(s_):
        h = h0
        for ch in s_.encode():
            h = (h * hm + ch) & 0xFFFFFFFF
        return h
    rmap = {}
    for sw in [n for n in rf.walk() if n['k'] == 'SwitchStmt']:
        for vals, names, dflt, stmts in switch_arm_stmts(rf, sw):
            ts = enum_names(rf, stmts)
            for v in vals:
                rmap.setdefault(v & 0xFFFFFFFF, set()).update(ts)
    n_caf = 0
    for sw in [n for n in wf.walk() if n['k'] == 'SwitchStmt']:
        for vals, names, dflt, stmts in switch_arm_stmts(wf, sw):
            T = sorted(k for k in names if STR(k))
            lits = [x['s'] for st in stmts for x in wf.walk(st) if x['k'] == 'StringLiteral' and x.get('s') and x['s'].replace(' ', '').isalpha()]
            for t in T:
                for l in lits:
                    n_caf += 1
                    back = sorted(rmap.get(khash(l), ()))
                    ctx.ob('STR-MARKERS', 'caf_write_strings:%s' % t, back == [t], wf.loc(stmts[0]), '%s written under key %r (hash %#x); reader maps that hash to %s' % (t, l, khash(l), back), None)
    ctx.require(n_caf >= 5, 'CAF string keys: only %d writer arms matched' % n_caf)

    ctx.rule('FIELD-SEQ', 'bext and cart: the ordered list of (spec letter, struct field, byte width) entries, including the reserved skip, is identical in writer and reader; PEAK: the spec letter '
             'sequence of the writer (after marker and size) equals the reader\'s', floor=3)
    def norm(seq):
        out = []
        for (l, fld, sz) in seq:
            if isinstance(sz, str):
                import re as _re
                m = _re.match(r'^make_size_t\((\d+)\)$', sz)
                if m:
                    sz = int(m.group(1))
                elif sz.startswith('make_size_t('):
                    sz = sz[len('make_size_t('):-1].split('->')[-1]
            out.append((l, fld, sz))
        return out
    for w, r in (('wavlike_write_bext_chunk', 'wavlike_read_bext_chunk'), ('wavlike_write_cart_chunk', 'wavlike_read_cart_chunk')):
        a = norm(payload(sequence(prog.fn(w), 'w')))
        b = norm(payload(sequence(prog.fn(r), 'r')))
        def same(x, y):
            if x == y:
                return True
            # a reserved area: the writer zero-fills n bytes, the reader reads (or skips) the same n bytes
            return {x[0], y[0]} <= {'skip', 'b'} and x[2] == y[2] and isinstance(x[2], int) and (x[1] in (None, 'reserved')) and (y[1] in (None, 'reserved'))
        d = next((i for i, (x, y) in enumerate(zip(a, b)) if not same(x, y)), None)
        ok = d is None and len(a) == len(b) and len(a) >= 10
        ctx.ob('FIELD-SEQ', w, ok, prog.fn(w).loc(prog.fn(w).body), '%d writer entries, %d reader entries: %s' % (len(a), len(b), 'identical' if ok else
               'first difference at entry %s: writer %s, reader %s' % (d, a[d] if d is not None and d < len(a) else a[len(b):len(b) + 1], b[d] if d is not None and d < len(b) else b[len(a):len(a) + 1])), None)
    wl = [e[0] for e in sequence(prog.fn('wavlike_write_peak_chunk'), 'w')]
    rl = [e[0] for e in sequence(prog.fn('wavlike_read_peak_chunk'), 'r')]
    rl = rl[1:] if rl and rl[0] == 'skip' else rl
    ok = wl[:2] == ['m', '4'] and wl[2:] == rl and len(rl) >= 4
    ctx.ob('FIELD-SEQ', 'wavlike_write_peak_chunk', ok, prog.fn('wavlike_write_peak_chunk').loc(prog.fn('wavlike_write_peak_chunk').body), 'writer letters %s, reader letters %s' % (wl, rl), None)

    ctx.rule('PAD-SKIP', 'aiff_read_header: every arm that stores a text string (psf_store_string) reads chunk_size + (chunk_size & 1) bytes (or chunk_size + (chunk_size & 1) - 4 after the APPL signature) '
             'before the next chunk header is parsed', floor=4)
    f = prog.fn('aiff_read_header', 'aiff.c')
    for sw in [n for n in f.walk() if n['k'] == 'SwitchStmt' and f.s(n['cond']) == 'marker']:
        body = f.N[sw['body']]
        cur = None
        reads, stores, first = [], False, None
        def flush():
            if cur and stores:
                oks = [r for r in reads if '(chunk_size + (chunk_size & 1))' in r or '((chunk_size + (chunk_size & 1)) - 4)' in r]
                ctx.ob('PAD-SKIP', 'aiff_read_header:%s' % '+'.join(cur), bool(oks), f.loc(first), 'arm %s reads %s' % (cur, reads), None)
        for st in f.kids(body):
            n = st
            names = []
            while n['k'] in ('CaseStmt', 'DefaultStmt'):
                if n['k'] == 'CaseStmt':
                    names.append(n.get('cn') or str(n.get('cv')))
                n = f.N[n['sub']]
            if names:
                flush()
                cur, reads, stores, first = names, [], False, n
            for c in f.calls(root=st):
                if c.get('callee') == 'psf_binheader_readf' and 'b' in (f.unwrap(f.args(c)[1]).get('s') or ''):
                    # the read that fills the buffer the string is stored from (a `j` skip of an over-long chunk in the same arm is another path)
                    reads += [f.s(a) for a in f.args(c)[2:]]
                if c.get('callee') == 'psf_store_string':
                    stores = True
        flush()

    ctx.rule('SET-GUARD', 'SFC_SET_CUE / SET_INSTRUMENT / SET_CHANNEL_MAP_INFO / SET_BROADCAST_INFO / SET_CART_INFO / SET_ADD_PEAK_CHUNK reject with SFE_CMD_HAS_DATA once have_written is set (bext/cart: unless the '
             'block already exists); psf_store_string refuses START placement once data was written unless the container allows END placement; all nine write wrappers set have_written before the transfer', floor=16)
    c = prog.fn('sf_command', 'sndfile.c')
    for sw in [n for n in c.walk() if n['k'] == 'SwitchStmt' and c.s(n['cond']) == 'command']:
        for keys, body, node in switch_arms(c, sw):
            for cmd in ('SFC_SET_CUE', 'SFC_SET_INSTRUMENT', 'SFC_SET_CHANNEL_MAP_INFO', 'SFC_SET_BROADCAST_INFO', 'SFC_SET_CART_INFO', 'SFC_SET_ADD_PEAK_CHUNK'):
                if cmd in keys:
                    ok = 'SFE_CMD_HAS_DATA' in body
                    ctx.ob('SET-GUARD', cmd, ok, c.loc(node), '%s %s' % (cmd, 'rejects with SFE_CMD_HAS_DATA after data was written' if ok else 'no longer tests have_written'), None)
    # the guard must mention have_written in the same arm: check conditions
    hw = [c.s(b['cond']) for b in c.cfg.blocks.values() if 'cond' in b and 'have_written' in c.s(b['cond'])]
    ctx.ob('SET-GUARD', 'sf_command:have_written-tests', len(hw) >= 6, c.loc(c.body), '%d tests of have_written in sf_command' % len(hw), None)
    s = prog.fn('psf_store_string', 'strings.c')
    conds = [s.s(b['cond']) for b in s.cfg.blocks.values() if 'cond' in b and 'have_written' in s.s(b['cond'])]
    ctx.ob('SET-GUARD', 'psf_store_string', len(conds) >= 2, s.loc(s.body), 'placement guards on have_written: %s' % conds, None)
    for name in ['sf_write_%s' % t for t in TYPES] + ['sf_writef_%s' % t for t in TYPES] + ['sf_write_raw']:
        g = prog.fn(name, 'sndfile.c')
        flat = json.dumps(sheet(g, None))
        i1 = flat.find('(psf->have_written = SF_TRUE)')
        i2 = max(flat.find('(count = psf->write_'), flat.find('(count = psf_fwrite('))
        ok = 0 <= i1 < i2
        ctx.ob('SET-GUARD', name, ok, g.loc(g.body), 'have_written %s' % ('set before the transfer' if ok else 'NOT set before the transfer: late metadata would be accepted and overwrite audio'), None)

    from rules.C09 import reject_before_mutate
    reject_before_mutate(ctx, prog)

    # ------------------------------------------------------------------ LOOP-MODE
    ctx.rule('LOOP-MODE', 'WAV smpl chunk: the loop-type code the writer emits for SF_LOOP_FORWARD / BACKWARD / ALTERNATING is mapped back to the same mode by the reader switch '
             '(writer: conditional chain on loops [].mode in wav_write_header; reader: switch in wav_read_smpl_chunk)', floor=3)
    from engine.arms import switch_arm_stmts
    from engine.util import assigned_lvalues
    E = prog.enums
    w = prog.fn('wav_write_header', 'wav.c')
    wmap = {}

    def chain(f_, n_):
        n_ = f_.unwrap(n_)
        if n_['k'] != 'ConditionalOperator':
            return
        c_, a_, b_ = [f_.N[k_] for k_ in n_['kids']]
        cu = f_.unwrap(c_)
        if cu['k'] == 'BinaryOperator' and cu.get('op') == '==':
            kv = f_.unwrap(f_.N[cu['kids'][1]]).get('v')
            av = f_.unwrap(a_).get('v')
            if kv is not None and av is not None:
                wmap[kv] = av
        chain(f_, b_)
    for lv, a, r in assigned_lvalues(w):
        if r is not None and w.unwrap(r)['k'] == 'ConditionalOperator' and 'SF_LOOP_' in w.s(r):
            chain(w, r)
    rd = prog.fn('wav_read_smpl_chunk', 'wav.c')
    rmap = {}
    for sw in [n for n in rd.walk() if n['k'] == 'SwitchStmt']:
        for vals, names, has_def, stmts in switch_arm_stmts(rd, sw):
            for st in stmts:
                for lv, a, r in assigned_lvalues(rd, st):
                    if lv.endswith('.mode') and r is not None and rd.unwrap(r).get('v') is not None:
                        for v in vals:
                            rmap[v] = rd.unwrap(r)['v']
    ctx.require(len(wmap) >= 3 and len(rmap) >= 3, 'loop mode tables not found (writer %s, reader %s)' % (wmap, rmap))
    names = {E[k]: k for k in ('SF_LOOP_NONE', 'SF_LOOP_FORWARD', 'SF_LOOP_BACKWARD', 'SF_LOOP_ALTERNATING') if k in E}
    for mode, code in sorted(wmap.items()):
        back = rmap.get(code)
        ctx.ob('LOOP-MODE', names.get(mode, str(mode)), back == mode, rd.loc(rd.body), 'writer code %s for %s is read back as %s' % (code, names.get(mode, mode), names.get(back, back)), None)

    ctx.rule('STR-GROW', 'psf_store_string: when storage_used + needed exceeds storage_len, the new length has a lower bound L (an arm of its max / the assigned expression) with '
             'L - (storage_used + needed) >= 0 for all sizes, given storage_used <= storage_len: the copy to storage + storage_used stays inside the reallocated block', floor=2)
    from engine.strgrow import str_grow
    str_grow(ctx, prog)

    ctx.rule('ENDIAN-ONCE', 'WAV is written and parsed in the byte order announced by its RIFF / RIFX marker (psf->rwf_endian, set once): in wav.c and wavlike.c no psf_binheader_readf / '
             'psf_binheader_writef format names a byte order (`e` / `E`, which stay in force for every following field) except the one that emits the RIFF / RIFX marker itself', floor=80)
    neo = 0
    for g in sorted(prog.lib_fns(), key=lambda g: (g.file, g.line)):
        if g.file.split('/')[-1] not in ('wav.c', 'wavlike.c'):
            continue
        for c in g.calls(('psf_binheader_readf', 'psf_binheader_writef')):
            fm = g.unwrap(g.args(c)[1])
            fs_ = fm.get('s') if fm.get('k') == 'StringLiteral' else None
            if fs_ is None:
                continue
            neo += 1
            if not any(ch in 'eE' for ch in fs_):
                ctx.rules['ENDIAN-ONCE']['inst'].append({'key': '%s@%d' % (g.name, neo), 'ok': True, 'where': g.loc(c), 'msg': 'format "%s" names no byte order' % fs_, 'fact': None})
                continue
            def mk(t):
                a_, b_, c_, d_ = [ord(ch) for ch in t]
                return {a_ | (b_ << 8) | (c_ << 16) | (d_ << 24), (a_ << 24) | (b_ << 16) | (c_ << 8) | d_}
            marks = mk('RIFF') | mk('RIFX')
            ismark = any(x.get('m') in ('RIFF_MARKER', 'RIFX_MARKER') or (x.get('v') in marks) for a in g.args(c) for x in g.walk(g.unwrap(a)))
            ctx.ob('ENDIAN-ONCE', '%s:"%s"' % (g.name, fs_), ismark, g.loc(c), 'format "%s" %s' % (fs_, 'emits the RIFF / RIFX marker' if ismark else
                   'switches the byte order for this and every following field: on a big-endian (RIFX) file the chunk and everything after it (including the data chunk size, and on reading the sample byte order) is handled little-endian'), None)
    ctx.require(neo >= 80, 'only %d binheader calls found in wav.c / wavlike.c' % neo)


    ctx.rule('LAYOUT-TABLE', 'chanmap.c: the two look-ups (channel map -> layout tag on writing, tag -> channel map on reading) are inverse on every entry that has a map: for every entry with a map, '
             'the tag of the first entry holding that map (what the writer stores) is resolved by the reader (first entry with that tag) to the same map; every tag carries n in its low 16 bits '
             '(the reader selects the table by them), every referenced map has exactly n entries, and map [n] points at the table for n channels with its true length', floor=40)
    mm = prog.global_('map')
    ctx.require(mm is not None and mm.get('init'), 'chanmap.c: table `map` not found')
    n_lt = 0
    for nch, ent in enumerate(mm['init']):
        tname = ent[0].get('ref') if isinstance(ent[0], dict) else None
        tab = prog.global_(tname) if tname else None
        ctx.require(tab is not None and tab.get('init') is not None, 'chanmap.c: map [%d] does not reference a table' % nch)
        where = 'src/chanmap.c:%d' % tab['line']
        n_lt += 1
        ctx.ob('LAYOUT-TABLE', 'map[%d]:len' % nch, ent[1] == tab['alen'], where, 'map [%d] = { %s, %d }; the table has %d entries' % (nch, tname, ent[1], tab['alen']), None)
        rows = []
        for row in tab['init']:
            mref = row[1]
            mg = prog.global_(mref['ref']) if isinstance(mref, dict) and mref.get('ref') else None
            rows.append((row[0], tuple(mg['init']) if mg is not None and mg.get('init') is not None else None, mg['alen'] if mg is not None else None, row[2], mref.get('ref') if isinstance(mref, dict) else None))
        for tag, km, mlen, nm, mname in rows:
            n_lt += 1
            probs = []
            if (tag & 0xffff) != nch and nch > 0:
                probs.append('its low 16 bits say %d channels but it sits in the table for %d: the reader looks it up in another table' % (tag & 0xffff, nch))
            if km is not None:
                if mlen != nch:
                    probs.append('its map %s has %d entries, not %d' % (mname, mlen, nch))
                # the writer stores the tag of the first entry with this map, the reader returns the first entry with that tag
                wtag = next(t for t, k2, l2, n2, m2 in rows if k2 == km)
                back = next((k2, n2) for t, k2, l2, n2, m2 in rows if t == wtag)
                if back[0] != km:
                    probs.append('a file written with this map gets tag (%d << 16) | %d, which the reader resolves to "%s" - a different map' % (wtag >> 16, wtag & 0xffff, back[1]))
            else:
                first = next(n2 for t, k2, l2, n2, m2 in rows if t == tag)
                if first != nm:
                    probs.append('the tag is already used by "%s"' % first)
            ctx.ob('LAYOUT-TABLE', '%s:%s' % (tname, str(nm)[:40]), not probs, where, 'tag (%d << 16) | %d%s' % (tag >> 16, tag & 0xffff, '' if not probs else ': ' + '; '.join(probs)), None)
    ctx.require(n_lt >= 40, 'only %d layout entries found' % n_lt)

    ctx.rule('RW-ORDER', 'a record that one psf_binheader_writef call serialises field by field (two or more fields of one struct type) is parsed by the container\'s psf_binheader_readf call - into the '
             'fields directly, or into locals that are then stored into the fields - in the same field order (cue points, bext, cart timers, PEAK positions, CAF desc ...): two equally wide '
             'fields in exchanged order come back exchanged and nothing else notices', floor=20)
    from engine.rworder import rw_order
    n_rw = rw_order(ctx, prog)
    ctx.require(n_rw >= 20, 'only %d writer / reader field sequences paired' % n_rw)

    ctx.rule('PSTR-AGREE', 'AIFF MARK chunk: the chunk length aiff_write_header announces for each cue name (its own arithmetic on strlen) equals the number of bytes the `p` (Pascal string) arm of '
             'psf_binheader_writef emits for that name, for every name length 0..255 that SF_CUE_POINT.name can hold (both expression chains evaluated exactly for each n): a chunk '
             'announced longer than it is written makes everything after it unreadable', floor=1)
    wf_ = prog.fn('psf_binheader_writef', 'common.c')
    ah_ = prog.fn('aiff_write_header', 'aiff.c')
    from engine.arms import switch_arm_stmts as _sas12

    def _ev12(f_, n_, env):
        n_ = f_.unwrap(n_)
        k_ = n_['k']
        if n_.get('v') is not None and k_ != 'DeclRefExpr':
            return n_['v']
        if k_ == 'DeclRefExpr':
            return env[n_['n']]
        if k_ == 'CallExpr' and n_.get('callee') == 'strlen':
            return env['#strlen']
        if k_ == 'ConditionalOperator':
            c_, a_, b_ = n_['kids']
            return _ev12(f_, f_.N[a_], env) if _ev12(f_, f_.N[c_], env) else _ev12(f_, f_.N[b_], env)
        if k_ == 'BinaryOperator':
            x_, y_ = _ev12(f_, f_.N[n_['kids'][0]], env), _ev12(f_, f_.N[n_['kids'][1]], env)
            return {'+': x_ + y_, '-': x_ - y_, '*': x_ * y_, '&': x_ & y_, '|': x_ | y_, '/': x_ // y_ if y_ else 0, '%': x_ % y_ if y_ else 0, '==': int(x_ == y_), '!=': int(x_ != y_),
                    '<': int(x_ < y_), '>': int(x_ > y_), '<=': int(x_ <= y_), '>=': int(x_ >= y_)}[n_['op']]
        raise KeyError(k_)
    # writer: the statements of the 'p' arm that assign `size`, in order; bytes emitted = 1 + size
    p_arm = None
    for sw_ in [n for n in wf_.walk() if n['k'] == 'SwitchStmt']:
        for vals_, names_, hd_, stmts_ in _sas12(wf_, sw_):
            if ord('p') in vals_:
                p_arm = stmts_
    ctx.require(p_arm is not None, "psf_binheader_writef has no 'p' arm")
    size_defs = [(a, r) for st in p_arm for lv, a, r in assigned_lvalues(wf_, st) if lv == 'size' and r is not None and a.get('op') == '=']
    # caller: stringLength = ... ; totalStringLength += <expr over stringLength>
    sl_defs = [(a, r) for lv, a, r in assigned_lvalues(ah_) if lv == 'stringLength' and r is not None and a.get('op') == '=']
    tot = [(a, r) for lv, a, r in assigned_lvalues(ah_) if lv == 'totalStringLength' and r is not None and a.get('op') == '+=']
    ctx.require(size_defs and sl_defs and tot, 'PSTR-AGREE: expression chains not found (size: %d, stringLength: %d, total: %d)' % (len(size_defs), len(sl_defs), len(tot)))
    bad_ = []
    try:
        for n0 in range(256):
            env = {'#strlen': n0}
            for a, r in size_defs:
                env['size'] = _ev12(wf_, r, env)
            written = 1 + env['size']
            env2 = {'#strlen': n0}
            env2['stringLength'] = _ev12(ah_, sl_defs[0][1], env2)
            announced = _ev12(ah_, tot[0][1], env2)
            if written != announced:
                bad_.append((n0, announced, written))
        ctx.ob('PSTR-AGREE', 'aiff_write_header:MARK', not bad_, ah_.loc(tot[0][0]), 'announced = written for every name length 0..255' if not bad_ else
               'for name lengths %s the MARK chunk announces %s bytes per name but %s are written: the chunk is shorter than its length field and the file cannot be re-opened' % (
                   [b[0] for b in bad_[:4]], [b[1] for b in bad_[:4]], [b[2] for b in bad_[:4]]), None)
    except KeyError as e_:
        ctx.ob('PSTR-AGREE', 'aiff_write_header:MARK', False, ah_.loc(tot[0][0]), 'length expression uses a construct the evaluator does not model (%s)' % e_, None)

    from engine.run import borrow
    borrow(ctx, 'C11', ['WH-NOGROW'], 'metadata set too late (a string replaced after the audio was written) must never alter the audio: the variable-length header writers keep the data offset - fill a shorter header, refuse a longer one before writing it')

    ctx.rule('TERM-AT-READ', 'header readers: where a text field is read with psf_binheader_readf (... "b", buf, N) and then terminated by `buf [E] = 0`, E is not beyond what was read: N - E, as a linear form, '
             'has no negative term (the pad term `(size & 1)` counts as non-negative). A terminator placed behind the bytes read leaves characters of the chunk parsed before in the string', floor=8)
    from engine.bufacc import lin as _lin12, ladd as _ladd12
    n_tr = 0
    for f_ in sorted(prog.lib_fns(), key=lambda f__: (f__.file, f__.line)):
        if not (f_.name.endswith('_read_header') or 'subchunk' in f_.name or f_.name.endswith('_parse')):
            continue
        stores = [(a_, f_.unwrap(f_.N[a_['kids'][0]])) for lv_, a_, r_ in assigned_lvalues(f_) if r_ is not None and f_.unwrap(r_).get('v') == 0 and f_.unwrap(f_.N[a_['kids'][0]]).get('k') == 'ArraySubscriptExpr']
        for c_ in f_.calls('psf_binheader_readf'):
            args = f_.args(c_)
            fm = f_.unwrap(args[1]).get('s') or ''
            if not fm.rstrip('eE').endswith('b') or len(args) < 4:
                continue
            buf, N = f_.s(f_.unwrap(args[-2])), f_.unwrap(args[-1])
            # the terminating store that follows the read in the same block
            pc = f_.cfg.point(c_)
            nxt = [(a_, l_) for a_, l_ in stores if f_.s(f_.unwrap(f_.N[l_['kids'][0]])) == buf and f_.cfg.point(a_) is not None and pc is not None and f_.cfg.point(a_)[0] == pc[0] and f_.cfg.point(a_)[1] > pc[1]]
            if not nxt:
                continue
            a_, l_ = sorted(nxt, key=lambda x_: f_.cfg.point(x_[0])[1])[0]
            try:
                D = _ladd12(_lin12(f_, N), _lin12(f_, f_.unwrap(f_.N[l_['kids'][1]])), -1)
            except Exception:
                continue
            n_tr += 1
            neg = {k_: v_ for k_, v_ in D.items() if v_ < 0}
            other = {k_: v_ for k_, v_ in D.items() if v_ > 0 and k_ != '' and '& 1' not in k_}
            ok = not neg
            ctx.ob('TERM-AT-READ', '%s@%s' % (f_.name, c_.get('l')), ok, f_.loc(a_), '`%s` terminates within the %s bytes read (difference %s)' % (f_.s(a_)[:40], f_.s(N)[:40], D) if ok else
                   '`%s` puts the terminator behind the `%s` bytes that were read (read - index = %s): the string keeps characters left in the buffer by an earlier chunk' % (f_.s(a_)[:40], f_.s(N)[:50], D), None)
    ctx.require(n_tr >= 8, 'only %d read-then-terminate sites found' % n_tr)

    ctx.rule('GUARD-FIELD', 'sf_command: a "too late" guard of the form `psf->F == NULL && psf->have_written` lets a repeated set of an item through when the item already exists; the F it tests is the '
             'field that the setter called next in the same arm stores (broadcast_var_set -> psf->broadcast_16k, cart_var_set -> psf->cart_16k): a guard that tests the neighbour\'s field lets a first '
             'cart through after the audio whenever a bext exists - the header no longer fits in front of the data', floor=2)
    sc_ = prog.fn('sf_command', 'sndfile.c')
    n_gf = 0
    for x in sc_.walk():
        if x['k'] != 'IfStmt':
            continue
        cs = sc_.s(x['cond'])
        if 'have_written' not in cs:
            continue
        flds = [m_ for m_ in sc_.walk(sc_.N[x['cond']]) if m_['k'] == 'MemberExpr' and m_.get('n') != 'have_written' and (m_.get('t') or '').rstrip().endswith('*')]
        if not flds:
            continue
        F = sc_.s(flds[0])
        # the first call after the guard in source order whose callee stores into a handle field of pointer type
        after = sorted([c_ for c_ in sc_.calls() if (c_.get('l'), c_.get('c')) > (x.get('l'), x.get('c')) and c_.get('callee') in prog.fns], key=lambda c_: (c_.get('l'), c_.get('c')))
        setter = None
        for c_ in after[:3]:
            g_ = prog.fns[c_['callee']][0]
            st_ = {lv_ for lv_, a_, r_ in assigned_lvalues(g_) if lv_.startswith('psf->') and lv_.count('->') == 1}
            if st_:
                setter = (g_, st_)
                break
        if setter is None:
            continue
        n_gf += 1
        ok = F in setter[1]
        ctx.ob('GUARD-FIELD', '%s:%s' % (setter[0].name, F), ok, sc_.loc(x), 'the guard `%s` tests the field that %s stores' % (cs[:60], setter[0].name) if ok else
               'the guard `%s` tests %s, but the setter called in this arm, %s, stores %s: the item can be set for the first time after the audio has been written' % (cs[:60], F, setter[0].name, sorted(setter[1])), None)
    ctx.require(n_gf >= 2, 'only %d too-late guards with a setter found in sf_command' % n_gf)

    ctx.rule('LOOP-ACCOUNT', 'a parse loop that runs while a byte counter is below the length of its chunk (`while (bytesread < chunk_length)`, counter fed by `+= psf_binheader_readf (...)` at least '
             'twice) accounts for every psf_binheader_readf of its body: the result is added to the counter directly, or kept in a local that is added to it, or the read is followed by leaving the '
             'loop. A read (a skip of a string that is too long) that is not accounted for makes the loop run past the end of its chunk and swallow the chunks that follow - bext, cart, cue, smpl', floor=2)
    n_la = 0
    for f_ in sorted(prog.lib_fns(), key=lambda f__: (f__.file, f__.line)):
        for lp in f_.walk():
            if lp['k'] not in ('WhileStmt', 'ForStmt', 'DoStmt') or 'cond' not in lp:
                continue
            cn = f_.unwrap(f_.N[lp['cond']])
            if cn.get('k') != 'BinaryOperator' or cn.get('op') not in ('<', '<='):
                continue
            X = f_.s(f_.unwrap(f_.N[cn['kids'][0]]))
            calls = list(f_.calls('psf_binheader_readf', root=f_.N[lp['body']]))
            def _par(c):
                par = f_.N[f_.parent[c['id']]]
                while par['k'] in ('ImplicitCastExpr', 'ParenExpr', 'CStyleCastExpr'):
                    par = f_.N[f_.parent[par['id']]]
                return par
            direct = [c for c in calls if _par(c)['k'] == 'CompoundAssignOperator' and _par(c).get('op') == '+=' and f_.s(_par(c)['kids'][0]) == X]
            if len(direct) < 2:
                continue
            n_la += 1
            added = {f_.s(f_.unwrap(r_)) for lv_, a_, r_ in assigned_lvalues(f_, f_.N[lp['body']]) if lv_ == X and a_.get('op') == '+=' and r_ is not None}
            bad = []
            for c in calls:
                if c in direct:
                    continue
                par = _par(c)
                if par['k'] == 'BinaryOperator' and par.get('op') == '=' and f_.s(par['kids'][0]) in added:
                    continue
                # the read is the last thing before the loop is left: from it no path leads back to the loop condition
                pc = f_.cfg.point(c)
                pl = f_.cfg.point(f_.N[lp['cond']]) if isinstance(lp['cond'], int) else f_.cfg.point(lp['cond'])
                if pc is not None and pl is not None and f_.cfg.path_avoiding(pc, {pl[0]}, set()) is None:
                    continue
                bad.append(c)
            ctx.ob('LOOP-ACCOUNT', '%s@%s' % (f_.name, lp.get('l')), not bad, f_.loc(bad[0]) if bad else f_.loc(lp), '%d read(s) in the loop over `%s`, all accounted for' % (len(calls), X) if not bad else
                   '`%s` reads or skips bytes inside the loop over `%s` without adding them to it: the loop runs past the end of its chunk and parses the following chunks as sub-chunks' % (f_.s(bad[0])[:70], X), None)
    ctx.require(n_la >= 2, 'only %d byte-counted parse loops found' % n_la)

    ctx.rule('TEXT-SKIP', 'in the chunk parsers (aiff_read_header, wavlike_subchunk_parse, ...) a text chunk that is too large for the local scratch buffer (a test of its size against the capacity of a local '
             'array / BUF_UNION, within 2 bytes) is skipped - the branch contains a `j` skip of that chunk and neither jumps out of the chunk list nor returns an error: one over-long string the '
             'writer accepted must not make the file unreadable (AIFF) or lose every string after it (WAV LIST)', floor=8)
    n_ts = 0
    for f in sorted(prog.lib_fns(), key=lambda f: (f.file, f.line)):
        if not ('read_header' in f.name or f.name == 'wavlike_subchunk_parse'):
            continue            # exif_subchunk_parse only logs: nothing it gives up on is metadata the library stores
        caps = set()
        for n in f.walk():
            if n['k'] == 'DeclStmt':
                for d in n.get('decls') or []:
                    t = d.get('t') or ''
                    if ('[' in t and d.get('sz', 0) >= 256 and 'char' in t) or t == 'BUF_UNION':
                        caps.add(8192 if t == 'BUF_UNION' else d['sz'])
        if not caps:
            continue
        for x in f.walk():
            if x['k'] != 'IfStmt':
                continue
            cn = f.unwrap(f.N[x['cond']])
            hits = [y for y in f.walk(cn) if y['k'] == 'BinaryOperator' and y.get('op') in ('>=', '>') and f.unwrap(f.N[y['kids'][1]]).get('v') is not None
                    and any(K - 2 <= f.unwrap(f.N[y['kids'][1]])['v'] <= K for K in caps) and 'file.name' not in f.s(y) and 'channels' not in f.s(y)]
            if not hits:
                continue
            th = f.N[x['then']]
            skip = any((f.unwrap(f.args(c)[1]).get('s') or '') == 'j' for c in f.calls('psf_binheader_readf', root=th))
            gotos = [y for y in f.walk(th) if y['k'] == 'GotoStmt']
            errret = [y for y in f.walk(th) if y['k'] == 'ReturnStmt' and y.get('kids') and (f.s(f.unwrap(f.N[y['kids'][0]])).startswith('SFE_') or f.unwrap(f.N[y['kids'][0]]).get('dk') == 'enum' or
                      (f.unwrap(f.N[y['kids'][0]]).get('k') != 'DeclRefExpr' and f.unwrap(f.N[y['kids'][0]]).get('v') not in (0, None)))]
            n_ts += 1
            ok = skip and not gotos and not errret
            ctx.ob('TEXT-SKIP', '%s@%d' % (f.name, x['l']), ok, f.loc(x), '`%s`: %s' % (f.s(hits[0])[:40], 'the over-long chunk is skipped and parsing goes on' if ok else (
                   'the parser %s: %s' % ('returns an error' if errret else 'jumps out of the chunk list' if gotos else 'does not skip the chunk',
                                          'a file the library wrote itself (a long string is accepted by sf_set_string) cannot be opened again' if errret else 'every string after the long one is lost'))), None)
    ctx.require(n_ts >= 8, 'only %d scratch-buffer size guards found in the chunk parsers' % n_ts)

    ctx.rule('LIMIT-AGREE', 'bext / cart: the largest chunk the setter lets through (SFC_SET_BROADCAST_INFO / SFC_SET_CART_INFO refuse datasize >= S; the chunk written is at most S - 1 bytes) is not '
             'larger than the largest chunk the reader accepts (the smallest constant K of its refusals `chunksize > K` / `chunksize >= K`, folded): an item that was set successfully must not be '
             'dropped as too big when the file is opened again', floor=2)

    def _refusal_caps(g, var, want_skip):
        caps = []
        for n in g.walk():
            if n['k'] != 'IfStmt':
                continue
            th = g.N[n['then']]
            if not any(y['k'] == 'ReturnStmt' for y in g.walk(th)):
                continue
            # every disjunct of the refusing condition refuses on its own (`a < MIN || a > MAX || a >= sizeof (x)`)
            todo = [g.unwrap(g.N[n['cond']])]
            while todo:
                cn = todo.pop()
                if cn.get('k') == 'BinaryOperator' and cn.get('op') == '||':
                    todo += [g.unwrap(g.N[k_]) for k_ in cn['kids']]
                    continue
                if cn.get('k') != 'BinaryOperator' or cn.get('op') not in ('>', '>='):
                    continue
                l_, r_ = g.unwrap(g.N[cn['kids'][0]]), g.N[cn['kids'][1]]
                v_ = r_.get('v', g.unwrap(r_).get('v'))
                if g.s(l_) != var or v_ is None:
                    continue
                caps.append(v_ if cn['op'] == '>' else v_ - 1)       # largest value that passes this test
        return caps
    for tag, reader, setter, writer, rec in (('bext', 'wavlike_read_bext_chunk', 'broadcast_var_set', 'wavlike_write_bext_chunk', 'SF_BROADCAST_INFO_16K'),
                                             ('cart', 'wavlike_read_cart_chunk', 'cart_var_set', 'wavlike_write_cart_chunk', 'SF_CART_INFO_16K')):
        rg, sg, wg = prog.fn(reader, 'wavlike.c'), prog.fn(setter), prog.fn(writer, 'wavlike.c')
        rcaps = _refusal_caps(rg, 'chunksize', True)
        scaps = _refusal_caps(sg, 'datasize', False)
        # the struct carries its variable part at offsetof (last member); on disk it follows K fixed bytes (the constant of `K + x->..._size` in the writer)
        var_off = prog.records[rec]['fields'][-1]['off']
        ks = [g_.unwrap(g_.N[y['kids'][0]]).get('v', g_.unwrap(g_.N[y['kids'][1]]).get('v')) for g_ in (wg,) for c_ in g_.calls('psf_binheader_writef') for a_ in g_.args(c_)[2:]
              for y in g_.walk(g_.unwrap(a_)) if y['k'] == 'BinaryOperator' and y.get('op') == '+' and '_size' in g_.s(y)]
        ks = [k_ for k_ in ks if k_]
        ctx.require(rcaps and scaps and ks, 'LIMIT-AGREE: %s reader caps %s, setter caps %s, fixed part %s' % (tag, rcaps, scaps, ks))
        rmax, smax = min(rcaps), min(scaps) - var_off + ks[0]
        ok = rmax >= smax
        ctx.ob('LIMIT-AGREE', tag, ok, rg.loc(rg.body), '%s accepts chunks up to %d bytes, %s lets items through that make chunks of up to %d bytes%s' % (reader, rmax, setter, smax, '' if ok else
               ': an item between the two limits is written and then dropped on reading (the get command fails after re-open)'), None)

    ctx.rule('ITEM-INDEP', 'in the header writers no metadata item is written only when ANOTHER item is absent: a condition that requires `psf-><A> == NULL` does not guard a branch that serialises '
             'psf-><B> (A, B among instrument, cues, broadcast_16k, cart_16k, peak_info, channel_map): setting one item must never suppress another (AIFF lost its cue points as soon as an '
             'instrument was set too)', floor=10)
    ITEMS = ('instrument', 'cues', 'broadcast_16k', 'cart_16k', 'peak_info', 'channel_map')
    tgw = prog.slots.get(('sf_private_tag', 'write_header'), {})
    n_ii = 0
    for name in sorted(tgw):
        if name in ('NULL', '?') or name.startswith('@'):
            continue
        for f in prog.fns.get(name, []):
            for x in f.walk():
                if x['k'] != 'IfStmt':
                    continue
                cs = f.s(x['cond']).replace(' ', '')
                mentioned = [it for it in ITEMS if 'psf->%s' % it in cs]
                if not mentioned:
                    continue
                n_ii += 1
                absent = [it for it in mentioned if ('psf->%s==0' % it) in cs or ('psf->%s==NULL' % it) in cs or ('!psf->%s' % it) in cs]
                th = f.N[x['then']]
                written = {it for it in ITEMS for y in f.walk(th) if y['k'] == 'MemberExpr' and y.get('rec') == 'sf_private_tag' and y['n'] == it}
                bad = [(a_, b_) for a_ in absent for b_ in written if a_ != b_]
                ctx.ob('ITEM-INDEP', '%s@%d' % (name, x['l']), not bad, f.loc(x), '`%s`' % f.s(x['cond'])[:70] + ('' if not bad else
                       ': psf->%s is written only when psf->%s is absent - setting the one makes the other disappear from the file' % (bad[0][1], bad[0][0])), None)
    ctx.require(n_ii >= 10, 'only %d item guards found in the header writers' % n_ii)
