"""C09 — invalid calls fail cleanly; valid calls leave no error."""
import json, os
from engine.wrappers import sheet, guards, diff, TYPES
from engine.facts import VERIF
from engine.effects import writes_of, lvalue_root
from engine.util import assigned_lvalues

EXPLANATION = ('Decides: (ENTRY) every public function taking a handle validates it (NULL test, magic test) before any other use and clears the error, except the frozen '
               'error-query / light-weight sets; (GUARD-ERR) every rejecting early return of an API function records a non-zero SFE_* code (psf->error or sf_errno) or returns one, '
               'and performs no other state write (NO-EFFECT) apart from zero-filling the caller buffer at end of data; (WRAPPER) the 16 typed read/write wrappers agree, family by family, '
               'on the ordered guard list, error codes, return values and position updates (normalised fact sheets) and match the frozen contract; (ERRTABLE) the error table covers '
               '0..SFE_MAX_ERROR-1 exactly once with non-empty strings and sf_error_number returns a non-empty string on every path; (ERR-QUERY) error getters never clear or set the '
               'error; (OPEN-FAIL) failing opens pass psf_close and set sf_errno. Histories of interleaved valid/invalid calls and file-content preservation are NOT decided.')
NOT_DECIDED = ['interleavings of valid and invalid calls as histories', 'file contents unchanged after a rejected call', 'psf_store_string clears a same-type entry before some of its rejections (triaged: see DESIGN.md)']
ASSUMPTIONS = ['functions of the chunk API return the error code instead of recording it (upstream contract): accepted as recording-equivalent']

ERR_QUERY = {'sf_error', 'sf_strerror', 'sf_perror', 'sf_error_str'}
LIGHT = {'sf_get_string': 'returns NULL for a bad handle (no error channel for a const char* getter)', 'sf_current_byterate': 'returns -1 for a bad handle',
         'sf_write_sync': 'void function'}
NO_HANDLE = {'sf_open', 'sf_open_fd', 'sf_open_virtual', 'sf_error_number', 'sf_format_check', 'sf_version_string', 'sf_command'}
RETURNS_CODE = {'sf_set_chunk', 'sf_get_chunk_size', 'sf_get_chunk_data', 'sf_error_str', 'sf_set_string', 'sf_close', 'sf_perror'}


def reject_before_mutate(ctx, prog, rule='REJECT-FIRST'):
    """in a setter that reports failure by a non-zero SFE_* return value, no failing return may be reachable after a store into handle state"""
    ctx.rule(rule, 'psf_store_string (the worker behind sf_set_string): every return of a non-zero SFE_* code is unreachable from any store into psf->strings.* (validation precedes mutation, so a rejected '
             'call leaves the stored metadata unchanged)', floor=5)
    from engine.effects import writes_of as _w, lvalue_root as _r
    for name, file in (('psf_store_string', 'strings.c'),):
        f = prog.fn(name, file)
        stores = []
        for lhs, n, kind in _w(f):
            root = _r(f, lhs)
            ls = f.s(lhs)
            if root['k'] == 'DeclRefExpr' and root['n'] == 'psf' and not ls.endswith('->error'):
                stores.append(n)
        k = 0
        for r in f.cfg.returns():
            if not r['kids']:
                continue
            e = f.unwrap(f.N[r['kids'][0]])
            if e.get('v') in (None, 0):
                continue
            k += 1
            rp = f.cfg.point(r)
            bad = []
            for st in stores:
                sp = f.cfg.point(st)
                if sp is None or rp is None:
                    continue
                if (sp[0] == rp[0] and sp[1] < rp[1]) or f.cfg.path_avoiding(sp, {rp[0]}, set()) is not None:
                    bad.append(st)
            ctx.ob(rule, '%s:return %s' % (name, f.s(e)), not bad, f.loc(r), 'rejection %s %s' % (f.s(e), 'happens before any store into the handle' if not bad else
                   'is reachable AFTER the handle was already modified at %s: a rejected call changes the stored metadata' % [f.loc(x) for x in bad[:3]]), None)


def wrapper_rule(ctx, prog):
    # ------------------------------------------------------------------ WRAPPER
    ctx.rule('WRAPPER', 'within each family (read items, read frames, write items, write frames) the four typed wrappers have identical normalised fact sheets (ordered guards, '
             'error codes, return values, slot called, position / frame-count updates, zero fill sizes); each family reference and the two raw variants contain every required guard (in order) and update of the documented contract (required-fact table in the rule)', floor=16)
    fams = {'read': 'sf_read_%s', 'readf': 'sf_readf_%s', 'write': 'sf_write_%s', 'writef': 'sf_writef_%s'}
    # required facts per family, from docs/api.md and DESIGN.md Appendix B.1 (not a frozen copy of the source: only these facts are required,
    # in this order for guards; anything else may be added freely)
    RG = {'len0': ('== 0)', None), 'neg': ('<= 0)', 'SFE_NEGATIVE_RW_LEN'), 'nullh': ('(sndfile == 0)', 'SFE_BAD_SNDFILE_PTR'), 'magic': ('->Magick !=', 'SFE_BAD_SNDFILE_PTR'),
          'rmode': ('(psf->file.mode == SFM_WRITE)', 'SFE_NOT_READMODE'), 'wmode': ('(psf->file.mode == SFM_READ)', 'SFE_NOT_WRITEMODE'),
          'ralign': ('% psf->sf.channels)', 'SFE_BAD_READ_ALIGN'), 'walign': ('% psf->sf.channels)', 'SFE_BAD_WRITE_ALIGN'),
          'rawralign': ('% (psf->sf.channels * bytewidth))', 'SFE_BAD_READ_ALIGN'), 'rawwalign': ('% (psf->sf.channels * bytewidth))', 'SFE_BAD_WRITE_ALIGN'),
          'negraw': ('(bytes < 0)', 'SFE_NEGATIVE_RW_LEN'), 'eof': ('(psf->read_current >= psf->sf.frames)', None), 'rslot': ('(psf->read_T == 0)', 'SFE_UNIMPLEMENTED'), 'wslot': ('(psf->write_T == 0)', 'SFE_UNIMPLEMENTED')}
    CONTRACT = {
        'read': (['len0', 'nullh', 'magic', 'neg', 'rmode', 'ralign', 'eof', 'rslot'],
                 ['(psf->last_op != SFM_READ)', 'psf->seek(psf, SFM_READ, psf->read_current)', '(count = psf->read_T(psf, ptr, len))', '(psf->read_current += (count / psf->sf.channels))',
                  '(count = ((psf->sf.frames - psf->read_current) * psf->sf.channels))', 'psf_memset((ptr + count), 0, ((len - count) * sizeof(T)))', '(psf->read_current = psf->sf.frames)',
                  '(psf->last_op = SFM_READ)', '["return", "count"]', 'psf_memset(ptr, 0, (len * sizeof(T)))']),
        'readf': (['len0', 'nullh', 'magic', 'neg', 'rmode', 'eof', 'rslot'],
                  ['(psf->last_op != SFM_READ)', 'psf->seek(psf, SFM_READ, psf->read_current)', '(count = psf->read_T(psf, ptr, (frames * psf->sf.channels)))',
                   '(psf->read_current += (count / psf->sf.channels))', '(psf->read_current = psf->sf.frames)', '(psf->last_op = SFM_READ)', '["return", "(count / psf->sf.channels)"]',
                   'psf_memset(ptr, 0, ((frames * psf->sf.channels) * sizeof(T)))']),
        'write': (['len0', 'nullh', 'magic', 'neg', 'wmode', 'walign', 'wslot'],
                  ['(psf->last_op != SFM_WRITE)', 'psf->seek(psf, SFM_WRITE, psf->write_current)', '(psf->error = psf->write_header(psf, SF_FALSE))', '(psf->have_written = SF_TRUE)',
                   '(count = psf->write_T(psf, ptr, len))', '(psf->write_current += (count / psf->sf.channels))', '(psf->last_op = SFM_WRITE)', '(psf->write_current > psf->sf.frames)',
                   '(psf->sf.frames = psf->write_current)', '(psf->dataend = 0)', 'psf->write_header(psf, SF_TRUE)', '["return", "count"]']),
        'writef': (['len0', 'nullh', 'magic', 'neg', 'wmode', 'wslot'],
                   ['(psf->last_op != SFM_WRITE)', 'psf->seek(psf, SFM_WRITE, psf->write_current)', '(psf->error = psf->write_header(psf, SF_FALSE))', '(psf->have_written = SF_TRUE)',
                    '(count = psf->write_T(psf, ptr, (frames * psf->sf.channels)))', '(psf->write_current += (count / psf->sf.channels))', '(psf->last_op = SFM_WRITE)',
                    '(psf->sf.frames = psf->write_current)', '(psf->dataend = 0)', 'psf->write_header(psf, SF_TRUE)', '["return", "(count / psf->sf.channels)"]']),
        'read_raw': (['len0', 'nullh', 'magic', 'rmode', 'negraw', 'eof', 'rawralign'],
                     ['(psf->last_op != SFM_READ)', 'psf->seek(psf, SFM_READ, psf->read_current)', '(count = psf_fread(ptr, 1, bytes, psf))', '(psf->read_current += (count / blockwidth))',
                      '(psf->read_current = psf->sf.frames)', '(psf->last_op = SFM_READ)', '["return", "count"]']),
        'write_raw': (['len0', 'nullh', 'magic', 'neg', 'wmode', 'rawwalign'],
                      ['(psf->last_op != SFM_WRITE)', 'psf->seek(psf, SFM_WRITE, psf->write_current)', '(psf->error = psf->write_header(psf, SF_FALSE))', '(psf->have_written = SF_TRUE)',
                       '(count = psf_fwrite(ptr, 1, len, psf))', '(psf->write_current += (count / blockwidth))', '(psf->last_op = SFM_WRITE)', '(psf->sf.frames = psf->write_current)',
                       '(psf->dataend = 0)', 'psf->write_header(psf, SF_TRUE)', '["return", "count"]']),
    }

    def contract_check(f, sh, fam):
        req_g, req_t = CONTRACT[fam]
        g = guards(sh)
        pos = -1
        miss = []
        for name in req_g:
            sub, err = RG[name]
            found = None
            for i2 in range(pos + 1, len(g)):
                c, st, rv = g[i2]
                if sub in c and (err is None or any(err in x for x in st)):
                    found = i2
                    break
            if found is None:
                miss.append('guard %s (%s -> %s) missing or out of order' % (name, sub, err))
            else:
                pos = found
        flat = json.dumps(sh)
        for t in req_t:
            if json.dumps(t)[1:-1] not in flat and t not in flat:
                miss.append('required fact `%s` missing' % t)
        return miss

    for fam, pat in fams.items():
        ref = None
        for T in TYPES:
            f = prog.fn(pat % T, 'sndfile.c')
            sh = sheet(f, T)
            if ref is None:
                ref = sh
                miss = contract_check(f, sh, fam)
                ctx.ob('WRAPPER', '%s:contract' % f.name, not miss, f.loc(f.body), 'has every required guard (in order) and update of the documented contract' if not miss else '; '.join(miss[:4]), None)
                continue
            d = diff(ref, sh)
            ctx.ob('WRAPPER', '%s:sibling' % f.name, d is None, f.loc(f.body), 'same fact sheet as %s' % (pat % TYPES[0]) if d is None else
                   'differs from sibling %s at %s: sibling has %s, this has %s' % (pat % TYPES[0], d[0], json.dumps(d[1])[:200], json.dumps(d[2])[:200]), None)
    for fam, name in (('read_raw', 'sf_read_raw'), ('write_raw', 'sf_write_raw')):
        f = prog.fn(name, 'sndfile.c')
        miss = contract_check(f, sheet(f, None), fam)
        ctx.ob('WRAPPER', '%s:contract' % name, not miss, f.loc(f.body), 'has every required guard (in order) and update of the documented contract' if not miss else '; '.join(miss[:4]), None)



def run(ctx):
    prog = ctx.prog
    E = prog.enums
    api = sorted([f for f in prog.lib_fns() if f.name.startswith('sf_') and not f.static and f.file.endswith('sndfile.c')], key=lambda f: f.line)
    ctx.require(len(api) >= 38, 'only %d public functions found in sndfile.c' % len(api))

    # ------------------------------------------------------------------ ENTRY
    ctx.rule('ENTRY', 'every public function with a SNDFILE* / iterator handle tests the handle for NULL and checks the magic number before any other use of the handle, '
             'and clears psf->error on entry (error-query functions must NOT clear it; light-weight getters only validate)', floor=30)
    sheets = {}
    for f in api:
        sh = sheet(f, None)
        sheets[f.name] = sh
        hp = [q['n'] for q in f.params if 'SNDFILE' in q['t'] or 'sf_private_tag' in q['t'] or 'SF_CHUNK_ITERATOR' in q['t']]
        if not hp or f.name in NO_HANDLE - {'sf_command'}:
            continue
        g = guards(sh)
        conds = [c for (c, st, rv) in g]
        flat = json.dumps(sh)
        has_null = any(c.replace(' ', '') in ('(sndfile==0)', '((psf=sndfile)==0)') for c in conds) or '(sndfile == 0)' in flat
        has_magic = any('->Magick !=' in c for c in conds) or '->Magick !=' in flat
        clears = '(psf->error = 0)' in flat
        if f.name in ERR_QUERY:
            ok = has_null and has_magic and not clears
            msg = 'error query: NULL test %s, magic test %s, must not clear error: %s' % (has_null, has_magic, 'does not clear' if not clears else 'CLEARS the error')
        elif f.name in LIGHT:
            ok = has_null and (has_magic or f.name == 'sf_write_sync')
            msg = 'light-weight: NULL test %s, magic test %s (%s)' % (has_null, has_magic, LIGHT[f.name])
        else:
            ok = has_null and has_magic and clears
            msg = 'NULL test %s, magic test %s, clears error %s' % (has_null, has_magic, clears)
        # order: no access to other psf fields before the magic test
        if ok and f.name not in LIGHT:
            mi = next((i for i, c in enumerate(conds) if '->Magick !=' in c), None)
            if mi is not None:
                early = [c for c in conds[:mi] if 'psf->' in c and 'virtual_io' not in c and 'psf = sndfile' not in c]
                if early:
                    ok = False
                    msg += '; guard(s) %s evaluated BEFORE the magic test' % early
        ctx.ob('ENTRY', f.name, ok, f.loc(f.body), msg, None)

    # ------------------------------------------------------------------ GUARD-ERR / NO-EFFECT
    ctx.rule('GUARD-ERR', 'every top-level rejecting early return (constant failure value) of a public function stores a non-zero SFE_* constant into psf->error / sf_errno (or returns the '
             'SFE_* code itself in the error-code returning functions); frozen non-error returns: zero-length requests, end-of-data (must zero-fill the caller buffer), error already set', floor=150)
    ctx.rule('NO-EFFECT', 'the body of a rejecting early return contains nothing but the error store, logging, the end-of-data zero fill and (failed open) the release of the handle', floor=150)
    for f in api:
        g = guards(sheets[f.name])
        for i, (cond, stmts, rv) in enumerate(g):
            key = '%s:%s' % (f.name, cond[:60])
            try:
                const_ret = rv in ('0', '-1', '', 'SF_FALSE') or rv.startswith('SFE_') or rv.lstrip('-').isdigit()
            except AttributeError:
                const_ret = False
            if not const_ret:
                continue      # delegation / computed result, not a rejection
            stores_err = any(('->error = SFE_' in s or 'sf_errno = SFE_' in s or 'sf_errno = psf->error' in s) for s in stmts)
            # the guard itself stores what it tests: `if ((psf->error = f (...))) return`
            stores_err = stores_err or (cond.rstrip(')').count('(psf->error = ') > 0 and ' || ' not in cond)
            ret_code = rv.startswith('SFE_') and rv != 'SFE_NO_ERROR' and f.name in RETURNS_CODE
            zero_len = cond.replace(' ', '') in ('(len==0)', '(frames==0)', '(bytes==0)')
            eof = 'read_current >= psf->sf.frames' in cond
            already = cond.strip() in ('psf->error',)
            # a failing codec seek has recorded its error itself (decided for every function of the seek slot by C06 SEEK-ERR)
            seek_failed = 'psf->seek(psf, ' in cond and '< 0)' in cond and ' || ' not in cond
            light = f.name in LIGHT or f.name in ('sf_error', 'sf_error_number', 'sf_format_check')
            ok = stores_err or ret_code or zero_len or already or light or seek_failed
            why = 'records error' if stores_err else 'returns error code' if ret_code else 'zero-length request' if zero_len else 'error already set' if already else 'light-weight/query function' if light else 'failed codec seek: the seek function records the error (C06 SEEK-ERR)' if seek_failed else ''
            if eof and not stores_err:
                zf = any(s.startswith('psf_memset(ptr, 0,') for s in stmts)
                ok = zf and 'bytes < 0' not in cond
                why = 'end of data: zero-fills the caller buffer, no error by contract' if ok else (
                    'end-of-data guard also swallows a NEGATIVE count without recording an error' if 'bytes < 0' in cond else 'end-of-data guard does not zero-fill')
            ctx.ob('GUARD-ERR', key, ok, f.loc(f.body), 'guard `%s` -> return %s: %s' % (cond[:90], rv, why if ok else (why or 'NO error recorded')), stmts)
            # NO-EFFECT
            bad = [s for s in stmts if not ('->error = ' in s or s.startswith('(sf_errno = ') or s.startswith('psf_log_printf') or s.startswith('snprintf(sf_parselog')
                                            or s.startswith('psf_memset(ptr, 0') or s.startswith('psf_close(psf)') or s.startswith('printf(') or s.startswith('snprintf(data, datasize'))]
            ctx.ob('NO-EFFECT', key, not bad, f.loc(f.body), 'rejecting branch of `%s` %s' % (cond[:90], 'has no side effect besides error/log/zero-fill' if not bad else 'has side effects: %s' % bad), None)

    ctx.rule('ERR-PUBLISH', 'sf_open / sf_open_fd / sf_open_virtual: where a failing open publishes the handle\'s error (`sf_errno = psf->error`) under a test of a helper\'s return value, every return of a '
             'non-zero value in that helper is preceded by a store of a non-zero value into psf->error (or returns the assignment itself): otherwise sf_open returns NULL while sf_error (NULL) is 0', floor=1)
    n_ep = 0
    for name in ('sf_open', 'sf_open_fd', 'sf_open_virtual'):
        g = prog.fn(name, 'sndfile.c')
        for x in g.walk():
            if x['k'] != 'IfStmt':
                continue
            pubs = [a_ for lv_, a_, r_ in assigned_lvalues(g, g.N[x['then']]) if lv_ == 'sf_errno' and r_ is not None and g.s(g.unwrap(r_)) == 'psf->error']
            hc = [c_ for c_ in g.calls(root=g.N[x['cond']]) if c_.get('callee') in prog.fns]
            if not pubs or not hc:
                continue
            h = prog.fns[hc[0]['callee']][0]
            n_ep += 1
            bad = []
            for rt in h.cfg.returns():
                if not rt.get('kids'):
                    continue
                e = h.unwrap(h.N[rt['kids'][0]])
                if e.get('v') == 0:
                    continue
                es = h.s(e)
                if es.replace(' ', '').startswith('(psf->error=') or es == 'psf->error':
                    # returns the handle's error: it must have been stored non-zero on the way (or is what a callee left there)
                    if es == 'psf->error' and not any(lv_ == 'psf->error' and h.cfg.dominates(a_, rt) for lv_, a_, r_ in assigned_lvalues(h)):
                        pass
                    continue
                if e.get('v') is not None and e['v'] != 0:
                    stores = [a_ for lv_, a_, r_ in assigned_lvalues(h) if lv_ == 'psf->error' and h.cfg.dominates(a_, rt)]
                    if not stores:
                        bad.append(rt)
            ctx.ob('ERR-PUBLISH', '%s:%s' % (name, h.name), not bad, h.loc(bad[0]) if bad else g.loc(x), '%s publishes psf->error when %s fails; every failing return of %s has stored it' % (name, h.name, h.name) if not bad else
                   '%s returns `%s` without storing it into psf->error, and %s publishes psf->error (still 0) for that failure: the open returns NULL with no error set' % (h.name, h.s(h.N[bad[0]['kids'][0]])[:40], name), None)
    ctx.require(n_ep >= 1, 'no `sf_errno = psf->error` under a helper test found in the open functions')

    ctx.rule('OPEN-MODE', 'psf_open_file explored with an open mode that is none of SFM_READ / SFM_WRITE / SFM_RDWR (0, 1, 0x11, 0x21, 0x31, 0x40, 0x50, 0x130, -1; container RAW, which needs nothing from the '
             'file): no path reaches the success return and SFE_BAD_OPEN_MODE is recorded - sf_open_fd and sf_open_virtual store the caller\'s mode unchecked, this test is all there is', floor=9)
    from engine.peval import PEval as _PE9
    from engine.effects import Effects as _Ef9
    pe9 = _PE9(prog, sticky=('sf.format', 'file.mode', 'sf.channels', 'sf.samplerate', 'endian'), effects=_Ef9(prog))
    of9 = prog.fn('psf_open_file', 'sndfile.c')
    E9 = prog.enums
    fmt9 = E9['SF_FORMAT_RAW'] | E9['SF_FORMAT_PCM_16']
    for bad_mode in (0, 1, 0x11, 0x21, 0x31, 0x40, 0x50, 0x130, -1):
        env9 = {'psf->sf.format': fmt9, 'psf->sf.channels': 1, 'psf->sf.samplerate': 44100, 'sfinfo->format': fmt9, 'sfinfo->channels': 1, 'sfinfo->samplerate': 44100,
                'psf->file.mode': bad_mode, 'psf->error': 0}
        r9 = pe9.explore(of9, env9)
        pe9.memo.clear()
        succ9 = any(fn_ == 'psf_open_file' and v_ != 0 for (fn_, line_, v_) in r9.ret_sites)
        blob9 = [str(x[2]) for x in r9.local_assigns] + [str(x) for x in r9.store_exprs]
        refused9 = any('SFE_BAD_OPEN_MODE' in x for x in blob9)
        ctx.ob('OPEN-MODE', 'mode=%s' % hex(bad_mode), (not succ9) and refused9, of9.loc(of9.body), 'open mode %s: %s' % (hex(bad_mode), 'refused with SFE_BAD_OPEN_MODE, no success path' if (not succ9) and refused9 else
               'the open %s: a handle whose mode is none of read / write / read-write comes out of sf_open_fd / sf_open_virtual' % ('has a feasible success path' if succ9 else 'fails, but not with SFE_BAD_OPEN_MODE')), None)

    ctx.rule('SEEK-CLEAN', 'every function installed in the seek slot: (a) a rejecting return that is decided by the request or the handle alone (no call in the conditions it runs under) is not reachable '
             'from a psf_fseek or a store into the codec\'s private state - the invalid call fails cleanly, what is written or read next goes where it would have gone; (b) a call through a function '
             'pointer kept in the codec\'s private struct is dominated by a test of that pointer unless every allocator of the struct (or the init it calls) assigns it - a handle opened for '
             'writing has no decoder hook', floor=20)
    from engine.seekclean import seek_clean
    n_sc9 = seek_clean(ctx, prog)
    ctx.require(n_sc9 >= 20, 'only %d seek refusals / hook calls found' % n_sc9)

    wrapper_rule(ctx, prog)

    # ------------------------------------------------------------------ ERRTABLE
    ctx.rule('ERRTABLE', 'SndfileErrors[]: every enumerator value in [0, SFE_MAX_ERROR) occurs exactly once, every message is a non-empty string, the {SFE_MAX_ERROR, NULL} terminator is last; '
             'sf_error_number returns a table string or the non-empty fallback on every path', floor=150)
    tab = prog.global_('SndfileErrors')
    rows = tab['init']
    mx = E['SFE_MAX_ERROR']
    seen = {}
    for i, r in enumerate(rows):
        code, s = r[0], r[1]
        if i == len(rows) - 1:
            ctx.ob('ERRTABLE', 'terminator', s is None or s == 0, 'src/sndfile.c:%d' % tab['line'], 'last row {%s, %r} is the NULL terminator' % (code, s), None)
            continue
        ok = isinstance(s, str) and len(s.strip()) > 0 and code not in seen and 0 <= code <= mx
        seen[code] = i
        ctx.ob('ERRTABLE', 'row:%d' % code, ok, 'src/sndfile.c:%d' % tab['line'], 'code %d -> %r%s' % (code, (s or '')[:50], '' if ok else ' (duplicate / empty / out of range)'), None)
    missing = [c for c in range(mx + 1) if c not in seen]
    ctx.ob('ERRTABLE', 'total', not missing, 'src/sndfile.c:%d' % tab['line'], 'all %d error numbers have a message' % mx if not missing else 'error numbers without message: %s' % missing[:10], None)
    f = prog.fn('sf_error_number', 'sndfile.c')
    bad = []
    for r in f.cfg.returns():
        e = f.unwrap(f.N[r['kids'][0]])
        s = f.s(e)
        if s.startswith('SndfileErrors[') and s.endswith('.str'):
            continue
        # the message field of an entry reached through a pointer that walks the table (every definition of the pointer is the table, an element of it, or a step)
        if e['k'] == 'MemberExpr' and e.get('n') == 'str':
            base = f.unwrap(f.N[e['kids'][0]])
            if base.get('k') == 'DeclRefExpr' and base.get('dk') == 'local':
                defs_ = [(a_, r_) for lv_, a_, r_ in assigned_lvalues(f) if lv_ == base['n']]
                inits_ = [f.N[d_['init']] for n_ in f.walk() if n_['k'] == 'DeclStmt' for d_ in n_.get('decls', []) if d_['n'] == base['n'] and d_.get('init') is not None and d_['init'] >= 0]
                srcs = [r_ for a_, r_ in defs_ if a_.get('op') == '=' and r_ is not None] + inits_
                steps_ok = all(a_.get('op') in ('=', '++', 'post++', '+=') for a_, r_ in defs_)
                if srcs and steps_ok and all(any(x['k'] == 'DeclRefExpr' and x.get('n') == 'SndfileErrors' for x in f.walk(r_)) for r_ in srcs):
                    continue
        if e['k'] == 'DeclRefExpr' and e['dk'] == 'static_local':
            g = prog.global_(e['n'], 'sf_error_number')
            if isinstance(g.get('init'), str) and g['init'].strip():
                continue
        if e['k'] == 'StringLiteral' and e.get('s', '').strip():
            continue
        bad.append(s)
    ctx.ob('ERRTABLE', 'sf_error_number:returns', not bad, f.loc(f.body), 'every return is a table message or a non-empty literal' if not bad else 'returns %s' % bad, None)

    # ------------------------------------------------------------------ ERR-QUERY
    ctx.rule('ERR-QUERY', 'sf_error / sf_strerror / sf_perror / sf_error_str do not assign psf->error except SFE_BAD_FILE_PTR / SFE_BAD_SNDFILE_PTR for an invalid handle', floor=4)
    for name in sorted(ERR_QUERY):
        f = prog.fn(name, 'sndfile.c')
        bad = []
        live = f.cfg.reachable_blocks()
        for lhs, n, kind in writes_of(f):
            pt = f.cfg.point(n)
            if pt is None or pt[0] not in live:
                continue
            if f.s(lhs).endswith('->error'):
                rhs = f.s(n['kids'][1]) if n['k'] == 'BinaryOperator' else '?'
                if rhs not in ('SFE_BAD_FILE_PTR', 'SFE_BAD_SNDFILE_PTR'):
                    bad.append('%s = %s' % (f.s(lhs), rhs))
        ctx.ob('ERR-QUERY', name, not bad, f.loc(f.body), 'does not modify the recorded error' if not bad else 'modifies the error: %s' % bad, None)

    # ------------------------------------------------------------------ REJECT-BEFORE-MUTATE
    reject_before_mutate(ctx, prog)

    # ------------------------------------------------------------------ OPEN-FAIL (shared with C16)
    from rules.C16 import open_fail
    open_fail(ctx, prog)

    from engine.fdvalid import state_pair
    state_pair(ctx, prog)       # a rejecting return must not leave the descriptors swapped (NO-EFFECT for the failed open)

    ctx.rule('OPEN-ARGS', 'a NULL SF_INFO pointer is a documented error (SFE_BAD_SF_INFO_PTR): in sf_open, sf_open_fd, sf_open_virtual and psf_open_file every dereference of the SF_INFO '
             'parameter happens with the pointer proved non-NULL (A-PENT: a rejecting NULL test dominates it)', floor=4)
    from engine.bounds import Bounds as _B9
    from engine.effects import Effects as _E9
    e9 = _E9(prog)
    nd = 0
    for name in ('sf_open', 'sf_open_fd', 'sf_open_virtual', 'psf_open_file'):
        g = prog.fn(name, 'sndfile.c')
        ip = [q['n'] for q in g.params if 'SF_INFO' in q['t']]
        ctx.require(ip, '%s has no SF_INFO parameter' % name)
        P = ip[0]
        bd9 = _B9(prog, g, e9)
        derefs = [n for n in g.walk() if (n['k'] == 'MemberExpr' and n.get('arrow') and g.unwrap(g.N[n['kids'][0]]).get('n') == P) or
                  (n['k'] == 'UnaryOperator' and n.get('op') == '*' and g.unwrap(g.N[n['kids'][0]]).get('n') == P)]
        if not derefs:
            nd += 1
            ctx.ob('OPEN-ARGS', name + ':none', True, g.loc(g.body), '%s never dereferences %s itself (it is handed to psf_open_file)' % (name, P), None)
        seen_l = set()
        for n in derefs:
            if n['l'] in seen_l:
                continue
            seen_l.add(n['l'])
            pn = g.unwrap(g.N[n['kids'][0]])
            b = bd9.ev_at(pn, g.cfg.point(n))
            ok = b.lo is not None and b.lo >= 1
            nd += 1
            ctx.ob('OPEN-ARGS', '%s:%s@%d' % (name, g.s(n)[:30], len(seen_l)), ok, g.loc(n), '%s dereferenced with the pointer %s' % (P, 'proved non-NULL' if ok else
                   'NOT checked against NULL: sf_open* (…, NULL, …) crashes instead of failing with SFE_BAD_SF_INFO_PTR'), repr(b))
    ctx.require(nd >= 4, 'only %d SF_INFO dereferences found in the open functions' % nd)

    from engine.run import borrow
    borrow(ctx, 'C06', ['SEEK-GATE'], 'an out-of-range seek must be refused (SFE_BAD_SEEK) whatever mode bits the whence carries')
    borrow(ctx, 'C16', ['FD-VALID'], 'a failed sf_open must leave no descriptor behind, including descriptor 0')

    borrow(ctx, 'C03', ['TABLE-INDEX'], 'an index argument of a command (SFC_GET_FORMAT_MAJOR, SFC_GET_SIMPLE_FORMAT, error numbers ...) that is out of range must be refused, not used as a table subscript')

    ctx.rule('WH-DIV', 'every integer division / modulo in a write_header hook (or a static helper it calls) whose divisor is a caller-supplied SF_INFO field (psf->sf.samplerate, psf->sf.channels) is '
             'unreachable with that field < 1: on the branch of psf_open_file taken for SFM_WRITE / SFM_RDWR on an empty file, a rejecting test for `field < 1` (directly, or inside '
             'sf_format_check) sits before the container is dispatched - validate_sfinfo runs only after the header writer - or the writer tests the field itself', floor=10)
    from engine.whdiv import wh_div
    n_wd = wh_div(ctx, prog)
    ctx.require(n_wd >= 10, 'only %d divisions by SF_INFO fields found in the header writers' % n_wd)

    ctx.rule('INIT-ERR', 'in every container open function that psf_open_file dispatches to (*_open), the result of a codec / sub-format init (`error = x_init (...)`) is tested or returned on every path to '
             'the function exit: a failing init (SFE_BAD_MODE_RW for a codec without SFM_RDWR support, SFE_MALLOC_FAILED ...) must fail the open, not leave a handle without read / write functions', floor=80)
    from engine.initerr import init_err
    n_ie = init_err(ctx, prog)
    ctx.require(n_ie >= 80, 'only %d init results found in the container open functions' % n_ie)
