"""C10 — sf_format_check vs. what the open path really initialises; format enumeration tables."""
import os
from multiprocessing import Pool
from engine.peval import PEval
from engine.effects import Effects
from engine.bounds import Bounds

EXPLANATION = ('Decides: (CHECK-TABLE) sf_format_check is side-effect free and touches its argument only through comparisons/masks with constants, '
               'so constant propagation with case splitting over the finite class product (enumerated majors x enumerated subtypes x 4 endian codes '
               'x channel classes x samplerate classes) yields its exact decision table; (DISPATCH-COVER) for every accepted class the feasible-path '
               'exploration of psf_open_file in write mode reaches the success return and assigns all four write_T slots, and in read mode (same format word) '
               'assigns all four read_T slots; (REJECT) for every rejected class psf_open_file in write mode has no feasible path to the success return; '
               '(FORMAT-LISTS) enumeration tables have distinct, named entries, every simple format is accepted, every major has an accepted subtype, and the '
               'getters index inside the tables. That an accepted combination really round-trips frames at run time is NOT decided beyond slot presence.')
NOT_DECIDED = ['frames written through an installed slot are accepted and re-read correctly (run-time behaviour)',
               're-open reports the same encoding (see C04 CODEC-ID)']
ASSUMPTIONS = ['in read mode the header parser recovers the format word that was written (format word treated as sticky)',
               'callees below exploration depth 4 are summarised flow-insensitively']

CH_QUICK = [0, 1, 2, 3, 1024, 1025]
CH_FULL = [0, 1, 2, 3, 8, 9, 256, 257, 1024, 1025]
SR_FULL = [-1, 0, 1, 8000, 44100, 2 ** 31 - 1]
WSLOTS = ('write_short', 'write_int', 'write_float', 'write_double')
RSLOTS = ('read_short', 'read_int', 'read_float', 'read_double')

_G = {}


def _init(prog):
    _G['prog'] = prog
    _G['pe'] = PEval(prog, sticky=('sf.format', 'file.mode', 'sf.channels', 'sf.samplerate', 'endian'), effects=Effects(prog))


def _table_chunk(args):
    fmts, chs, srs = args
    prog, pe = _G['prog'], _G['pe']
    f = prog.fn('sf_format_check', 'sndfile.c')
    out = []
    for fmt in fmts:
        for ch in chs:
            for sr in srs:
                r = pe.explore(f, {'info->format': fmt, 'info->channels': ch, 'info->samplerate': sr})
                out.append((fmt, ch, sr, sorted(r.returns, key=lambda x: (x is None, x)), r.truncated))
        pe.memo.clear()
    return out


def _open_chunk(args):
    """explore psf_open_file for (fmt, ch, sr, mode)"""
    prog, pe = _G['prog'], _G['pe']
    g = prog.fn('psf_open_file', 'sndfile.c')
    out = []
    for (fmt, ch, sr, mode) in args:
        env = {'psf->sf.format': fmt, 'psf->sf.channels': ch, 'psf->sf.samplerate': sr, 'sfinfo->format': fmt,
               'sfinfo->channels': ch, 'sfinfo->samplerate': sr, 'psf->file.mode': mode, 'psf->error': 0}
        r = pe.explore(g, env)
        succ = False
        for (fn, line, v) in r.ret_sites:
            if fn == 'psf_open_file' and v != 0:
                succ = True
        slots = {k[1]: sorted(x for x in v if x not in ('NULL',)) for k, v in r.slot_assign.items()
                 if k[0] == 'sf_private_tag' and (k[1] in WSLOTS or k[1] in RSLOTS)}
        opens = sorted(c for c in r.calls if c.endswith('_open') and c != 'psf_open_file')
        out.append((fmt, ch, sr, mode, succ, slots, opens, r.truncated))
        pe.memo.clear()
    return out


def _chunks(lst, n):
    k = max(1, (len(lst) + n - 1) // n)
    return [lst[i:i + k] for i in range(0, len(lst), k)]


def run(ctx):
    prog = ctx.prog
    E = prog.enums
    thorough = ctx.tier == 'thorough'

    majors = prog.global_('major_formats')
    subs = prog.global_('subtype_formats')
    simple = prog.global_('simple_formats')
    ctx.require(majors['init'] and len(majors['init']) >= 20, 'major_formats table has %d rows' % len(majors.get('init') or []))
    ctx.require(subs['init'] and len(subs['init']) >= 25, 'subtype_formats table too small')
    maj = [r[0] for r in majors['init']]
    sub = [r[0] for r in subs['init']]
    endians = [E['SF_ENDIAN_FILE'], E['SF_ENDIAN_LITTLE'], E['SF_ENDIAN_BIG'], E['SF_ENDIAN_CPU']]
    name_of = {}
    for k, v in E.items():
        if k.startswith('SF_FORMAT_') or k.startswith('SF_ENDIAN_'):
            name_of.setdefault(v, k)

    def fname(fmt):
        m, s, e = fmt & E['SF_FORMAT_TYPEMASK'], fmt & E['SF_FORMAT_SUBMASK'], fmt & E['SF_FORMAT_ENDMASK']
        return '%s|%s|%s' % (name_of.get(m, hex(m)), name_of.get(s, hex(s)), name_of.get(e, hex(e)))

    # ------------------------------------------------------------------ CHECK-TABLE premise
    ctx.rule('CHECK-TABLE', 'sf_format_check has no calls, writes only locals, and reads *info only in comparisons / mask expressions with constants; '
             'its partial evaluation returns exactly one constant for every class of the finite input product', floor=1000)
    fc = prog.fn('sf_format_check', 'sndfile.c')
    calls = [c for c in fc.calls()]
    from engine.effects import writes_of
    bad_writes = [fc.s(l) for (l, n, k) in writes_of(fc) if fc.unwrap(l)['k'] != 'DeclRefExpr' or fc.unwrap(l).get('dk') != 'local']
    ctx.ob('CHECK-TABLE', 'premise:pure', not calls and not bad_writes, fc.loc(fc.body),
           'no calls, only local writes' if not calls and not bad_writes else 'calls %s / non-local writes %s make the decision table inexact' % ([c.get('callee') for c in calls], bad_writes))

    fmts = [m | s | e for m in maj for s in sub for e in endians]
    chs = CH_FULL if thorough else CH_QUICK
    srs = SR_FULL if thorough else [44100]
    nproc = min(16, os.cpu_count() or 4)
    _init(prog)
    with Pool(nproc) as pool:
        parts = pool.map(_table_chunk, [(c, chs, srs) for c in _chunks(fmts, nproc * 4)])
        table = {}
        undecided = []
        for part in parts:
            for (fmt, ch, sr, rets, trunc) in part:
                if trunc or len(rets) != 1 or rets[0] not in (0, 1):
                    undecided.append((fmt, ch, sr, rets))
                table[(fmt, ch, sr)] = rets[0] if len(rets) == 1 else None
        # samplerate classes in quick tier: representative formats only
        if not thorough:
            extra = pool.map(_table_chunk, [([maj[0] | sub[1], E['SF_FORMAT_WAV'] | E['SF_FORMAT_PCM_16'], E['SF_FORMAT_RAW'] | E['SF_FORMAT_PCM_16']], [1], SR_FULL)])
            for part in extra:
                for (fmt, ch, sr, rets, trunc) in part:
                    table[(fmt, ch, sr)] = rets[0] if len(rets) == 1 else None
                    if trunc or len(rets) != 1:
                        undecided.append((fmt, ch, sr, rets))
        n_acc = sum(1 for v in table.values() if v == 1)
        for (fmt, ch, sr), v in sorted(table.items()):
            ctx.rules['CHECK-TABLE']['inst'].append({'key': '%s ch=%d sr=%d' % (fname(fmt), ch, sr), 'ok': v in (0, 1), 'where': fc.loc(fc.body),
                                                      'msg': 'verdict %s' % v, 'fact': v})
        for (fmt, ch, sr, rets) in undecided[:5]:
            ctx.findings.append({'rule': 'CHECK-TABLE', 'key': 'CHECK-TABLE:undecided:%s ch=%d sr=%d' % (fname(fmt), ch, sr), 'where': fc.loc(fc.body),
                                 'msg': 'partial evaluation of sf_format_check does not yield a single verdict (%s): the function no longer depends on its argument through constant comparisons only' % rets, 'fact': rets})
        ctx.notes.append('decision table: %d classes evaluated, %d accepted' % (len(table), n_acc))
        ctx.require(n_acc >= 100, 'decision table accepts only %d classes' % n_acc)

        # samplerate: negative rates rejected
        for (fmt, ch, sr), v in table.items():
            if sr < 0 and v == 1:
                ctx.ob('CHECK-TABLE', 'negrate:%s' % fname(fmt), False, fc.loc(fc.body), 'negative samplerate accepted for %s' % fname(fmt))

        # ------------------------------------------------------------------ DISPATCH-COVER / REJECT
        ctx.rule('DISPATCH-COVER', 'for every accepted (major, subtype, endian) with an accepted channel count: feasible-path exploration of psf_open_file under '
                 '{mode=SFM_WRITE, format, channels} reaches `return (SNDFILE*) psf` and assigns write_short/int/float/double; under {mode=SFM_READ, same format} '
                 'assigns read_short/int/float/double', floor=150)
        ctx.rule('REJECT', 'for every rejected (major, subtype, endian, channels) class psf_open_file in write mode has no feasible path to its success return', floor=300)
        W, R = E['SFM_WRITE'], E['SFM_READ']
        jobs = []
        acc_keys = []
        rej_jobs = []
        sr0 = 44100
        for fmt in fmts:
            acc_ch = [ch for ch in chs if table.get((fmt, ch, sr0)) == 1]
            rej_ch = [ch for ch in chs if table.get((fmt, ch, sr0)) == 0]
            if acc_ch:
                reps = acc_ch if thorough else [acc_ch[0], acc_ch[-1]] if len(acc_ch) > 1 and acc_ch[-1] <= 2 else [acc_ch[0]]
                for ch in dict.fromkeys(reps):
                    jobs.append((fmt, ch, sr0, W))
                jobs.append((fmt, acc_ch[0], sr0, R))
            reps = rej_ch if thorough else rej_ch[:1] + ([rej_ch[-1]] if len(rej_ch) > 1 else [])
            for ch in dict.fromkeys(reps):
                # channel counts that validate_sfinfo would reject anyway are still explored: the gate must stop them
                rej_jobs.append((fmt, ch, sr0, W))
        res = pool.map(_open_chunk, _chunks(jobs, nproc * 4))
        rres = pool.map(_open_chunk, _chunks(rej_jobs, nproc * 4))
    psf_open = prog.fn('psf_open_file', 'sndfile.c')
    for part in res:
        for (fmt, ch, sr, mode, succ, slots, opens, trunc) in part:
            nm = fname(fmt)
            ctx.require(not trunc, 'exploration truncated for %s' % nm)
            if mode == W:
                need = WSLOTS
                missing = [s for s in need if not slots.get(s)]
                ok = succ and not missing
                msg = ('write-open of %s ch=%d via %s: ' % (nm, ch, '/'.join(opens) or '?')) + (
                    'success return feasible, all write slots assigned' if ok else
                    ('no feasible success return; ' if not succ else '') + ('write slots never assigned on any feasible path: %s' % missing if missing else ''))
                ctx.ob('DISPATCH-COVER', 'write:%s:ch%d' % (nm, ch), ok, psf_open.loc(psf_open.body), msg,
                       {'opens': opens, 'slots': {k: v[:3] for k, v in slots.items()}})
            else:
                missing = [s for s in RSLOTS if not slots.get(s)]
                ok = not missing
                ctx.ob('DISPATCH-COVER', 'read:%s' % nm, ok, psf_open.loc(psf_open.body),
                       'read-open of %s via %s: %s' % (nm, '/'.join(opens) or '?', 'all read slots assigned' if ok else 'read slots never assigned: %s' % missing),
                       {'opens': opens})
    for part in rres:
        for (fmt, ch, sr, mode, succ, slots, opens, trunc) in part:
            nm = fname(fmt)
            ctx.ob('REJECT', '%s:ch%d' % (nm, ch), not succ, psf_open.loc(psf_open.body),
                   'rejected class %s ch=%d: %s' % (nm, ch, 'open cannot succeed' if not succ else 'psf_open_file still has a feasible success path (gate missing or bypassed); opens reached: %s' % opens), None)

    # ------------------------------------------------------------------ FORMAT-LISTS
    ctx.rule('FORMAT-LISTS', 'simple/major/subtype tables: format codes distinct, names non-empty (extension non-empty for simple/major); every simple format accepted by the '
             'decision table for 1 or 2 channels; every major has an accepted subtype; getters reject out-of-range indices and index inside the table; '
             'count getters return the table length; psf_get_format_info searches both tables', floor=60)
    for tabname, g, need_ext in (('simple_formats', simple, True), ('major_formats', majors, True), ('subtype_formats', subs, False)):
        rows = g['init']
        seen = {}
        for i, r in enumerate(rows):
            code, name, ext = r[0], r[1], r[2]
            okd = code not in seen
            seen[code] = i
            okn = isinstance(name, str) and len(name) > 0 and (not need_ext or (isinstance(ext, str) and len(ext) > 0))
            ctx.ob('FORMAT-LISTS', '%s[%s]' % (tabname, name_of.get(code, fname(code) if tabname == 'simple_formats' else hex(code))), okd and okn and code != 0,
                   '%s:%d' % (os.path.relpath(g['file'], '/repo'), g['line']),
                   'entry %d: code %s name %r ext %r%s' % (i, hex(code), name, ext, '' if okd else ' DUPLICATE code'), None)
    for r in simple['init']:
        fmt = r[0]
        v = [table.get(((fmt & ~E['SF_FORMAT_ENDMASK']) | (fmt & E['SF_FORMAT_ENDMASK']), ch, 44100)) for ch in (1, 2)]
        # simple formats may not be in the product (e.g. VOX in RAW): evaluate directly
        if None in v:
            pe = PEval(prog)
            v = [next(iter(pe.explore(fc, {'info->format': fmt, 'info->channels': ch, 'info->samplerate': 44100}).returns)) for ch in (1, 2)]
        ctx.ob('FORMAT-LISTS', 'simple-accepted:%s' % fname(fmt), 1 in v, fc.loc(fc.body), 'simple format %s: sf_format_check verdict for 1/2 channels = %s' % (fname(fmt), v), v)
    for m in maj:
        acc = [s for s in sub for e in endians[:1] for ch in (1, 2) if table.get((m | s | e, ch, 44100)) == 1]
        ctx.ob('FORMAT-LISTS', 'major-usable:%s' % name_of.get(m, hex(m)), bool(acc), fc.loc(fc.body),
               'major %s has %d accepted subtype(s)' % (name_of.get(m, hex(m)), len(set(acc))), sorted(set(name_of.get(s, hex(s)) for s in acc))[:4])
    eff = Effects(prog)
    for getter, tab in (('psf_get_format_simple', 'simple_formats'), ('psf_get_format_major', 'major_formats'), ('psf_get_format_subtype', 'subtype_formats')):
        f = prog.fn(getter, 'command.c')
        alen = prog.global_(tab)['alen']
        bd = Bounds(prog, f, eff)
        subs_ = [n for n in f.walk() if n['k'] == 'ArraySubscriptExpr' and f.s(n['kids'][0]) == tab]
        ctx.require(subs_, '%s does not subscript %s' % (getter, tab))
        for n in subs_:
            b = bd.ev(f.unwrap(f.N[n['kids'][1]]))
            ok = b.lo is not None and b.lo >= 0 and b.hi is not None and b.hi <= alen - 1
            ctx.ob('FORMAT-LISTS', '%s:index' % getter, ok, f.loc(n), 'index into %s[%d] is %s' % (tab, alen, 'within [0,%d]' % (alen - 1) if ok else 'NOT proven within the table: %r' % b), repr(b))
    for cnt, tab in (('psf_get_format_simple_count', 'simple_formats'), ('psf_get_format_major_count', 'major_formats'), ('psf_get_format_subtype_count', 'subtype_formats')):
        f = prog.fn(cnt, 'command.c')
        alen = prog.global_(tab)['alen']
        rets = [f.unwrap(f.N[r['kids'][0]]).get('v') for r in f.cfg.returns()]
        ctx.ob('FORMAT-LISTS', cnt, rets == [alen], f.loc(f.body), '%s returns %s, table has %d rows' % (cnt, rets, alen), rets)
    f = prog.fn('psf_get_format_info', 'command.c')
    used = {f.s(n['kids'][0]) for n in f.walk() if n['k'] == 'ArraySubscriptExpr'} | {n['n'] for n in f.walk() if n['k'] == 'DeclRefExpr' and n.get('dk') == 'global'}
    ctx.ob('FORMAT-LISTS', 'psf_get_format_info:tables', {'major_formats', 'subtype_formats'} <= used, f.loc(f.body), 'tables searched: %s' % sorted(used), sorted(used))
    bd = Bounds(prog, f, eff)
    for n in f.walk():
        if n['k'] == 'ArraySubscriptExpr' and f.s(n['kids'][0]) in ('major_formats', 'subtype_formats'):
            alen = prog.global_(f.s(n['kids'][0]))['alen']
            b = bd.ev(f.unwrap(f.N[n['kids'][1]]))
            ok = b.lo is not None and b.lo == 0 and b.hi is not None and b.hi == alen - 1
            ctx.ob('FORMAT-LISTS', 'psf_get_format_info:%s[%s]@%s' % (f.s(n['kids'][0]), f.s(n['kids'][1]), 'cmp' if f.parent.get(n['id']) is not None and f.N[f.parent[n['id']]]['k'] == 'MemberExpr' else 'copy'),
                   ok, f.loc(n), 'search index %s' % ('covers exactly [0,%d] (whole table)' % (alen - 1) if ok else 'does NOT range over exactly the whole table [0,%d]: %r' % (alen - 1, b)), repr(b))

    # ------------------------------------------------------------------ CHANNEL-LIMIT
    ctx.rule('CHANNEL-LIMIT', 'the largest channel count sf_format_check accepts is the largest every header reader and validate_sfinfo accept: every comparison of a channel count with the '
             'limit constant K (taken from sf_format_check: `info->channels > K` rejects) is equivalent to `> K` — a reader that rejects `>= K` cannot re-open a file the writer produced', floor=10)
    K = None
    for n in fc.walk():
        if n['k'] == 'BinaryOperator' and n.get('op') == '>' and fc.s(n['kids'][0]) == 'info->channels':
            kv = fc.unwrap(fc.N[n['kids'][1]]).get('v')
            K = kv if (K is None or (kv is not None and kv > K)) else K      # the general limit (codec specific limits are smaller)
    ctx.require(K is not None, 'sf_format_check has no `info->channels > K` rejection')
    nlim = 0
    for g in sorted(prog.lib_fns(), key=lambda g: (g.file, g.line)):
        k2 = 0
        for n in g.walk():
            if n['k'] != 'BinaryOperator' or n.get('op') not in ('<', '<=', '>', '>=', '==', '!='):
                continue
            a, b = g.unwrap(g.N[n['kids'][0]]), g.unwrap(g.N[n['kids'][1]])
            op = n['op']
            if b.get('v') is None and a.get('v') is not None:
                a, b = b, a
                op = {'<': '>', '>': '<', '<=': '>=', '>=': '<='}.get(op, op)
            v = b.get('v')
            if v is None or abs(v - K) > 1 or 'hannels' not in g.s(a) or a.get('v') is not None:
                continue
            nlim += 1
            k2 += 1
            ok = (op == '>' and v == K) or (op == '>=' and v == K + 1) or (op == '<=' and v == K) or (op == '<' and v == K + 1)
            ctx.ob('CHANNEL-LIMIT', '%s:%s#%d' % (g.name, g.s(a)[:40], k2), ok, g.loc(n), '`%s`: %s' % (g.s(n)[:60], 'same limit as sf_format_check (%d channels accepted)' % K if ok else
                   'disagrees with sf_format_check, which accepts up to %d channels: a file written with the maximum is refused here' % K), None)
    ctx.require(nlim >= 10, 'only %d channel limit comparisons found' % nlim)

    ctx.rule('TAG-SEQ', 'MAT5: the sequence of MAT5_TYPE_* element tags written by mat5_write_header is accepted position by position by the type tests of mat5_read_header '
             '(alternatives of an if/else share a position; a switch accepts its case labels)', floor=8)
    from engine.tagseq import tag_seq
    tag_seq(ctx, prog)


    ctx.rule('COOKIE-SIZE', 'ALAC in CAF: the capacity alac_get_magic_cookie_size reports (stored as kuki_size and handed back as the buffer capacity at close) covers what alac_get_magic_cookie '
             'needs before it emits anything: the range of the size query equals the range of theCookieSize at the `*ioSize >= theCookieSize` test (a smaller answer for > 2 channels closes '
             'the file with an empty kuki chunk, and it cannot be re-opened)', floor=1)
    from engine.bounds import Bounds as _B
    from engine.effects import Effects as _E
    qf, cf = prog.fn('alac_get_magic_cookie_size'), prog.fn('alac_get_magic_cookie')
    eb = _B(prog, cf, _E(prog))
    rr = eb._ret_range('alac_get_magic_cookie_size')
    need = None
    for n in cf.walk():
        if n['k'] == 'IfStmt' and 'theCookieSize' in cf.s(n['cond']) and '>=' in cf.s(n['cond']):
            c_ = cf.unwrap(cf.N[n['cond']])
            need = eb.ev_at(cf.unwrap(cf.N[c_['kids'][1]]), cf.cfg.point(n) or cf.cfg.point(cf.N[n['cond']]))
    ctx.require(rr is not None and need is not None and need.lo is not None and need.hi is not None, 'COOKIE-SIZE: size query range %r, need %r' % (rr, need))
    okc = rr[0] == need.lo and rr[1] == need.hi
    ctx.ob('COOKIE-SIZE', 'alac_get_magic_cookie_size', okc, qf.loc(qf.body), 'size query returns [%d, %d]; the cookie writer needs [%d, %d]%s' % (rr[0], rr[1], need.lo, need.hi,
           '' if okc else ': the capacity reported is not what the writer needs - the cookie is dropped (size 0) or the buffer is too small'), None)

    ctx.rule('CODEC-CHANNELS', 'ALAC: the vendored encoder / decoder handle at most kALACMaxChannels channels (its per-channel state arrays have that many entries). For every ALAC subtype, '
             'sf_format_check (partial evaluation, as in CHECK-TABLE) accepts CAF with kALACMaxChannels channels and refuses kALACMaxChannels + 1: a file with more channels is written '
             'without complaint and cannot be opened again', floor=8)
    _init(prog)
    fcx = prog.fn('sf_format_check', 'sndfile.c')
    kmax = E.get('kALACMaxChannels')
    ctx.require(kmax is not None, 'enum kALACMaxChannels not found')
    for sub_ in ('SF_FORMAT_ALAC_16', 'SF_FORMAT_ALAC_20', 'SF_FORMAT_ALAC_24', 'SF_FORMAT_ALAC_32'):
        fmt_ = E['SF_FORMAT_CAF'] | E[sub_]
        for ch_, want in ((kmax, 1), (kmax + 1, 0)):
            r_ = _G['pe'].explore(fcx, {'info->format': fmt_, 'info->channels': ch_, 'info->samplerate': 44100})
            got = sorted(r_.returns, key=lambda x: (x is None, x))
            ok_ = got == [want]
            ctx.ob('CODEC-CHANNELS', 'CAF|%s ch=%d' % (sub_[10:], ch_), ok_, fcx.loc(fcx.body), 'sf_format_check returns %s (required %d)%s' % (got, want, '' if ok_ else
                   ': more channels than the ALAC codec supports are accepted' if want == 0 else ': a supported channel count is refused'), None)

    from engine.run import borrow
    borrow(ctx, 'C04', ['CODEC-ID'], 'an accepted combination must re-open as the same encoding: the code a writer arm emits is mapped back to its subformat by the reader')
    borrow(ctx, 'C09', ['WH-DIV'], 'a parameter set that sf_format_check accepts must not crash the open: sample rate 0 is accepted by the check and has to be refused before a header writer divides by it')
