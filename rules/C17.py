"""C17 — sf_command touches at most datasize bytes through data; queries are pure."""
from engine.bufacc import check_buffer
from engine.bounds import B
from engine.effects import Effects
from engine.peval import PEval

EXPLANATION = ('Decides: (DATASIZE-DOM) every access through `data` in sf_command and, interprocedurally, in every callee that receives the pointer (broadcast/cart/cue helpers, '
               'format getters, CALC helpers, container command hooks) needs a byte extent that the A-PENT facts about datasize at that program point cover (guards of the forms '
               '!=, <, equality with sizeof*channels products, SF_MIN, (size-a)/b cue arithmetic); (NULL-DOM) each such access is dominated by data != NULL; (STR-TERM) string '
               'results are read back only after a bounded terminating snprintf with size >= 1; (QUERY-PURE) for every query command the feasible-path exploration of sf_command with '
               'that command id writes no SF_PRIVATE state other than the error field; (DEFINED-RET) sf_command returns a value on every path. Precondition: datasize >= 0.')
NOT_DECIDED = ['behaviour for negative datasize (outside the property)', 'that file contents/position are unchanged by queries that call into codecs (CALC commands: see C18 CALC-RESTORE)']
ASSUMPTIONS = ['datasize >= 0', 'libc copy primitives touch exactly the length they are given']

QUERY_CMDS = ['SFC_GET_LIB_VERSION', 'SFC_GET_LOG_INFO', 'SFC_GET_CURRENT_SF_INFO', 'SFC_GET_NORM_DOUBLE', 'SFC_GET_NORM_FLOAT', 'SFC_GET_SIMPLE_FORMAT_COUNT',
              'SFC_GET_SIMPLE_FORMAT', 'SFC_GET_FORMAT_INFO', 'SFC_GET_FORMAT_MAJOR_COUNT', 'SFC_GET_FORMAT_MAJOR', 'SFC_GET_FORMAT_SUBTYPE_COUNT', 'SFC_GET_FORMAT_SUBTYPE',
              'SFC_GET_SIGNAL_MAX', 'SFC_GET_MAX_ALL_CHANNELS', 'SFC_GET_CLIPPING', 'SFC_GET_EMBED_FILE_INFO', 'SFC_GET_LOOP_INFO', 'SFC_GET_INSTRUMENT', 'SFC_GET_BROADCAST_INFO',
              'SFC_GET_CHANNEL_MAP_INFO', 'SFC_RAW_DATA_NEEDS_ENDSWAP', 'SFC_GET_CUE_COUNT', 'SFC_GET_CUE', 'SFC_GET_CART_INFO', 'SFC_GET_BITRATE_MODE', 'SFC_GET_DITHER_INFO_COUNT',
              'SFC_GET_DITHER_INFO', 'SFC_GET_ORIGINAL_SAMPLERATE']
ALLOWED_WRITES = {('sf_private_tag', 'error')}


def run(ctx):
    prog = ctx.prog
    eff = Effects(prog)
    f = prog.fn('sf_command', 'sndfile.c')
    ctx.rule('DATASIZE-DOM', 'every access through the caller buffer (offset o, width w) in sf_command and in every callee receiving it is dominated by facts from which datasize >= o + w follows', floor=40)
    ctx.rule('NULL-DOM', 'every such access is dominated by data != NULL', floor=30)
    ctx.rule('STR-TERM', 'a NUL-terminated read of the caller buffer (strlen) happens only after a dominating snprintf (data, datasize, ...) and with datasize >= 1 known', floor=3)
    counts = {}

    def report(rule, ok, fn, node, msg):
        k = (rule, fn.name, fn.s(node)[:70])
        counts[k] = counts.get(k, 0) + 1
        ctx.ob(rule, '%s:%s#%d' % (fn.name, fn.s(node)[:70], counts[k]), ok, fn.loc(node), msg, None)

    pn = [p['n'] for p in f.params]
    ctx.require(pn[2:] == ['data', 'datasize'], 'sf_command parameters changed: %s' % pn)
    # handle invariant established by the open gate (C03 OPEN-GATE / validate_sfinfo): 1 <= channels <= SF_MAX_CHANNELS
    inv = {'datasize': B(0, 2 ** 31 - 1), 'psf->sf.channels': B(1, prog.enums.get('SF_MAX_CHANNELS', 1024))}
    check_buffer(prog, f, 'data', 'datasize', eff, inv, 0, report)

    # ------------------------------------------------------------------ QUERY-PURE
    ctx.rule('QUERY-PURE', 'for each query command id: feasible-path exploration of sf_command with command = id writes no field of SF_PRIVATE (or of records reachable from it) '
             'other than `error`; writes to the caller buffer and locals are allowed', floor=20)
    E = prog.enums
    pe = PEval(prog, sticky=(), effects=eff, max_depth=5)
    nq = 0
    for name in QUERY_CMDS:
        if name not in E:
            continue
        nq += 1
        r = pe.explore(f, {'command': E[name]})
        bad = sorted(w for w in r.root_writes if w[2] in ('psf', 'sndfile') and (w[0], w[1]) not in ALLOWED_WRITES)
        # writes through psf in callees are attributed to the callee's own parameter names; collect by record instead
        bad2 = sorted((rec, fld) for (rec, fld, root) in r.root_writes if rec in ('sf_private_tag', 'PSF_FILE', 'PEAK_INFO', 'SF_INFO', 'READ_CHUNKS', 'WRITE_CHUNKS', 'STR_DATA')
                      and (rec, fld) not in ALLOWED_WRITES and not (rec == 'SF_INFO' and root in ('data',)))
        ok = not bad2
        ctx.ob('QUERY-PURE', name, ok, f.loc(f.body), '%s: %s' % (name, 'no handle state written on any feasible path' if ok else 'writes handle state: %s' % bad2[:6]),
               {'calls': sorted(c for c in r.calls if not c.startswith('@'))[:8]})
    ctx.require(nq >= 20, 'only %d query commands known' % nq)

    # ------------------------------------------------------------------ PRIM-WALK
    ctx.rule('PRIM-WALK', 'the repo-defined copy helper that DATASIZE-DOM treats as a primitive with a length contract (psf_strlcpy_crlf: reads at most srcmax bytes of src, writes at most destmax bytes '
             'of dest) keeps that contract: forward dataflow of an upper bound of (pointer - limit) over its CFG; every access, including look-ahead reads src [k], lies before the limit', floor=8)
    from engine.walk import check_walk
    check_walk(ctx, 'PRIM-WALK', prog, prog.fn('psf_strlcpy_crlf', 'common.c'))

    # ------------------------------------------------------------------ DEFINED-RET
    ctx.rule('DEFINED-RET', 'sf_command has no path that falls off the end without a return value', floor=1)
    # every predecessor of the exit block ends with a ReturnStmt carrying a value
    cfg = f.cfg
    bad = []
    for pb in cfg.preds[cfg.exit]:
        els = cfg.blocks[pb]['elems']
        last = f.N[els[-1]] if els else None
        if last is None or last['k'] != 'ReturnStmt' or not last['kids']:
            # noreturn calls aside
            bad.append(pb)
    ctx.ob('DEFINED-RET', 'sf_command', not bad, f.loc(f.body), 'all %d exits return a value' % len(cfg.preds[cfg.exit]) if not bad else 'exit without value in blocks %s' % bad, None)

    from engine.run import borrow
    borrow(ctx, 'C18', ['CALC-RESTORE'], 'the SFC_CALC_* queries must leave normalisation setting and read position as they were')
    borrow(ctx, 'C03', ['FMT-FIRST'], 'SFC_GET_CHANNEL_MAP_INFO / SFC_GET_MAX_ALL_CHANNELS copy channels entries out of tables the header readers allocated: the tables must have been sized by the final channel count')

    ctx.rule('MAP-ALLOC', 'SFC_GET_CHANNEL_MAP_INFO copies sf.channels entries out of psf->channel_map: every allocation stored into psf->channel_map has exactly sf.channels entries '
             '(calloc (psf->sf.channels, sizeof entry)), or is the caller\'s datasize after the rejecting test datasize != sizeof entry * sf.channels', floor=4)
    from engine.util import assigned_lvalues as _alm
    nm = 0
    for g in sorted(prog.lib_fns(), key=lambda g: (g.file, g.line)):
        for lv, a, r in _alm(g):
            if lv != 'psf->channel_map' or r is None:
                continue
            ru = g.unwrap(r)
            if ru.get('k') != 'CallExpr' or ru.get('callee') not in ('calloc', 'malloc'):
                continue
            nm += 1
            args = [g.s(g.unwrap(x)) for x in g.args(ru)]
            if ru['callee'] == 'calloc':
                ok = args[0] == 'psf->sf.channels'
                why = 'calloc (%s, %s)' % (args[0], args[1])
            else:
                V = args[0]
                tests = [n for n in g.walk() if n['k'] == 'IfStmt' and ('%s != ' % V) in g.s(n['cond']) and 'psf->sf.channels' in g.s(n['cond']) and g.cfg.dominates(n, a)
                         and any(x['k'] == 'ReturnStmt' for x in g.walk(n['then']))]
                ok = bool(tests)
                why = 'malloc (%s) %s' % (V, 'after the rejecting test `%s`' % g.s(tests[0]['cond'])[:90] if tests else 'with a size that is not tied to sf.channels')
            ctx.ob('MAP-ALLOC', '%s#%d' % (g.name, nm), ok, g.loc(a), why + ('' if ok else ': the table can be shorter than sf.channels entries, the channel map commands read past it'), None)
    ctx.require(nm >= 4, 'only %d allocations of psf->channel_map found' % nm)

