"""C03 — arbitrary input bytes never cause memory errors, hangs or insane info (structural clauses)."""
import os
from engine.effects import Effects
from engine.bounds import Bounds
from engine.sinks import check_sinks
from engine.loops import loops_with_reads, check_loop
from engine.staging import staging_functions
from engine.facts import VERIF
from engine.util import assigned_lvalues

EXPLANATION = ('Decides: (BOUNDED-SINK) every copy primitive with an explicit length whose destination has a visible fixed capacity (psf_binheader_readf b/G specs, psf_fread/fread, memcpy/memset/'
               'strncpy/snprintf/psf_fgets: 226 sinks in the library units) has count x element size <= capacity, proven by the interval / upper-bound analysis on every path; five sinks outside '
               'its reach carry a written argument in tables/c03_sinks.tsv, anything new or newly unprovable is a violation; (LOOP-IO) every loop that reads (outside the staging loops of C05) has an '
               'exit controlled by read progress (result tested, target zeroed by the primitive and tested, stream position against the length) or a monotone counter that cannot wrap before its '
               'bound; (OPEN-GATE) psf_open_file reaches its success return only through validate_sfinfo and validate_psf, which test samplerate >= 1, frames >= 0, 1 <= channels <= SF_MAX_CHANNELS, '
               'container and codec non-zero, sections >= 1, datalength/dataoffset >= 0 and blockwidth consistency; (HDR-CACHE) header cache growth is capped at 100 KiB before realloc and every '
               'write into the cache is preceded by a capacity check; (INIT-VALIDATE) codec inits check file-derived geometry before dividing by it. Absence of all memory errors for all inputs and '
               'the wall-clock bound are NOT decided.')
NOT_DECIDED = ['memory safety of accesses whose destination capacity is not visible at the sink (pointers into heap blocks): partly covered by C05/C13/C17 rules', 'arithmetic overflow in derived geometry',
               'post-open call sequences', 'time bound as such']
ASSUMPTIONS = ['libc copy primitives touch exactly the length they are given']


def load_exceptions():
    out = {}
    for line in open(os.path.join(VERIF, 'tables', 'c03_sinks.tsv')):
        if line.startswith('#') or not line.strip():
            continue
        k, why = line.rstrip('\n').split('\t', 1)
        out[k] = why
    return out


def loop_io(ctx, prog, eff, rule='LOOP-IO'):
    stag = {f.name for f, u, i in staging_functions(prog)}
    n = 0
    for f in prog.lib_fns():
        if f.file.endswith('/file_io.c') or f.name in stag:
            continue
        L = loops_with_reads(prog, f)
        if not L:
            continue
        bd = Bounds(prog, f, eff)
        for i, (loop, reads) in enumerate(L):
            n += 1
            ok, why = check_loop(prog, f, loop, reads, bd)
            ctx.ob(rule, '%s:loop@%d' % (f.name, i + 1), ok, f.loc(loop), why, None)
    return n


def hdr_zero(ctx, prog, rule):
    b = prog.fn('psf_bump_header_allocation', 'common.c')
    # memory added by the realloc is zeroed (sd2 and others place items at absolute header offsets and rely on zero gaps): the
    # memset over [old len, new len) exists, is computed from the OLD psf->header.len, i.e. no assignment of header.len precedes it
    from engine.util import assigned_lvalues as _al
    ms = [c for c in b.calls('memset') if 'psf->header.len' in b.s(b.args(c)[0]) and 'psf->header.len' in b.s(b.args(c)[2])]
    las = [a for lv, a, r in _al(b) if lv == 'psf->header.len']
    okz = bool(ms) and bool(las) and all(not b.cfg.path_avoiding(a, {b.cfg.point(ms[0])[0]}, set()) for a in las)
    ctx.ob(rule, 'zero-new-memory', okz, b.loc(ms[0]) if ms else b.loc(b.body), 'memory added by realloc is zeroed from the old length to the new one, before header.len is updated' if okz else
           ('no memset over [psf->header.len, newlen) found' if not ms else 'psf->header.len is assigned on a path BEFORE the zero-fill: its guard compares the new length with itself, the added bytes stay uninitialised (stale heap contents can reach files)'), None)


def run(ctx):
    prog = ctx.prog
    eff = Effects(prog)
    exc = load_exceptions()
    ctx.rule('BOUNDED-SINK', 'for every sink with a visible destination capacity: A-PENT proves count x element size <= capacity on every path (exceptions: tables/c03_sinks.tsv, one written argument each)', floor=200)
    check_sinks(ctx, prog, eff, 'BOUNDED-SINK', list(prog.lib_fns()))
    # exceptions: turn the listed unproven sinks into accepted obligations; anything else stays a violation
    keep = []
    used = set()
    for fnd in ctx.findings:
        k = fnd['key'].split(':', 1)[1] if fnd['rule'] == 'BOUNDED-SINK' else None
        if k in exc:
            used.add(k)
            for it in ctx.rules['BOUNDED-SINK']['inst']:
                if it['key'] == k:
                    it['ok'] = True
                    it['msg'] = 'not provable by the interval analysis; accepted with the written argument: ' + exc[k]
        else:
            keep.append(fnd)
    ctx.findings[:] = keep
    stale = sorted(set(exc) - used)
    ctx.notes.append('BOUNDED-SINK exceptions used: %s; listed but no longer needed: %s' % (sorted(used), stale))

    ctx.rule('LOOP-IO', 'every loop whose body calls a read primitive: an exit (loop condition, break/return/goto, or a store to a loop-condition flag) is controlled by a read result, by a variable the primitive '
             'overwrites (zeroed first), or by the stream position; or the loop condition is a counter advanced by >= 1 on every iteration whose type cannot wrap before the bound', floor=25)
    loop_io(ctx, prog, eff)

    ctx.rule('HOOK-DIV', 'sf_current_byterate and every function installed in the byterate slot: each integer division or remainder whose divisor is not a non-zero constant is reached only with the '
             'divisor proved non-zero by A-PENT (a file whose header announces no frames must not raise SIGFPE in a query)', floor=3)
    from engine.model import int_type as _it3
    n_hd = 0
    for g in [prog.fn('sf_current_byterate', 'sndfile.c')] + sorted(prog.slot_fns('byterate'), key=lambda g_: (g_.file, g_.line)):
        bdg = Bounds(prog, g, eff)
        k_ = 0
        for x in g.walk():
            if x['k'] not in ('BinaryOperator', 'CompoundAssignOperator') or x.get('op') not in ('/', '%', '/=', '%=') or not _it3(x.get('t')):
                continue
            d = g.unwrap(g.N[x['kids'][1]])
            if d.get('v') is not None and d['v'] != 0:
                continue
            pt_ = g.cfg.point(x)
            if pt_ is None:
                continue
            n_hd += 1
            k_ += 1
            b_ = bdg.ev_at(g.N[x['kids'][1]], pt_)
            ok_ = (b_.lo is not None and b_.lo >= 1) or (b_.hi is not None and b_.hi <= -1) or ('!=', '0') in b_.lbs or ('>', '0') in b_.lbs
            ctx.ob('HOOK-DIV', '%s:#%d' % (g.name, k_), ok_, g.loc(x), 'divisor `%s` %s' % (g.s(d)[:40], 'is non-zero here (%r)' % b_ if ok_ else
                   'is NOT proved non-zero (%r): a file with that field 0 makes the query divide by zero' % b_), None)
    ctx.require(n_hd >= 3, 'only %d divisions found in the byterate functions' % n_hd)

    ctx.rule('OPEN-GATE', 'psf_open_file: the success return is dominated by `validate_sfinfo (&psf->sf) == 0 -> error` and `validate_psf (psf) == 0 -> error`; the validators contain the documented comparisons; '
             'sf_open / sf_open_fd / sf_open_virtual return only psf_open_file (...) or NULL', floor=12)
    f = prog.fn('psf_open_file', 'sndfile.c')
    succ = [r for r in f.cfg.returns() if r['kids'] and f.unwrap(f.N[r['kids'][0]]).get('v') != 0]
    ctx.require(len(succ) == 1, 'psf_open_file has %d success returns' % len(succ))
    for vname in ('validate_sfinfo', 'validate_psf'):
        blocks = [b for b in f.cfg.blocks.values() if 'cond' in b and f.s(b['cond']).startswith('(%s(' % vname) and f.s(b['cond']).endswith('== 0)')]
        ok = bool(blocks) and all(f.cfg.dominates((b['id'], len(b['elems'])), succ[0]) for b in blocks)
        # the true edge must not reach the success return
        for b in blocks:
            t = b['succs'][0]
            if t is not None and f.cfg.path_avoiding((b['id'], len(b['elems']) - 1), {f.cfg.point(succ[0])[0]}, set(), edge_ok=lambda bb, si, _b=b: not (bb == _b['id'] and si == 1)) is not None:
                ok = False
        ctx.ob('OPEN-GATE', 'psf_open_file:' + vname, ok, f.loc(succ[0]), '%s gate %s' % (vname, 'dominates the success return and its failing edge cannot reach it' if ok else 'MISSING or bypassable'), None)
    v = prog.fn('validate_sfinfo', 'sndfile.c')
    # what the validator decides, not how it is written: partial evaluation with one field out of range at a time (the others valid) must give 0, all valid must give 1
    from engine.peval import PEval as _PE3
    pe3 = _PE3(prog, effects=eff)
    E3 = prog.enums
    par3 = v.params[0]['n']
    good = {'%s->samplerate' % par3: 44100, '%s->frames' % par3: 0, '%s->channels' % par3: 2, '%s->format' % par3: E3['SF_FORMAT_WAV'] | E3['SF_FORMAT_PCM_16'], '%s->sections' % par3: 1, '%s->seekable' % par3: 1}
    cases = [('samplerate < 1', {'samplerate': 0}), ('samplerate < 0', {'samplerate': -5}), ('frames < 0', {'frames': -1}), ('channels < 1', {'channels': 0}), ('channels > SF_MAX_CHANNELS', {'channels': 1025}),
             ('no container bits', {'format': E3['SF_FORMAT_PCM_16']}), ('no codec bits', {'format': E3['SF_FORMAT_WAV']}), ('sections < 1', {'sections': 0})]
    for nm_, chg in cases:
        env3 = dict(good)
        env3.update({'%s->%s' % (par3, k_): v_ for k_, v_ in chg.items()})
        r3 = pe3.explore(v, env3)
        got3 = sorted(r3.returns, key=lambda x: (x is None, x))
        ctx.ob('OPEN-GATE', 'validate_sfinfo:' + nm_, got3 == [0], v.loc(v.body), 'with %s the validator returns %s (required 0)' % (chg, got3), None)
    r3 = pe3.explore(v, dict(good))
    got3 = sorted(r3.returns, key=lambda x: (x is None, x))
    ctx.ob('OPEN-GATE', 'validate_sfinfo:returns', got3 == [1], v.loc(v.body), 'with every field valid the validator returns %s (required 1)' % got3, None)
    v = prog.fn('validate_psf', 'sndfile.c')
    conds = {v.s(n['cond']) for n in v.walk() if n['k'] == 'IfStmt'}
    for c in ('(psf->datalength < 0)', '(psf->dataoffset < 0)', '(psf->blockwidth && (psf->blockwidth != (psf->sf.channels * psf->bytewidth)))'):
        ctx.ob('OPEN-GATE', 'validate_psf:' + c, c in conds, v.loc(v.body), 'rejects when %s: %s' % (c, 'present' if c in conds else 'MISSING'), None)
    for name in ('sf_open', 'sf_open_fd', 'sf_open_virtual'):
        g = prog.fn(name, 'sndfile.c')
        bad = []
        for r in g.cfg.returns():
            e = g.unwrap(g.N[r['kids'][0]])
            if e.get('v') == 0 or (e['k'] == 'CallExpr' and e.get('callee') == 'psf_open_file'):
                continue
            # a static helper that cleans up and returns NULL on every path (the failure exits collected in one place) is a NULL return
            if e['k'] == 'CallExpr' and len(prog.fns.get(e.get('callee') or '', [])) == 1 and prog.fns[e['callee']][0].static:
                h_ = prog.fns[e['callee']][0]
                hr_ = [h_.unwrap(h_.N[r_['kids'][0]]).get('v') for r_ in h_.cfg.returns() if r_.get('kids')]
                if hr_ and all(x_ == 0 for x_ in hr_):
                    continue
            bad.append(g.s(e))
        ctx.ob('OPEN-GATE', name, not bad, g.loc(g.body), 'returns only NULL or psf_open_file (...)' if not bad else 'returns %s' % bad, None)

    ctx.rule('HDR-CACHE', 'psf_bump_header_allocation refuses above the 100 KiB cap before realloc and updates header.len together with header.ptr; in common.c every copy / store into psf->header.ptr of '
             'header_read, header_gets, header_seek and every header_put_* call of psf_binheader_writef is dominated by a capacity test on header.len or a psf_bump_header_allocation call', floor=5)
    b = prog.fn('psf_bump_header_allocation', 'common.c')
    bd = Bounds(prog, b, eff)
    re_ = list(b.calls('realloc'))
    ctx.require(re_, 'psf_bump_header_allocation has no realloc')
    sz = bd.ev(b.unwrap(b.args(re_[0])[1]))
    okcap = sz.hi is not None and sz.hi <= 100 * 1024
    capwhy = 'realloc size bounded by %s (cap 102400)' % sz.hi
    if not okcap:
        # the cap may be limited to the parsers: a dominating refusal `newlen > K && psf->file.mode == SFM_READ` keeps every allocation made while READING a file under K
        for n_ in b.walk():
            if n_['k'] != 'IfStmt' or not (b.cfg.dominates(n_, re_[0]) or any(b.cfg.dominates(x_, re_[0]) for x_ in b.walk(b.N[n_['cond']]))) or not any(y['k'] == 'ReturnStmt' for y in b.walk(b.N[n_['then']])):
                continue
            conj_ = []
            def _cj(x):
                x = b.unwrap(x)
                if x.get('k') == 'BinaryOperator' and x.get('op') == '&&':
                    _cj(b.N[x['kids'][0]]); _cj(b.N[x['kids'][1]])
                else:
                    conj_.append(x)
            _cj(b.N[n_['cond']])
            size_arg = b.s(b.unwrap(b.args(re_[0])[1]))
            caps_ = [c_ for c_ in conj_ if c_.get('k') == 'BinaryOperator' and c_.get('op') == '>' and b.s(b.unwrap(b.N[c_['kids'][0]])) == size_arg and (b.unwrap(b.N[c_['kids'][1]]).get('v') or 1 << 62) <= 100 * 1024]
            rest_ = [c_ for c_ in conj_ if c_ not in caps_]
            if caps_ and all(b.s(c_).replace(' ', '') in ('(psf->file.mode==SFM_READ)', '(psf->file.mode==16)') for c_ in rest_):
                okcap = True
                capwhy = 'while a file is being READ (`%s` -> refused) the realloc size is at most %d; in the write modes the size is what the caller\'s own metadata needs' % (b.s(n_['cond'])[:70], b.unwrap(b.N[caps_[0]['kids'][1]])['v'])
    ctx.ob('HDR-CACHE', 'cap', okcap, b.loc(re_[0]), capwhy, None)
    hdr_zero(ctx, prog, 'HDR-CACHE')
    # a static helper of common.c that makes room in the cache (it tests psf->header.len and / or calls psf_bump_header_allocation) is a capacity test where it is called,
    # and is itself held to the rule
    cf_ = prog.fn('header_read', 'common.c').file
    room = [h_ for h_ in prog.lib_fns() if h_.file == cf_ and h_.static and h_.name not in ('header_read', 'header_gets', 'header_seek') and len(h_.params) >= 2
            and (list(h_.calls('psf_bump_header_allocation')) or False) and any('cond' in blk_ and 'psf->header.len' in h_.s(blk_['cond']) for blk_ in h_.cfg.blocks.values())]
    for name in ['header_read', 'header_gets', 'header_seek', 'psf_binheader_writef'] + [h_.name for h_ in room]:
        g = prog.fn(name, 'common.c')
        guards = [blk for blk in g.cfg.blocks.values() if 'cond' in blk and ('psf->header.len' in g.s(blk['cond']) or 'psf_bump_header_allocation' in g.s(blk['cond'])
                                                                              or any((h_.name + '(') in g.s(blk['cond']) for h_ in room))]
        gp = [(blk['id'], len(blk['elems'])) for blk in guards] + [g.cfg.point(c) for c in g.calls('psf_bump_header_allocation')]
        writes = []
        for c in g.calls():
            cal = c.get('callee') or ''
            if cal in ('memcpy', 'memmove', 'memset', 'psf_fread', 'psf_fgets') and g.s(g.unwrap(g.args(c)[0])).startswith('(psf->header.ptr') or cal in ('memcpy', 'memmove', 'memset', 'psf_fread') and g.s(g.unwrap(g.args(c)[0])).startswith('psf->header.ptr'):
                writes.append(c)
            if cal.startswith('header_put_'):
                writes.append(c)
        for n in g.walk():
            if n['k'] == 'BinaryOperator' and n['op'] == '=' and g.s(n['kids'][0]).startswith('psf->header.ptr['):
                writes.append(n)
        bad = [w for w in writes if not any(g.cfg.dominates(p_, w) for p_ in gp)]
        ctx.ob('HDR-CACHE', name, not bad and bool(writes) or (not writes), g.loc(g.body), '%d write(s) into the header cache, %s' % (len(writes), 'all after a capacity test' if not bad else
               'NOT preceded by a capacity test: %s' % [g.loc(w) for w in bad[:4]]), None)

    ctx.rule('INIT-VALIDATE', 'every division or modulo by a file-derived geometry field (blocksize, samplesperblock, channels, blockwidth, bytewidth) in a codec init or reader init is dominated by a test that '
             'excludes zero for that field, or the divisor has a proven lower bound >= 1 (geometry handed in by the container parser as a parameter)', floor=3)
    GEOM = ('blocksize', 'samplesperblock', 'blockwidth', 'bytewidth', 'channels', 'blockalign', 'shortsperblock', 'frames_per_block')
    ninit = 0
    for g in prog.lib_fns():
        if not (g.name.endswith('_init') or g.name.endswith('_reader_init') or g.name.endswith('_writer_init')):
            continue
        divs = [n for n in g.walk() if n['k'] in ('BinaryOperator', 'CompoundAssignOperator') and n['op'] in ('/', '%', '/=', '%=')]
        if not divs:
            continue
        bdg = Bounds(prog, g, eff)
        bdg.entry_facts = {'psf->sf.channels': __import__('engine.bounds', fromlist=['B']).B(1, 1024)}
        for k, n in enumerate(divs):
            d = g.unwrap(g.N[n['kids'][1]])
            if 'v' in d:
                continue
            names = {x['n'] for x in g.walk(d) if x['k'] in ('MemberExpr', 'DeclRefExpr')}
            if not (names & set(GEOM)):
                continue
            # only geometry that reaches this init from its caller (header fields passed as parameters, or struct fields copied from them)
            pnames = {q['n'] for q in g.params if q['t'] in ('int', 'unsigned int', 'short', 'long')}
            fromparam = {lv.split('->')[-1] for (lv, an, rhs) in assigned_lvalues(g) if rhs is not None and g.unwrap(rhs)['k'] == 'DeclRefExpr' and g.unwrap(rhs)['n'] in pnames}
            if not (names & (pnames | fromparam)):
                continue
            ninit += 1
            bb = bdg.ev(d)
            ok = (bb.lo is not None and bb.lo >= 1) or ('!=', '0') in bb.lbs
            ctx.ob('INIT-VALIDATE', '%s:%s#%d' % (g.name, g.s(d)[:40], k), ok, g.loc(n), 'divisor %s %s' % (g.s(d), 'proven >= 1 (%s..%s)' % (bb.lo, bb.hi) if ok else 'NOT proven non-zero (%r)' % bb), None)
    ctx.require(ninit >= 3, 'only %d geometry divisions by caller-supplied values found in init functions' % ninit)

    ctx.rule('TABLE-INDEX', 'every subscript of a file-scope table (format tables, error table, G.711 / ADPCM step tables, channel layouts ...) with a non-constant index is proved inside the table by A-PENT '
             '(guards, clamps, masks, index type, return range of clamp helpers); the subscripts whose bound depends on array contents are listed in tables/table_index.tsv with one written argument each; '
             'vendored codec directories (GSM610, G72x, ALAC) are not judged', floor=70)
    from engine.tableindex import table_index
    n_ti, n_tin = table_index(ctx, prog, eff)
    ctx.require(n_ti >= 70, 'only %d table subscripts found' % n_ti)
    ctx.rule('GEOM-LINK', 'block codecs whose decode loop is bounded by blocksize while the sample buffer is sized by samplesperblock (MS ADPCM, WAV IMA ADPCM): the reader init rejects a header in which '
             'samplesperblock is smaller than the count that blocksize implies - the rejecting test `samplesperblock OP count` (count computed from blocksize in the same function) has OP in '
             '{!=, <, <=} and its then-branch returns an error', floor=2)
    n_gl = 0
    for f in sorted(prog.lib_fns(), key=lambda f: (f.file, f.line)):
        if not (f.file.endswith('ms_adpcm.c') or f.file.endswith('ima_adpcm.c')) or 'init' not in f.name:
            continue
        defs_c = [(lv, a, r) for lv, a, r in assigned_lvalues(f) if lv == 'count' and r is not None and 'blocksize' in f.s(r)]
        if not defs_c:
            continue
        hits = []
        for n in f.walk():
            if n['k'] != 'IfStmt':
                continue
            cn = f.unwrap(f.N[n['cond']])
            if cn.get('k') != 'BinaryOperator' or cn.get('op') not in ('!=', '<', '<=', '>', '>=', '=='):
                continue
            l, r = f.s(f.unwrap(f.N[cn['kids'][0]])), f.s(f.unwrap(f.N[cn['kids'][1]]))
            if l.endswith('samplesperblock') and r == 'count':
                hits.append((n, cn, cn['op']))
            elif r.endswith('samplesperblock') and l == 'count':
                hits.append((n, cn, {'<': '>', '>': '<', '<=': '>=', '>=': '<='}.get(cn['op'], cn['op'])))
        n_gl += 1
        ok = any(op in ('!=', '<', '<=') and any(x['k'] == 'ReturnStmt' for x in f.walk(f.N[n['then']])) for n, cn, op in hits)
        ctx.ob('GEOM-LINK', f.name, ok, f.loc(hits[0][0]) if hits else f.loc(defs_c[0][1]), ('`%s` -> error' % f.s(hits[0][1])) if ok else
               'no test rejects samplesperblock < count (count = %s): the decode loop runs to blocksize and stores past the buffer sized by samplesperblock%s' % (
                   f.s(defs_c[0][2])[:60], (' (found only `%s`)' % f.s(hits[0][1])) if hits else ''), None)
    ctx.require(n_gl >= 2, 'only %d reader inits with a blocksize-derived count found' % n_gl)

    ctx.rule('SIZEOF-MATCH', 'every sized copy (snprintf, psf_strlcpy, strncpy, memcpy, memset ...) whose size argument is sizeof (object) names the object it writes to '
             '(a sizeof of a different, smaller or larger, member type-checks and truncates or overflows silently)', floor=60)
    from engine.sizeofrule import sizeof_match
    sizeof_match(ctx, prog)
    from engine.fixture import generic_fixture
    generic_fixture(ctx, [('SIZEOF-MATCH', lambda c_, p_: sizeof_match(c_, p_, minimum=0), 'bad_sizeof')])

    ctx.rule('FMT-FIRST', 'in the header readers, a per-channel table (peak_info_calloc, wavlike_read_peak_chunk) is allocated only after the channel count is final: dominated by the assignment of '
             'SF_INFO.channels, or by a rejecting parse-state test whose mask contains the bit set where the channel count is parsed', floor=4)
    from engine.fmtfirst import fmt_first
    fmt_first(ctx, prog, eff)

    ctx.rule('COUNT-TABLE', 'a heap table T = calloc (N, ...) and its count N stay paired: every path from an assignment of a new (non-zero) count to a use that hands out T together with N '
             '(a call passing both, a loop bounded by N that subscripts T) passes an assignment of T', floor=8)
    from engine.counttable import count_table
    count_table(ctx, prog)
    from engine.fixture import generic_fixture as _gf
    _gf(ctx, [('COUNT-TABLE', count_table, 'bad_counttable')])

    from engine.run import borrow
    borrow(ctx, 'C09', ['WRAPPER'], 'the zero fill at the end of the data in the public read wrappers is a write into the caller\'s buffer: its size must be the one of the sample type (sibling sheets)')
    borrow(ctx, 'C13', ['GROW-CAP', 'ITER-BOUNDS'], 'the read-chunk table grows while a header is parsed: capacity bookkeeping is memory safety of the parser')

    ctx.rule('ALLOC-INDEX', 'every subscript T [i] of a table allocated in the same function as T = calloc (N, ...) with a variable count has i < N proved by A-PENT at the subscript '
             '(the chunk tables are decided by C13 ITER-BOUNDS, shared above)', floor=3)
    nai = 0
    for f_ in sorted(prog.lib_fns(), key=lambda f: (f.file, f.line)):
        pairs_ = {}
        for lv, a, r in assigned_lvalues(f_):
            if r is None:
                continue
            ru = f_.unwrap(r)
            if ru.get('k') == 'CallExpr' and ru.get('callee') == 'calloc':
                cn = f_.unwrap(f_.args(ru)[0])
                if cn.get('v') is None and not lv.endswith('->chunks'):
                    pairs_[lv] = f_.s(cn)
        if not pairs_:
            continue
        bd_ = None
        kk = 0
        for x in f_.walk():
            if x['k'] != 'ArraySubscriptExpr':
                continue
            T_ = f_.s(f_.unwrap(f_.N[x['kids'][0]]))
            if T_ not in pairs_:
                continue
            if bd_ is None:
                bd_ = Bounds(prog, f_, eff)
            idx = f_.unwrap(f_.N[x['kids'][1]])
            # `T [k++]` : the index used is the value before the increment
            if idx.get('k') == 'UnaryOperator' and idx.get('op') == 'post++':
                idx = f_.unwrap(f_.N[idx['kids'][0]])
            b = bd_.ev_at(idx, f_.cfg.point(x))
            N_ = pairs_[T_]
            ok = ('<', N_) in b.ubs
            nai += 1
            kk += 1
            ctx.ob('ALLOC-INDEX', '%s:%s[%s]#%d' % (f_.name, T_, f_.s(idx)[:20], kk), ok, f_.loc(x), 'index %s of %s (allocated with %s entries): %s' % (f_.s(idx), T_, N_, 'proved < %s' % N_ if ok else
                   'NOT proved below the allocated count (facts: %s) — a write / read one past the table' % sorted(b.ubs)[:4]), repr(b))
    ctx.require(nai >= 3, 'only %d subscripts of locally allocated tables found' % nai)

    ctx.rule('STR-GROW', 'psf_store_string: when storage_used + needed exceeds storage_len, the new length has a lower bound L (an arm of its max / the assigned expression) with '
             'L - (storage_used + needed) >= 0 for all sizes, given storage_used <= storage_len: the copy to storage + storage_used stays inside the reallocated block', floor=2)
    from engine.strgrow import str_grow
    str_grow(ctx, prog)

    from engine.parseloops import chunk_loop_eof as _cle, neg_skip as _nsk
    ctx.rule('CHUNK-LOOP-EOF', 'every header-parser loop that starts a round by reading a chunk marker (`m` / `h` field of psf_binheader_readf) leaves when that read delivers nothing: an exit under '
             '`target == 0` (READF-ZERO makes the target zero after a failed read), or under a test of the freshly assigned byte count of that very read; a parser that keeps interpreting '
             'zeros as chunks can run for ever on a truncated stream', floor=7)
    n_cle_ = _cle(ctx, prog)
    ctx.require(n_cle_ >= 7, 'only %d marker-reading parser loops found' % n_cle_)
    ctx.rule('NEG-SKIP', 'every relative header skip (`j` field of psf_binheader_readf) with a signed amount is proved non-negative at the call (A-PENT, or the enclosing guard orders the operands of '
             '`A - B`); unsigned amounts cannot step back; a negative skip re-parses bytes already consumed and is how a hostile chunk size makes the parser loop for ever '
             '(unproved sites: tables/c03_negskip.tsv, one written argument each)', floor=75)
    fz_ = {}
    for l_ in open(os.path.join(VERIF, 'tables', 'c03_negskip.tsv')):
        if l_.strip() and not l_.startswith('#'):
            k_, v_ = l_.rstrip('\n').split('\t', 1)
            fz_[k_] = v_
    n_ns_ = _nsk(ctx, prog, eff, frozen=fz_)
    ctx.require(n_ns_ >= 75, 'only %d relative skips found' % n_ns_)

    ctx.rule('PTR-SCALE', 'for memset / memcpy / psf_fread / psf_fwrite (size 1) whose buffer is P + K with P a pointer to elements wider than a byte, the byte length is not of the form N - K: '
             'K would move the start by K * sizeof (*P) bytes while shortening the length by K bytes only (the zero-fill-after-a-short-read slip: the call runs past the end of the block)', floor=4)
    from engine.ptrscale import ptr_scale
    n_ps_ = ptr_scale(ctx, prog)
    ctx.require(n_ps_ >= 4, 'only %d byte-count calls on a scaled pointer found' % n_ps_)
    from engine.fixture import generic_fixture as _gfps
    _gfps(ctx, [('PTR-SCALE', ptr_scale, 'bad_ptrscale')])

    ctx.rule('IO-COUNT', 'as in C14 / C15 (same engine): in every loop that works off a remaining count R, each psf_fread / psf_fwrite of the body transfers exactly what is accounted for, and a read '
             'that is accounted for by the request rather than by its result ends the loop when it comes back short - a skip loop that ignores a dead stream runs R / chunk times with R taken '
             'from the file (the open call does not return)', floor=30)
    from engine.iocount import io_count as _ioc3
    n_io3 = _ioc3(ctx, prog)
    ctx.require(n_io3 >= 30, 'only %d counted transfers found' % n_io3)

    ctx.rule('READF-ZERO', 'psf_binheader_readf clears the caller\'s target (`*ptr = 0` / memset (ptr, 0, n)) in every format arm before header_read fills it: after a short or failed read the '
             'parser sees zeros, never the previous chunk\'s bytes or uninitialised memory (LOOP-IO relies on exactly this to conclude that parser loops notice a dead stream)', floor=9)
    from engine.arms import switch_arm_stmts as _sas
    from engine.util import assigned_lvalues as _alz
    rf_ = prog.fn('psf_binheader_readf', 'common.c')
    sws_ = [n for n in rf_.walk() if n['k'] == 'SwitchStmt']
    ctx.require(sws_, 'psf_binheader_readf has no format switch')
    nz_ = 0
    for vals_, names_, hd_, stmts_ in _sas(rf_, sws_[0]):
        reads_ = [c for st in stmts_ for c in rf_.calls(root=st) if c.get('callee') == 'header_read']
        if not reads_:
            continue
        clears_ = []
        for st in stmts_:
            for lv, a, r in _alz(rf_, st):
                if lv.startswith('*') and r is not None and (rf_.unwrap(r).get('v') == 0 or rf_.unwrap(r).get('fv') == 0.0):
                    clears_.append(a)
            for c in rf_.calls(root=st):
                if c.get('callee') == 'memset' and rf_.unwrap(rf_.args(c)[1]).get('v') == 0:
                    clears_.append(c)
        ok_ = bool(clears_) and all(any((x['l'], x['c']) < (rd['l'], rd['c']) for x in clears_) for rd in reads_)
        nz_ += 1
        ctx.ob('READF-ZERO', "format '%s'" % ''.join(chr(v) for v in vals_ if 32 <= v < 127), ok_, rf_.loc(reads_[0]), 'target %s before the read' % ('cleared' if ok_ else
               'NOT cleared: a failed read leaves stale bytes in the caller\'s variable / buffer, which the header parser then uses'), None)
    ctx.require(nz_ >= 9, 'only %d reading format arms found' % nz_)

