"""C14 — path / descriptor / virtual-I/O / embedded access routes."""
import os
from engine.bounds import Bounds
from engine.effects import Effects
from engine.util import assigned_lvalues

EXPLANATION = ('Decides the structure that makes the three access routes one implementation: (IO-LAYER) raw descriptor syscalls and the descriptor fields are used only inside '
               'src/file_io.c (frozen exceptions with reasons); (ROUTE) every descriptor syscall in an I/O primitive is reached only with psf->virtual_io == 0, i.e. after the branch that '
               'serves the call through the SF_VIRTUAL_IO callbacks; (FD-OWN) psf_fclose reaches the raw close only with virtual_io == 0 and do_not_close_descriptor == 0, sf_open_fd derives '
               'that flag from close_desc and closes the caller descriptor on its own early failures iff close_desc; (FD-INIT) all three open entry points initialise the descriptor fields '
               'to -1 (psf_init_files) right after allocation, before anything that can fail or close; (OFFSET-SYM) fileoffset is added on SEEK_SET and subtracted from every absolute '
               'position returned by psf_fseek / psf_ftell; (EMBED) the embedding whitelist and the append-at-end positioning of embedded write opens. Byte-for-byte equality of results '
               'across routes is NOT decided.')
NOT_DECIDED = ['equality of SF_INFO / samples / bytes across routes (needs execution)', 'pipe route sample delivery']
ASSUMPTIONS = ['POSIX build (the Win32 half of file_io.c is not compiled in this configuration)']

RAW = {'open', 'close', 'read', 'write', 'lseek', 'fstat', 'ftruncate', 'fsync', 'dup', 'dup2', 'fdopen', 'pread', 'pwrite', 'lseek64', 'fstat64', 'ftruncate64'}
# raw syscall users outside file_io.c, confirmed by reading
RAW_EXCEPTIONS = {('sndfile.c', 'sf_open_fd', 'close'): 'closes the caller descriptor on an early failure before a handle exists (only if close_desc)'}
FD_EXCEPTIONS = {('sndfile.c', 'sf_open_fd'): 'stores the caller descriptor into the new handle', ('sndfile.c', 'psf_open_file'): 'logging only',
                 ('sd2.c', 'sd2_open'): 'logs the resource fork descriptor', ('common.c', 'psf_allocate'): 'none'}


def run(ctx):
    prog = ctx.prog
    eff = Effects(prog)

    # ------------------------------------------------------------------ IO-LAYER
    ctx.rule('IO-LAYER', 'calls to raw descriptor syscalls (open close read write lseek fstat ftruncate fsync dup fdopen) and accesses to PSF_FILE.filedes / savedes occur only in src/file_io.c; '
             'frozen exceptions name one function each with a reason', floor=12)
    n_in = 0
    for f in prog.lib_fns():
        base = f.file.split('/src/')[-1]
        for c in f.calls(RAW):
            if base == 'file_io.c':
                n_in += 1
                ctx.ob('IO-LAYER', 'file_io.c:%s:%s@%d' % (f.name, c['callee'], len([x for x in f.calls(c['callee']) if x['id'] <= c['id']])), True, f.loc(c), '%s in the I/O layer' % c['callee'], None)
            else:
                ok = (base, f.name, c['callee']) in RAW_EXCEPTIONS
                if not ok and f.static:
                    # the same exception when the statement lives in a static helper that only the excepted function calls
                    callers_ = set(prog.callers.get(f.name, ()))
                    for (b_, fn_, cal_), why_ in RAW_EXCEPTIONS.items():
                        if b_ == base and cal_ == c['callee'] and callers_ and callers_ <= {fn_}:
                            ok = True
                ctx.ob('IO-LAYER', '%s:%s:%s' % (base, f.name, c['callee']), ok, f.loc(c), 'raw %s () outside file_io.c%s' % (
                    c['callee'], ' (frozen exception: %s)' % RAW_EXCEPTIONS.get((base, f.name, c['callee']), 'helper of an excepted function') if ok else ': only the I/O layer may touch descriptors'), None)
        if base != 'file_io.c':
            acc = [n for n in f.walk() if n['k'] == 'MemberExpr' and n.get('rec') == 'PSF_FILE' and n['n'] in ('filedes', 'savedes')]
            if acc:
                ok = (base, f.name) in FD_EXCEPTIONS
                ctx.ob('IO-LAYER', '%s:%s:filedes' % (base, f.name), ok, f.loc(acc[0]), 'descriptor field accessed outside file_io.c%s' % (
                    ' (frozen exception: %s)' % FD_EXCEPTIONS[(base, f.name)] if ok else ''), None)
    ctx.require(n_in >= 10, 'only %d raw syscalls found in file_io.c' % n_in)

    # ------------------------------------------------------------------ ROUTE
    ctx.rule('ROUTE', 'in every function of file_io.c that takes the handle: each raw syscall whose arguments mention psf->file.filedes is reached only with psf->virtual_io == 0 '
             '(the virtual route returned through the vio callback before); frozen exceptions: primitives without an SF_VIRTUAL_IO counterpart', floor=6)
    NO_VIO = {'psf_fsync': 'no vio callback for sync', 'psf_fgets': 'header line reader used by descriptor-only text formats', 'psf_ftruncate': 'no vio callback for truncate',
              'psf_fclose': 'checked by FD-OWN', 'psf_is_pipe': 'returns before for virtual', 'psf_use_rsrc': 'resource fork swap (SD2, descriptor route only)',
              'psf_set_file': 'test helper', 'psf_file_valid': 'validity probe', 'psf_close_rsrc': 'resource fork', 'psf_open_rsrc': 'resource fork', 'psf_fopen': 'path route open',
              'psf_set_stdio': 'stdio route', 'psf_init_files': 'initialiser'}
    for f in prog.lib_fns():
        if not f.file.endswith('file_io.c') or not f.params or 'sf_private_tag' not in f.params[0]['t']:
            continue
        uses = []
        for c in f.calls():
            if c.get('callee') in RAW or c.get('callee') in ('psf_get_filelen_fd', 'psf_close_fd'):
                if any(x['k'] == 'MemberExpr' and x['n'] == 'filedes' and 'rsrc' not in f.s(x) for a in f.args(c) for x in f.walk(a)):
                    uses.append(c)
        if not uses:
            continue
        vn = [n for n in f.walk() if n['k'] == 'MemberExpr' and f.s(n) == 'psf->virtual_io']
        bd = Bounds(prog, f, eff)
        for c in uses:
            key = '%s:%s' % (f.name, c['callee'])
            if f.name in NO_VIO:
                ctx.ob('ROUTE', key, True, f.loc(c), 'frozen exception: %s' % NO_VIO[f.name], None)
                continue
            ok = False
            if vn:
                b = bd.ev_at(vn[0], f.cfg.point(c))
                ok = b.hi == 0
            if not ok and f.static:
                # a static helper of the I/O layer that holds the system call: the fact is owed by its callers, at each call
                sites = [(g, cc) for g in prog.lib_fns() if g.file == f.file and g.name != f.name for cc in g.calls(f.name)]
                def site_ok(g, cc):
                    gv = [n for n in g.walk() if n['k'] == 'MemberExpr' and g.s(n) == 'psf->virtual_io']
                    pt_ = g.cfg.point(cc)
                    return pt_ is None or (bool(gv) and Bounds(prog, g, eff).ev_at(gv[0], pt_).hi == 0)
                ok = bool(sites) and all(site_ok(g, cc) for g, cc in sites)
            ctx.ob('ROUTE', key, ok, f.loc(c), '%s on the descriptor %s' % (c['callee'], 'only with virtual_io == 0' if ok else 'reachable WITHOUT the virtual-I/O route having been taken first'), None)

    # ------------------------------------------------------------------ FD-OWN
    ctx.rule('FD-OWN', 'psf_fclose reaches the raw close of file.filedes only with virtual_io == 0 and do_not_close_descriptor == 0; sf_open_fd stores !close_desc into do_not_close_descriptor; '
             'its early failing returns close (fd) only under close_desc; psf_close calls psf_fclose exactly once', floor=3)
    f = prog.fn('psf_fclose', 'file_io.c')
    bd = Bounds(prog, f, eff)
    cl = [c for c in f.calls(('psf_close_fd', 'close'))]
    ctx.require(cl, 'psf_fclose does not close')
    for c in cl:
        facts = {}
        for path in ('psf->virtual_io', 'psf->file.do_not_close_descriptor'):
            nn = [n for n in f.walk() if n['k'] == 'MemberExpr' and f.s(n) == path]
            facts[path] = bool(nn) and bd.ev_at(nn[0], f.cfg.point(c)).hi == 0
        ok = all(facts.values())
        ctx.ob('FD-OWN', 'psf_fclose:close', ok, f.loc(c), 'raw close guarded by %s' % {k: v for k, v in facts.items()}, None)
    f = prog.fn('sf_open_fd', 'sndfile.c')
    st = [(lv, n, rhs) for (lv, n, rhs) in assigned_lvalues(f) if lv.endswith('do_not_close_descriptor')]
    ok = bool(st) and all(rhs is not None and 'close_desc' in f.s(rhs) and (f.s(rhs).startswith('!') or '? SF_FALSE : SF_TRUE' in f.s(rhs) or '? 0 : 1' in f.s(rhs)) for (lv, n, rhs) in st)
    ctx.ob('FD-OWN', 'sf_open_fd:flag', ok, f.loc(st[0][1]) if st else f.loc(f.body), 'do_not_close_descriptor = %s' % ([f.s(r) for (_, _, r) in st] or 'NOT SET'), None)
    bd = Bounds(prog, f, eff)
    cd = [n for n in f.walk() if n['k'] == 'DeclRefExpr' and n['n'] == 'close_desc']
    for c in f.calls('close'):
        b = bd.ev_at(cd[0], f.cfg.point(c)) if cd else None
        ok = b is not None and (b.lo is not None and b.lo >= 1 or ('!=', '0') in b.lbs)
        ctx.ob('FD-OWN', 'sf_open_fd:early-close@%d' % len([x for x in f.calls('close') if x['id'] <= c['id']]), ok, f.loc(c), 'close (fd) on early failure %s' % ('only when close_desc is set' if ok else 'NOT guarded by close_desc'), None)
    # failure exits collected in a static helper: its close () must be guarded by a parameter that every call in sf_open_fd feeds from close_desc
    for hc in f.calls():
        hs = prog.fns.get(hc.get('callee') or '', [])
        if len(hs) != 1 or not hs[0].static or hs[0].file != f.file or not list(hs[0].calls('close')):
            continue
        h = hs[0]
        hb = Bounds(prog, h, eff)
        for c in h.calls('close'):
            okh = False
            for k_, p_ in enumerate(h.params):
                pn = [n for n in h.walk() if n['k'] == 'DeclRefExpr' and n['n'] == p_['n']]
                if not pn:
                    continue
                b = hb.ev_at(pn[0], h.cfg.point(c))
                if (b.lo is not None and b.lo >= 1) or ('!=', '0') in b.lbs:
                    if k_ < len(f.args(hc)) and f.s(f.unwrap(f.args(hc)[k_])) == 'close_desc':
                        okh = True
            ctx.ob('FD-OWN', 'sf_open_fd:early-close via %s@%d' % (h.name, hc['l']), okh, f.loc(hc), 'close (fd) in the failure helper %s %s' % (h.name, 'only when the close_desc it is given is set' if okh else 'NOT guarded by close_desc'), None)

    # ------------------------------------------------------------------ FD-INIT
    ctx.rule('FD-INIT', 'sf_open, sf_open_fd and sf_open_virtual call psf_init_files (psf) after psf_allocate and before any psf_close / psf_open_file / psf_fopen / psf_set_file; '
             'psf_init_files stores -1 into file.filedes, rsrc.filedes and file.savedes', floor=4)
    for name in ('sf_open', 'sf_open_fd', 'sf_open_virtual'):
        f = prog.fn(name, 'sndfile.c')
        inits = list(f.calls('psf_init_files'))
        later = list(f.calls(('psf_close', 'psf_open_file', 'psf_fopen', 'psf_set_file', 'psf_copy_filename')))
        ok = bool(inits) and all(any(f.cfg.dominates(i, c) for i in inits) for c in later)
        ctx.ob('FD-INIT', name, ok, f.loc(inits[0]) if inits else f.loc(f.body), 'psf_init_files %s' % ('dominates every later use / release of the handle' if ok else
               'is MISSING or does not dominate %s: descriptor fields stay 0 and sf_close would close descriptor 0' % [c['callee'] for c in later if not any(f.cfg.dominates(i, c) for i in inits)]), None)
    f = prog.fn('psf_init_files', 'file_io.c')
    got = {lv for (lv, n, rhs) in assigned_lvalues(f) if rhs is not None and f.unwrap(rhs).get('v') == -1}
    need = {'psf->file.filedes', 'psf->rsrc.filedes', 'psf->file.savedes'}
    ctx.ob('FD-INIT', 'psf_init_files', need <= got, f.loc(f.body), 'sets %s to -1' % sorted(got), None)

    # ------------------------------------------------------------------ OFFSET-SYM
    ctx.rule('OFFSET-SYM', 'psf_fseek adds psf->fileoffset to the offset in the SEEK_SET arm and every return on the descriptor route of psf_fseek / psf_ftell that yields a position subtracts '
             'psf->fileoffset; psf_get_filelen subtracts it in write mode', floor=4)
    f = prog.fn('psf_fseek', 'file_io.c')
    adds = [n for n in f.walk() if n['k'] == 'CompoundAssignOperator' and n['op'] == '+=' and f.s(n['kids'][0]) == 'offset' and f.s(n['kids'][1]) == 'psf->fileoffset']
    ok = False
    from engine.util import branch_facts as _bf14
    for n in adds:
        for a in f.ancestors(n):
            if a['k'] == 'CaseStmt' and a.get('cn') in ('SEEK_SET', '0') or (a['k'] == 'CaseStmt' and a.get('cv') == 0):
                ok = True
        # the same as an if chain: `if (whence == SEEK_SET) offset += psf->fileoffset`
        if any(pol and cs in ('(whence==SEEK_SET)', '(whence==0)') for cs, pol in _bf14(f, n)):
            ok = True
    ctx.ob('OFFSET-SYM', 'psf_fseek:SEEK_SET', ok, f.loc(adds[0]) if adds else f.loc(f.body), 'offset += psf->fileoffset %s' % ('in the SEEK_SET arm' if ok else 'MISSING in the SEEK_SET arm'), None)
    for name in ('psf_fseek', 'psf_ftell'):
        f = prog.fn(name, 'file_io.c')
        ls = list(f.calls('lseek'))
        ctx.require(ls, '%s has no lseek' % name)
        for r in f.cfg.returns():
            e = f.unwrap(f.N[r['kids'][0]])
            # returns reachable after the lseek that return a non-constant
            if e.get('v') is not None or not any(f.cfg.dominates(l, r) for l in ls):
                continue
            s = f.s(e)
            ok = s.endswith('- psf->fileoffset)')
            ctx.ob('OFFSET-SYM', '%s:return' % name, ok, f.loc(r), 'returns %s' % s, None)
    f = prog.fn('psf_get_filelen', 'file_io.c')
    sub = [n for (lv, n, rhs) in assigned_lvalues(f) if lv == 'filelen' and rhs is not None and f.s(rhs) == '(filelen - psf->fileoffset)']
    ctx.ob('OFFSET-SYM', 'psf_get_filelen:write', bool(sub), f.loc(sub[0]) if sub else f.loc(f.body), 'filelen - psf->fileoffset %s' % ('present' if sub else 'MISSING'), None)

    # ------------------------------------------------------------------ EMBED
    ctx.rule('EMBED', 'psf_open_file, explored per container with fileoffset > 0: for WAV, WAVEX, AIFF, AU, MPEG, FLAC the refusal SFE_NO_EMBED_SUPPORT is unreachable, for every other container no path reaches the success return; '
             'an embedded write open positions at the end of the container (psf_fseek (psf, 0, SEEK_END)) before recording fileoffset = psf_ftell (psf); RDWR is refused', floor=25)
    f = prog.fn('psf_open_file', 'sndfile.c')
    E = prog.enums
    want = {E[k] for k in ('SF_FORMAT_WAV', 'SF_FORMAT_WAVEX', 'SF_FORMAT_AIFF', 'SF_FORMAT_AU', 'SF_FORMAT_MPEG', 'SF_FORMAT_FLAC')}
    # what the open path decides, not how it is written (a switch in psf_open_file, a predicate helper, a table): psf_open_file is explored for every container
    # with the stream at an offset inside another file; the refusal must be unreachable for the six containers that may be embedded, and for every other container no
    # path may reach the success return
    from engine.peval import PEval as _PE14
    pe14 = _PE14(prog, sticky=('sf.format', 'file.mode', 'sf.channels', 'sf.samplerate', 'endian', '->fileoffset'), effects=eff)
    majors = sorted({v_ for k_, v_ in E.items() if k_.startswith('SF_FORMAT_') and (v_ & 0x0FFF0000) and not (v_ & 0xFFFF) and k_ not in ('SF_FORMAT_TYPEMASK',)})
    ctx.require(len(majors) >= 25, 'only %d container constants found' % len(majors))
    names = {v_: k_ for k_, v_ in E.items() if k_.startswith('SF_FORMAT_') and v_ in majors}

    def explore14(fmt, mode, off=100):
        env = {'psf->sf.format': fmt, 'psf->sf.channels': 1, 'psf->sf.samplerate': 44100, 'sfinfo->format': fmt, 'sfinfo->channels': 1, 'sfinfo->samplerate': 44100,
               'psf->file.mode': mode, 'psf->error': 0, 'psf->fileoffset': off}
        r = pe14.explore(f, env)
        pe14.memo.clear()
        blob = [str(x[2]) for x in r.local_assigns] + [str(x) for x in r.store_exprs] + [str(x) for x in r.ret_exprs]
        succ = any(fn == 'psf_open_file' and v != 0 for (fn, line, v) in r.ret_sites)
        return succ, blob
    for c_ in majors:
        succ, blob = explore14(c_ | E['SF_FORMAT_PCM_16'], E['SFM_READ'])
        refused = any('SFE_NO_EMBED_SUPPORT' in x for x in blob)
        if c_ in want:
            ctx.ob('EMBED', 'whitelist:%s' % names[c_], not refused, f.loc(f.body), '%s may be embedded: the refusal SFE_NO_EMBED_SUPPORT is %s' % (names[c_], 'unreachable' if not refused else 'REACHABLE'), None)
        else:
            ctx.ob('EMBED', 'whitelist:%s' % names[c_], not succ, f.loc(f.body), '%s at an offset inside another file: %s' % (names[c_], 'the open cannot succeed%s' % (' (SFE_NO_EMBED_SUPPORT)' if refused else '')
                   if not succ else 'the open has a feasible success path: a container outside the whitelist is accepted as an embedded file'), None)
    # the write positioning lives in psf_open_file or in a static helper of sndfile.c it calls
    grp14 = [f] + [g for c2 in f.calls() for g in prog.fns.get(c2.get('callee') or '', []) if g.static and g.file == f.file]
    tells = [(g, n, rhs) for g in grp14 for (lv, n, rhs) in assigned_lvalues(g) if lv == 'psf->fileoffset' and rhs is not None and g.unwrap(rhs).get('callee') == 'psf_ftell']
    ctx.require(tells, 'psf_open_file no longer records fileoffset = psf_ftell')
    for (g, n, rhs) in tells:
        seeks = [c for c in g.calls('psf_fseek') if g.s(g.args(c)[1]) == '0' and g.unwrap(g.args(c)[2]).get('v') == 2]
        # the seek must be in the same arm and dominate the tell
        ok = any(g.cfg.dominates(c, n) and g.cfg.point(c)[0] == g.cfg.point(n)[0] for c in seeks)
        ctx.ob('EMBED', 'write-append', ok, g.loc(n), 'fileoffset = psf_ftell (psf) %s' % ('taken after psf_fseek (psf, 0, SEEK_END) in the same arm' if ok else
               'NOT preceded by psf_fseek (psf, 0, SEEK_END): an embedded write would overwrite the container in place'), None)
    succ, blob = explore14(E['SF_FORMAT_WAV'] | E['SF_FORMAT_PCM_16'], E['SFM_RDWR'])
    okrw = (not succ) and any('SFE_NO_EMBEDDED_RDWR' in x for x in blob)
    ctx.ob('EMBED', 'rdwr-refused', okrw, f.loc(f.body), 'embedded RDWR %s' % ('refused with SFE_NO_EMBEDDED_RDWR, no success path' if okrw else 'no longer refused'), None)

    ctx.rule('FD-VALID', 'every test of a descriptor value against a constant is `< 0`, `>= 0` or an (in)equality with a negative code: descriptor 0 is valid and must be closed like any other', floor=6)
    from engine.fdvalid import fd_valid
    fd_valid(ctx, prog)
    from engine.fixture import generic_fixture
    generic_fixture(ctx, [('FD-VALID', lambda c_, p_: fd_valid(c_, p_, minimum=0), 'bad_fd')])

    ctx.rule('IO-COUNT', 'in every loop that works off a remaining count R (R -= V in the body), each psf_fread / psf_fwrite of the body transfers exactly V, or R is decremented by the call\'s own result: '
             'what is transferred is what is accounted for (the pipe route of header_seek skips by reading and must not swallow bytes of the following chunk)', floor=100)
    from engine.iocount import io_count
    ctx.require(io_count(ctx, prog) >= 100, 'too few accounted transfers found')
    from engine.fixture import generic_fixture as _gf
    _gf(ctx, [('IO-COUNT', io_count, 'bad_iocount')])

    ctx.rule('PIPE-SKIP', 'au_read_header consumes everything in front of the audio through psf_binheader_readf (which works on every route) and never repositions with psf_fseek, '
             'which is a no-op on a pipe: an annotated AU file read from a pipe must start at the same sample as from a file', floor=1)
    au = prog.fn('au_read_header', 'au.c')
    sk = list(au.calls('psf_fseek'))
    jr = [c for c in au.calls('psf_binheader_readf') if 'j' in (au.unwrap(au.args(c)[1]).get('s') or '')]
    ctx.ob('PIPE-SKIP', 'au_read_header', not sk and bool(jr), au.loc(sk[0]) if sk else au.loc(au.body), '%d psf_fseek call(s), %d skip(s) by reading ("j")%s' % (len(sk), len(jr), '' if not sk and jr else
           ' — the annotation is skipped by seeking: on a pipe its bytes are decoded as the first samples'), None)

    ctx.rule('OFFSET-ACCUM', 'outside the open functions that establish it (sf_open_fd, psf_open_file), psf->fileoffset is only ever adjusted relatively (`+=`): an absolute store forgets the '
             'offset at which an embedded file starts', floor=1)
    from engine.util import assigned_lvalues as _alo
    nfo = 0
    for g in sorted(prog.lib_fns(), key=lambda g: (g.file, g.line)):
        if g.name in ('sf_open_fd', 'psf_open_file'):
            continue
        # a static helper of sndfile.c that only the open path calls is part of the open path
        if g.static and g.file.endswith('/sndfile.c') and prog.callers.get(g.name) and set(prog.callers.get(g.name)) <= {'sf_open_fd', 'psf_open_file'}:
            continue
        for lv, a, r in _alo(g):
            if lv != 'psf->fileoffset':
                continue
            nfo += 1
            ok = a['k'] == 'CompoundAssignOperator' and a.get('op') == '+='
            ctx.ob('OFFSET-ACCUM', '%s#%d' % (g.name, nfo), ok, g.loc(a), '`%s` %s' % (g.s(a)[:70], 'adjusts the offset relatively' if ok else
                   'stores an absolute value: for a file embedded at offset k > 0 every later psf_ftell / psf_fseek is off by k'), None)
    ctx.require(nfo >= 1, 'no adjustment of psf->fileoffset outside the open functions found')

    ctx.rule('OFFSET-RELATIVE', 'the container parsers work in positions relative to the embedded file (psf_ftell / psf_fseek / psf_get_filelen already take psf->fileoffset out, and the readers trim '
             'psf->filelength to the embedded length): outside file_io.c, the open functions of sndfile.c and the ID3 / MPEG code that moves the offset itself, psf->fileoffset is only tested '
             '(compared with a constant, or used as a truth value), logged or reported - never an operand of position arithmetic, where it would be counted a second time on the embedded route only',
             floor=5)
    n_or = 0
    for g in sorted(prog.lib_fns(), key=lambda g: (g.file, g.line)):
        base = os.path.basename(g.file)
        if base in ('file_io.c', 'sndfile.c', 'id3.c', 'mpeg_decode.c', 'test_file_io.c'):
            continue
        for x in g.walk():
            if x['k'] != 'MemberExpr' or x.get('n') != 'fileoffset':
                continue
            n_or += 1
            ok, how = False, 'operand of arithmetic'
            prev = x
            for a in g.ancestors(x):
                k = a['k']
                if k in ('ImplicitCastExpr', 'CStyleCastExpr', 'ParenExpr'):
                    prev = a
                    continue
                if k == 'BinaryOperator' and a.get('op') in ('>', '<', '>=', '<=', '==', '!='):
                    other = [g.unwrap(c) for c in g.kids(a) if not g.within(x, c)]
                    ok = bool(other) and all(o['k'] == 'IntegerLiteral' for o in other)
                    how = 'compared with a constant' if ok else 'compared with a computed position'
                elif k == 'BinaryOperator' and a.get('op') in ('&&', '||'):
                    ok, how = True, 'truth value'
                elif k == 'UnaryOperator' and a.get('op') == '!':
                    ok, how = True, 'truth value'
                elif k in ('IfStmt', 'ConditionalOperator', 'WhileStmt') and g.kids(a) and g.kids(a)[0]['id'] == prev['id']:
                    ok, how = True, 'truth value'
                elif k == 'CallExpr' and a.get('callee') == 'psf_log_printf':
                    ok, how = True, 'logged'
                break
            ctx.ob('OFFSET-RELATIVE', '%s#%d' % (g.name, n_or), ok, g.loc(x), 'psf->fileoffset %s in `%s`%s' % (how, g.s(a)[:90], '' if ok else
                   ': positions and psf->filelength are already relative to the embedded file, so the embedding offset is counted twice (embedded route differs from the path route)'), None)
    ctx.require(n_or >= 5, 'fewer than 5 uses of psf->fileoffset in the container parsers')


    ctx.rule('MARKER-ARM', 'in the header readers, an if / else on the file\'s leading marker (RIFF vs RIFX, .snd vs dns., the MAT4 / PAF byte-order markers) treats both byte orders alike: the two arms '
             'assign the same handle fields (psf->...), unless one arm leaves the function; a statement that trims the embedded length or sets geometry for one byte order only makes the '
             'other route parse past the embedded file', floor=6)
    n_ma = 0
    for f in sorted(prog.lib_fns(), key=lambda f: (f.file, f.line)):
        if 'read_header' not in f.name:
            continue
        for x in f.walk():
            if x['k'] != 'IfStmt' or x.get('else') is None:
                continue
            cn = f.unwrap(f.N[x['cond']])
            if cn.get('k') != 'BinaryOperator' or cn.get('op') not in ('==', '!=') or f.s(f.unwrap(f.N[cn['kids'][0]])) != 'marker':
                continue
            th, el = f.N[x['then']], f.N[x['else']]
            a = {lv for lv, _, _ in assigned_lvalues(f, th) if lv.startswith('psf->')}
            b = {lv for lv, _, _ in assigned_lvalues(f, el) if lv.startswith('psf->')}
            leaves = lambda st: any(y['k'] in ('ReturnStmt', 'GotoStmt') for y in f.walk(st))
            n_ma += 1
            ok = a == b or leaves(th) or leaves(el) or (el['k'] == 'IfStmt')
            ctx.ob('MARKER-ARM', '%s@%d' % (f.name, x['l']), ok, f.loc(x), '`%s`: then-arm assigns %s, else-arm assigns %s%s' % (f.s(cn)[:40], sorted(a) or 'nothing', sorted(b) or 'nothing',
                   '' if ok else ': one byte order gets handle state the other does not'), None)
    ctx.require(n_ma >= 6, 'only %d marker if/else arms found' % n_ma)

    ctx.rule('STDIO-OWN', 'psf_set_stdio puts descriptor 0 / 1 - which the library did not open - into psf->file.filedes: on every path on which it does so it also sets '
             'psf->file.do_not_close_descriptor, so that sf_close leaves the process\'s stdin / stdout open (psf_close_fd is only skipped under that flag); '
             'sf_open_fd derives the flag from close_desc', floor=3)
    ss = prog.fn('psf_set_stdio', 'file_io.c')
    n_so = 0
    for lv, a, r in assigned_lvalues(ss):
        if lv != 'psf->file.filedes' or r is None or ss.unwrap(r).get('v') not in (0, 1, 2):
            continue
        n_so += 1
        # a store of 1 / SF_TRUE into the flag in the same switch arm (between this statement and the arm's break), or dominating the function's exit after it
        flag = [a2 for lv2, a2, r2 in assigned_lvalues(ss) if lv2 == 'psf->file.do_not_close_descriptor' and r2 is not None and ss.unwrap(r2).get('v') not in (0, None)]
        ok = False
        for a2 in flag:
            pa, pb = ss.cfg.point(a), ss.cfg.point(a2)
            if pa is None or pb is None:
                continue
            # every path from the descriptor store to the exit passes the flag store
            if ss.cfg.must_pass(pa, [a2])[0] or (pa[0] == pb[0]):
                ok = True
        ctx.ob('STDIO-OWN', 'psf_set_stdio:filedes=%d' % ss.unwrap(r)['v'], ok, ss.loc(a), 'descriptor %d is handed to the handle %s' % (ss.unwrap(r)['v'], 'together with do_not_close_descriptor' if ok else
               'but do_not_close_descriptor stays 0: sf_close closes the process\'s standard stream (the next file opened gets that descriptor number)'), None)
    ofd = prog.fn('sf_open_fd', 'sndfile.c')
    okfd = any(lv == 'psf->file.do_not_close_descriptor' and r is not None and 'close_desc' in ofd.s(r) for lv, a, r in assigned_lvalues(ofd))
    n_so += 1
    ctx.ob('STDIO-OWN', 'sf_open_fd', okfd, ofd.loc(ofd.body), 'do_not_close_descriptor is %s' % ('derived from close_desc' if okfd else 'NOT derived from close_desc'), None)
    ctx.require(n_so >= 3, 'psf_set_stdio: only %d descriptor hand-overs found' % n_so)

    ctx.rule('OFFSET-ROUTE', 'the position primitives treat psf->fileoffset (start of the sound data inside the file: embedding, ID3v2 tag) alike on every route: in psf_fseek and psf_ftell the '
             'branch taken for virtual I/O uses psf->fileoffset whenever the descriptor path of the same function does (a tagged file opened through sf_open_virtual otherwise parses and '
             'reads from positions that are off by the tag length); psf_get_filelen is frozen: the descriptor path corrects the length in SFM_WRITE only, where virtual I/O has no offset', floor=2)
    n_or = 0
    for nm in ('psf_fseek', 'psf_ftell'):
        g = prog.fn(nm, 'file_io.c')
        vb = [n for n in g.walk() if n['k'] == 'IfStmt' and g.s(n['cond']).replace('(', '').replace(')', '').strip() == 'psf->virtual_io']
        ctx.require(vb, '%s has no virtual I/O branch' % nm)
        th = g.N[vb[0]['then']]
        in_v = any(x['k'] == 'MemberExpr' and x['n'] == 'fileoffset' for x in g.walk(th))
        in_d = any(x['k'] == 'MemberExpr' and x['n'] == 'fileoffset' and not g.within(x, th) for x in g.walk())
        n_or += 1
        ok = in_v or not in_d
        ctx.ob('OFFSET-ROUTE', nm, ok, g.loc(vb[0]), 'descriptor path %s psf->fileoffset, virtual I/O branch %s it' % ('uses' if in_d else 'does not use', 'uses' if in_v else 'does NOT use') +
               ('' if ok else ': through sf_open_virtual every position is off by the length of the ID3v2 tag that the path / descriptor routes skip'), None)
    ctx.require(n_or >= 2, 'position primitives not found')
