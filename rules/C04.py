"""C04 — a closed file describes exactly what was written into it."""
from engine.util import assigned_lvalues
from engine.peval import PEval
from engine.effects import Effects

EXPLANATION = ('Decides: (CLOSE-HDR) every container close hook, in write and read/write mode, rewrites the header through the container\'s write_header with calc_length = SF_TRUE, after '
               'the tailer when there is one (frozen exceptions: containers whose header carries no length); (WH-CALC) in every write_header the calc_length block recomputes filelength from the '
               'real file size, datalength from filelength - dataoffset (minus the tail when dataend is set) and the frame count from datalength / (bytewidth * channels) (frozen, reasoned '
               'exceptions); (HDR-NO-POS) no write_header reads the read/write positions — lengths come from frame count and data length only; (FRAMES-INIT) the five sample-granular inits '
               'derive frames from datalength / blockwidth with blockwidth = bytewidth * channels; (STALE-FRAMES) the caller-supplied frame count is zeroed by every container on the write-open path; (CODEC-ID) for WAV, WAVEX, W64, AU and AIFF the named encoding code a writer arm emits for a subformat is mapped back to that subformat by the reader arm for the same code. '
               'The arithmetic N <= F < N + B, pad frames and rate representability are NOT decided.')
NOT_DECIDED = ['frame count arithmetic for block codecs and padding', 'sample rate representability', 'codec id agreement for containers whose codes are anonymous literals (CAF, VOC, PAF, IRCAM, MAT4/5, SVX, NIST)']
ASSUMPTIONS = ['psf_get_filelen returns the real size (C14/C15)']

NO_LENGTH = {'ircam_close': 'IRCAM header has no length field', 'pvf_close': 'PVF header has no length field', 'xi_close': 'the XI sample-size field is not rewritten at close; the reader ignores it and derives the length from the file size (replayed: 1000 frames written, 1000 after re-open)',
             'sd2_close': 'SD2 writes its resource fork instead', 'paf24_close': 'codec hook (PAF header carries no length)'}
CALC_EXC = {'ircam_write_header': 'no length in header', 'paf_write_header': 'no length in header', 'pvf_write_header': 'no length in header', 'xi_write_header': 'length from sample header',
            'htk_write_header': 'sample count computed from filelength inline', 'sds_write_header': 'frame count kept by the block codec (total_written)'}
FRAMES_EXC = {'au_write_header': 'AU stores a byte length only', 'wav_write_header': 'frame count kept by wrappers; data length from tailer/dataend'}
FILELEN_EXC = {'mat5_write_header': 'uses psf_ftell after seeking to the end'}


def close_hdr(ctx, prog):
    E = prog.enums
    eff = Effects(prog)
    wh = {f.name: f for f in prog.slot_fns('write_header')}
    ctx.rule('CLOSE-HDR', 'every function in the container_close slot calls a write_header function (directly or through psf->write_header) with calc_length = SF_TRUE on the path taken in '
             'SFM_WRITE mode, and any *_write_tailer call precedes it', floor=15)
    pe = PEval(prog, sticky=('file.mode',), effects=eff)
    for f in prog.slot_fns('container_close'):
        if f.name in NO_LENGTH:
            ctx.ob('CLOSE-HDR', f.name, True, f.loc(f.body), 'frozen exception: %s' % NO_LENGTH[f.name], None)
            continue
        calls = []
        for c in f.calls():
            sl = prog.indirect_callee_slot(f, c)
            if c.get('callee') in wh or (sl and sl[1] == 'write_header'):
                calls.append(c)
        okarg = bool(calls) and all(f.unwrap(f.args(c)[1]).get('v') == 1 for c in calls)
        r = pe.explore(f, {'psf->file.mode': E['SFM_WRITE']})
        feasible = any((f.name, f.cfg.point(c)[0]) in r.reached for c in calls)
        tail = [c for c in f.calls() if c.get('callee', '') and c['callee'].endswith('_write_tailer')]
        oktail = all(any(f.cfg.dominates(t, c) for t in tail) for c in calls) if tail else True
        ok = okarg and feasible and oktail
        ctx.ob('CLOSE-HDR', f.name, ok, f.loc(calls[0]) if calls else f.loc(f.body), 'header rewrite %s' % (
            'with SF_TRUE, reached in write mode%s' % (', after the tailer' if tail else '') if ok else
            ('MISSING' if not calls else 'not with SF_TRUE' if not okarg else 'not reached in write mode' if not feasible else 'happens BEFORE the tailer is written')), None)



def tail_rules(ctx, prog):
    wh = {f.name: f for f in prog.slot_fns('write_header')}
    # ---- containers that put chunks after the audio (tailer writers)
    ctx.rule('TAIL-STALE', 'for every container with a *_write_tailer: when psf->dataend is unknown (cleared by a write) and the encoding is sample granular, the calc_length block takes the data length from '
             'the frame count (sf.frames * bytewidth * channels), not from the file length — in SFM_RDWR mode stale chunks of the previous session may still follow the data and must not be counted '
             'as audio (frozen exception: AIFF refuses RDWR unless SSND is the last chunk)', floor=4)
    ctx.rule('TAILER-DATAEND', 'in every *_write_tailer psf->dataend is the end of the audio data: assigned from psf_fseek (psf, 0, SEEK_END) or dataoffset + datalength before anything is written, never '
             'advanced afterwards (a pad byte is not data)', floor=4)
    tailers = [f for f in prog.lib_fns() if f.name.endswith('_write_tailer')]
    ctx.require(len(tailers) >= 4, 'only %d tailer writers found' % len(tailers))
    for t in sorted(tailers, key=lambda f: f.file):
        base = t.file.split('/')[-1]
        # TAILER-DATAEND
        bad = []
        n_as = 0
        for lv, a, r in assigned_lvalues(t):
            if lv != 'psf->dataend':
                continue
            n_as += 1
            rs = t.s(r) if r is not None else None
            if a['k'] == 'UnaryOperator' or a.get('op') != '=' or rs not in ('psf_fseek(psf, 0, 2)', 'psf_fseek(psf, 0, SEEK_END)', '(psf->dataoffset + psf->datalength)'):
                bad.append((a, rs))
        # the recomputation from the frame count must not be suppressed by the value it replaces: a stale psf->dataend (left by the parser, not cleared by
        # SFC_FILE_TRUNCATE) would survive to close and the tail chunks would be written at the old end of the audio
        for lv, a, r in assigned_lvalues(t):
            if lv == 'psf->dataend' and r is not None and t.s(r) == '(psf->dataoffset + psf->datalength)':
                for anc in t.ancestors(a):
                    if anc['k'] == 'IfStmt' and 'dataend' in t.s(anc['cond']):
                        bad.append((anc, 'the end of the audio is recomputed from the frame count only under `%s`: a stale non-zero dataend is kept' % t.s(anc['cond'])[:60]))
        ctx.ob('TAILER-DATAEND', t.name, not bad, t.loc(bad[0][0]) if bad else t.loc(t.body), '%d assignment(s) of psf->dataend, all end-of-audio positions' % n_as if not bad else
               'psf->dataend modified by `%s` (%s): bytes that are not audio (padding) are counted into the data length, the header written at close reports too many frames' % (t.s(bad[0][0])[:60], bad[0][1]), None)
        # TAIL-STALE
        w = [f for f in wh.values() if f.file == t.file]
        if not w:
            continue
        w = w[0]
        if base == 'aiff.c':
            rh = prog.fn('aiff_read_header', 'aiff.c')
            guard = any('SFE_AIFF_RW_SSND_NOT_LAST' in rh.s(n) for n in rh.walk() if n['k'] == 'ReturnStmt') or any(n.get('n') == 'SFE_AIFF_RW_SSND_NOT_LAST' for n in rh.walk())
            ctx.ob('TAIL-STALE', w.name, guard, w.loc(w.body), 'frozen exception: aiff_read_header refuses SFM_RDWR unless SSND is the last chunk (SFE_AIFF_RW_SSND_NOT_LAST present: %s)' % guard, None)
            continue
        # the header writer together with the static helpers of its file that it calls (the calc_length block may have been split off)
        group_ = [w] + [g_ for c_ in w.calls() for g_ in prog.fns.get(c_.get('callee') or '', []) if g_.static and g_.file == w.file]
        dl = [g_.s(r) for g_ in group_ for lv, a, r in assigned_lvalues(g_) if lv == 'psf->datalength' and r is not None]
        want = '((psf->sf.frames * psf->bytewidth) * psf->sf.channels)'
        arm = None
        for g_ in group_:
            for n in g_.walk():
                if n['k'] == 'IfStmt' and g_.s(n['cond']) == 'psf->dataend' and n.get('else') is not None:
                    if any(lv == 'psf->datalength' and r is not None and g_.s(r) == want for lv, a, r in assigned_lvalues(g_, n['else'])):
                        arm = n
                        w_arm = g_
        ctx.ob('TAIL-STALE', w.name, arm is not None, w_arm.loc(arm) if arm else w.loc(w.body), 'with dataend unknown the data length is %s' % ('taken from the frame count' if arm else
               'taken from the file length only (%s): stale chunks after the data are counted as audio by a header update in SFM_RDWR mode' % dl), None)



def run(ctx):
    prog = ctx.prog
    E = prog.enums
    eff = Effects(prog)
    wh = {f.name: f for f in prog.slot_fns('write_header')}
    ctx.require(len(wh) >= 19, 'write_header slot has %d functions' % len(wh))

    close_hdr(ctx, prog)

    ctx.rule('WH-CALC', 'in each write_header: under `if (calc_length)` filelength = psf_get_filelen (psf); datalength = filelength - dataoffset; if dataend, datalength -= filelength - dataend; '
             'sf.frames = datalength / (bytewidth * channels)  (reasoned exceptions frozen per function)', floor=14)
    for name, f in sorted(wh.items()):
        if name in CALC_EXC:
            ctx.ob('WH-CALC', name, True, f.loc(f.body), 'frozen exception: %s' % CALC_EXC[name], None)
            continue
        calc = f.params[1]['n']
        blk = None
        for n in f.walk():
            if n['k'] == 'IfStmt' and f.s(n['cond']) == calc:
                blk = n
                break
        if blk is None:
            ctx.ob('WH-CALC', name, False, f.loc(f.body), 'no `if (%s)` block: lengths are not recomputed at close' % calc, None)
            continue
        facts = {lv: [] for lv in ('psf->filelength', 'psf->datalength', 'psf->sf.frames')}
        for lv, a, r in assigned_lvalues(f, blk['then']):
            if lv in facts and r is not None:
                facts[lv].append(f.s(r))
        # a calc_length block that was moved into a static helper of the same file still is the calc_length block
        for c_ in f.calls(root=f.N[blk['then']]):
            for g_ in prog.fns.get(c_.get('callee') or '', []):
                if g_.static and g_.file == f.file:
                    for lv, a, r in assigned_lvalues(g_):
                        if lv in facts and r is not None:
                            facts[lv].append(g_.s(r))
        miss = []
        if name not in FILELEN_EXC and 'psf_get_filelen(psf)' not in facts['psf->filelength']:
            miss.append('filelength not taken from psf_get_filelen (found %s)' % facts['psf->filelength'])
        if name in FILELEN_EXC:
            # the exception measures the file itself: psf->filelength = psf_ftell (psf) after psf_fseek (psf, 0, SEEK_END)
            fl_as = [a for lv, a, r in assigned_lvalues(f, blk['then']) if lv == 'psf->filelength' and r is not None and f.s(r) == 'psf_ftell(psf)']
            ends = [c for c in f.calls('psf_fseek') if f.unwrap(f.args(c)[1]).get('v') == 0 and f.unwrap(f.args(c)[2]).get('v') == 2]
            if not fl_as or not any(f.cfg.dominates(e_, a_) for e_ in ends for a_ in fl_as) or len(facts['psf->filelength']) != len(fl_as):
                miss.append('filelength is not measured (psf_ftell after psf_fseek to SEEK_END): found %s — the current write position is not the file length once the handle seeks (SFM_RDWR)' % facts['psf->filelength'])
        if '(psf->filelength - psf->dataoffset)' not in facts['psf->datalength']:
            miss.append('datalength not recomputed as filelength - dataoffset (found %s)' % facts['psf->datalength'])
        if name not in FRAMES_EXC and '(psf->datalength / (psf->bytewidth * psf->sf.channels))' not in facts['psf->sf.frames']:
            miss.append('frames not recomputed as datalength / (bytewidth * channels) (found %s)' % facts['psf->sf.frames'])
        ctx.ob('WH-CALC', name, not miss, f.loc(blk), 'calc_length block recomputes lengths from the real file size' if not miss else '; '.join(miss), facts)

    tail_rules(ctx, prog)

    # ---- NARROW-GUARD
    ctx.rule('NARROW-GUARD', 'in the header writers: where a quantity is converted to a narrower integer type under a range test (the writer chooses a wider field otherwise), the test implies the '
             'destination range: A-PENT upper bound of the operand at the conversion <= maximum of the destination type (a test against 0xFFFFF before a store into unsigned short truncates)', floor=2)
    from engine.model import int_type
    from engine.bounds import Bounds
    nng = 0
    for name, f in sorted(wh.items()):
        bd = None
        for n in f.walk():
            if n.get('ck') != 'IntegralCast' or n['k'] != 'ImplicitCastExpr':
                continue
            srcn = f.N[n['kids'][0]]
            ts, td = int_type(srcn.get('t')), int_type(n.get('t'))
            if not ts or not td or td[0] >= ts[0] or f.unwrap(srcn).get('v') is not None:
                continue
            if f.unwrap(srcn)['k'] not in ('MemberExpr', 'DeclRefExpr', 'ConditionalOperator'):
                continue            # arithmetic on lengths: bounds come from the arithmetic, not from a range test (not decided)
            pt = f.cfg.point(n)
            if pt is None:
                continue
            if bd is None:
                bd = Bounds(prog, f, eff)
            b = bd.ev_at(f.unwrap(srcn), pt)
            smax = 2 ** (ts[0] - 1) - 1 if ts[1] else 2 ** ts[0] - 1
            if b.hi is None or b.hi >= smax:
                continue            # no range test in force: N-dependent length arithmetic, not decided
            dmax = 2 ** (td[0] - 1) - 1 if td[1] else 2 ** td[0] - 1
            nng += 1
            ok = b.hi <= dmax
            ctx.ob('NARROW-GUARD', '%s:%s' % (name, f.s(srcn)[:50]), ok, f.loc(n), '%s (%s) stored as %s: the range test in force gives <= %d, the destination holds <= %d%s' % (
                f.s(srcn)[:50], srcn.get('t'), n.get('t'), b.hi, dmax, '' if ok else ' — values in between are truncated and the file describes something else than what was written'), repr(b))
    ctx.require(nng >= 2, 'only %d guarded narrowing conversions found in the header writers' % nng)

    ctx.rule('HDR-NO-POS', 'no function in the write_header slot (nor the tailer writers) reads psf->read_current / psf->write_current: header length fields derive from the frame count and data length only', floor=19)
    for name, f in sorted(wh.items()):
        pos = [n for n in f.walk() if n['k'] == 'MemberExpr' and n.get('rec') == 'sf_private_tag' and n['n'] in ('write_current', 'read_current')]
        ctx.ob('HDR-NO-POS', name, not pos, f.loc(pos[0]) if pos else f.loc(f.body), 'no position field used' if not pos else 'uses %s to compute header contents' % sorted({f.s(n) for n in pos}), None)

    ctx.rule('FRAMES-INIT', 'pcm_init, float32_init, double64_init, ulaw_init, alaw_init: blockwidth = bytewidth * channels (constant bytewidth folded), datalength = dataend ? dataend - dataoffset : '
             'filelength - dataoffset, sf.frames = datalength / blockwidth', floor=5)
    width = {'pcm_init': 'psf->bytewidth', 'float32_init': '4', 'double64_init': '8', 'ulaw_init': None, 'alaw_init': None}
    for name, w in width.items():
        f = prog.fn(name)
        facts = {}
        # the init itself and static helpers of the same file it calls (a helper extracted from the init still belongs to it)
        group = [f] + [g_ for c_ in f.calls() for g_ in prog.fns.get(c_.get('callee') or '', []) if g_.static and g_.file == f.file]
        for g_ in group:
            for lv, a, r in assigned_lvalues(g_):
                if r is not None:
                    facts.setdefault(lv, []).append(g_.s(r))
        miss = []
        bw = facts.get('psf->blockwidth', [])
        if w is None:
            if 'psf->sf.channels' not in bw or '1' not in facts.get('psf->bytewidth', []):
                miss.append('blockwidth %s / bytewidth %s' % (bw, facts.get('psf->bytewidth')))
        elif '(%s * psf->sf.channels)' % w not in bw:
            miss.append('blockwidth is %s, expected %s * channels' % (bw, w))
        dl = facts.get('psf->datalength', [])
        # both sources of the length must be there, as the two arms of a ?: or of an if / else
        if not (any('(psf->dataend - psf->dataoffset)' in x for x in dl) and any('(psf->filelength - psf->dataoffset)' in x for x in dl)):
            miss.append('datalength %s' % dl)
        fr = facts.get('psf->sf.frames', [])
        if not any('(psf->datalength / psf->blockwidth)' in x for x in fr):
            miss.append('frames %s' % fr)
        ctx.ob('FRAMES-INIT', name, not miss, f.loc(f.body), 'frames = datalength / (bytewidth * channels)' if not miss else '; '.join(miss), None)

    ctx.rule('STALE-FRAMES', 'on the write-open path every container that serialises a frame count resets psf->sf.frames (the caller\'s SF_INFO.frames must have no influence): feasible-path '
             'exploration of psf_open_file in SFM_WRITE mode assigns sf.frames before the success return, or the container never reads it before its first write', floor=10)
    majors = prog.global_('major_formats')['init']
    g = prog.fn('psf_open_file', 'sndfile.c')
    pe2 = PEval(prog, sticky=('sf.format', 'file.mode', 'sf.channels', 'sf.samplerate'), effects=eff)
    # representative accepted subtype per major: first PCM/other subtype accepted is taken from sf_format_check by partial evaluation
    fc = prog.fn('sf_format_check', 'sndfile.c')
    subs = [r[0] for r in prog.global_('subtype_formats')['init']]
    for row in majors:
        m = row[0]
        rep = None
        for s in subs:
            r = pe2.explore(fc, {'info->format': m | s, 'info->channels': 1, 'info->samplerate': 44100})
            if r.returns == {1}:
                rep = m | s
                break
        if rep is None:
            continue
        env = {'psf->sf.format': rep, 'psf->sf.channels': 1, 'psf->sf.samplerate': 44100, 'sfinfo->format': rep, 'sfinfo->channels': 1, 'sfinfo->samplerate': 44100,
               'psf->file.mode': E['SFM_WRITE'], 'psf->error': 0}
        r = pe2.explore(g, env)
        ok = any(w[0] == 'SF_INFO' and w[1] == 'frames' for w in r.root_writes)
        ctx.ob('STALE-FRAMES', row[1], ok, g.loc(g.body), 'write-open of %s: sf.frames %s' % (row[1], 'is reset on the open path' if ok else 'is NEVER assigned on the write-open path (caller value would reach the header)'), None)


    # ------------------------------------------------------------------ CLOSE-APPEND
    ctx.rule('CLOSE-APPEND', 'a container close hook that itself appends bytes after the audio (a terminator, written with psf_fwrite / psf_binheader_writef) before it calls write_header (psf, SF_TRUE) '
             'first records the end of the audio in psf->dataend: the header writer derives the data length from the file length minus what follows dataend, so an unrecorded terminator byte '
             'is counted as audio (VOC: one frame too many for every 1-byte mono encoding)', floor=1)
    n_ca = 0
    tgc = prog.slots.get(('sf_private_tag', 'container_close'), {})
    for name in sorted(tgc):
        if name in ('NULL', '?') or name.startswith('@'):
            continue
        for f in prog.fns.get(name, []):
            ws = [c for c in f.calls() if c.get('callee') in ('psf_fwrite', 'psf_binheader_writef')]
            if not ws:
                continue
            n_ca += 1
            first = min(ws, key=lambda c: (c['l'], c['c']))
            sets_ = [a for lv, a, r in assigned_lvalues(f) if lv == 'psf->dataend']
            ok = any(f.cfg.dominates(a, first) for a in sets_)
            ctx.ob('CLOSE-APPEND', name, ok, f.loc(first), 'bytes appended at close %s' % ('after psf->dataend was set to the end of the audio' if ok else
                   'without recording psf->dataend: the header written next counts them as audio data'), None)
    ctx.require(n_ca >= 1, 'no close hook that appends bytes found')

    # ------------------------------------------------------------------ DATALEN-IDIOM
    ctx.rule('DATALEN-IDIOM', 'every codec reader init (*_init / *_reader_init) that turns psf->datalength into a block or frame count first re-derives it from the end of the audio data: an assignment '
             '`psf->datalength = psf->dataend ... - psf->dataoffset` precedes the first use (the container parser counts the pad byte of an odd data chunk into datalength; with 65-byte '
             'GSM blocks that byte became one more block of 320 frames). Frozen: PAF has no chunks after the data; MS ADPCM takes the floor for the frame count', floor=10)
    DL_FROZEN = {'paf24_init': 'the PAF container has nothing after the audio data and never sets psf->dataend; no pad byte exists',
                 'wavlike_msadpcm_init': 'psf->sf.frames = (datalength / blocksize) * samplesperblock takes the floor: one pad byte cannot add a block to the frame count (blocks + 1 only sizes the read-ahead)'}
    n_dl = 0
    for f in sorted(prog.lib_fns(), key=lambda f: (f.file, f.line)):
        if not (f.name.endswith('_init') or 'reader_init' in f.name):
            continue
        al_ = assigned_lvalues(f)
        lhs_ = {f.unwrap(f.N[a['kids'][0]])['id'] for lv, a, r in al_ if lv == 'psf->datalength'}
        reads_ = [n for n in f.walk() if n['k'] == 'MemberExpr' and n['n'] == 'datalength' and f.s(n) == 'psf->datalength' and n['id'] not in lhs_]
        if not reads_:
            continue
        n_dl += 1
        asg_ = [a for lv, a, r in al_ if lv == 'psf->datalength' and r is not None and 'dataend' in f.s(r)]
        # reads inside the re-deriving statement itself (or its guard) do not count
        first_ = [n for n in reads_ if not any(f.within(n, a) for a in asg_) and not any(anc['k'] == 'IfStmt' and 'dataend' in f.s(anc['cond']) and f.within(n, f.N[anc['cond']]) for anc in f.ancestors(n))]
        ok = bool(asg_) and all(any((a['l'], a['c']) < (n['l'], n['c']) for a in asg_) for n in first_)
        if not ok and f.name in DL_FROZEN:
            ctx.ob('DATALEN-IDIOM', f.name, True, f.loc(f.body), 'frozen: %s' % DL_FROZEN[f.name], None)
            continue
        ctx.ob('DATALEN-IDIOM', f.name, ok, f.loc(asg_[0]) if asg_ else f.loc(reads_[0]), 'psf->datalength is re-derived from psf->dataend before it is used' if ok else
               'psf->datalength is used as the container left it: a pad byte after an odd data chunk (or anything else the parser counted in) becomes part of the audio - one phantom block', None)
    ctx.require(n_dl >= 10, 'only %d codec inits that use psf->datalength found' % n_dl)

    # ------------------------------------------------------------------ CODEC-ID
    from engine.arms import all_arms
    ctx.rule('CODEC-ID', 'TABLE-AGREE: for each writer arm keyed by SF_FORMAT_<subformat> that references a named encoding code c (WAVE_FORMAT_*, MSGUID_SUBTYPE_*, AU_ENCODING_*, *_MARKER), '
             'if the reader has an arm keyed by c that names subformats, the writer\'s subformat is among them (reader (writer (s)) = s on the named codes)', floor=25)
    subnames = {k for k, v in E.items() if k.startswith('SF_FORMAT_') and 0 < v < 0x10000}
    PAIRS = [('wav_write_fmt_chunk', ['wav_read_header']), ('wavex_write_fmt_chunk', ['wavlike_read_fmt_chunk']), ('w64_write_header', ['w64_read_header']),
             ('au_format_to_encoding', ['au_read_header']), ('aiff_write_header', ['aiff_read_comm_chunk']),
             ('rf64_write_fmt_chunk', ['wavlike_read_fmt_chunk']), ('caf_write_header', ['decode_desc_chunk'])]

    def iscode(x):
        return not (x.startswith('SF_') or x.startswith('SFE_') or x.startswith('BHW') or x.startswith('SIZEOF') or x in ('MAKE_MARKER', 'default', 'NULL')) and not x.isdigit()

    for wname, rnames in PAIRS:
        wf = prog.fn(wname)
        rmap = {}
        for rn in rnames:
            rf = prog.fn(rn)
            for keys, body, node, subj in all_arms(rf):
                subs_ = {b for b in body if b in subnames}
                for k in keys:
                    if iscode(k) and subs_:
                        rmap.setdefault(k, set()).update(subs_)
        n_pairs = 0
        for keys, body, node, subj in all_arms(wf):
            S = {k for k in keys if k in subnames}
            if not S:
                continue
            for c in sorted(b for b in body if iscode(b)):
                if c not in rmap:
                    continue
                n_pairs += 1
                ok = bool(S & rmap[c])
                ctx.ob('CODEC-ID', '%s:%s:%s' % (wname, '+'.join(sorted(S))[:60], c), ok, wf.loc(node),
                       'writer arm %s emits %s; reader maps %s to %s' % (sorted(S), c, c, sorted(rmap[c])) + ('' if ok else ' — the file would re-open as a DIFFERENT encoding'), None)
        if n_pairs < 2:
            # the writer's mapping may be a table of (subformat, code) rows searched by a loop instead of a switch: rows of every constant file-scope table of
            # pairs the function refers to are arms as well (values only survive constant folding: the code is matched by value against the reader's named keys)
            val2sub = {}
            for k_ in subnames:
                val2sub.setdefault(E[k_], set()).add(k_)
            for x in wf.walk():
                if x['k'] != 'DeclRefExpr' or x.get('dk') != 'global':
                    continue
                gl = [g_ for g_ in prog.globals if g_['name'] == x['n'] and g_.get('def', True) and g_.get('const') and isinstance(g_.get('init'), list)]
                if not gl or not all(isinstance(r_, list) and len(r_) == 2 and all(isinstance(v_, int) for v_ in r_) for r_ in gl[0]['init']):
                    continue
                # which column is searched and which is handed out: the field compared with a parameter is the key, the field in a return statement the value
                pn_ = {p_['n'] for p_ in wf.params}
                mem = [m_ for m_ in wf.walk() if m_['k'] == 'MemberExpr' and any(y['k'] == 'DeclRefExpr' and y.get('n') == x['n'] for y in wf.walk(m_))]
                keyf = [m_ for m_ in mem if any(a_['k'] == 'BinaryOperator' and a_.get('op') == '==' and any(y['k'] == 'DeclRefExpr' and y.get('n') in pn_ for y in wf.walk(a_)) for a_ in wf.ancestors(m_))]
                valf = [m_ for m_ in mem if any(a_['k'] == 'ReturnStmt' for a_ in wf.ancestors(m_)) and m_ not in keyf]
                if not keyf or not valf or keyf[0].get('off') == valf[0].get('off'):
                    continue
                ki, vi = (0, 1) if keyf[0].get('off', 0) < valf[0].get('off', 0) else (1, 0)
                for r_ in gl[0]['init']:
                    for (sv, cv) in ((r_[ki], r_[vi]),):
                        S = val2sub.get(sv, set())
                        cs = [c_ for c_ in rmap if E.get(c_) == cv]
                        if not S or not cs:
                            continue
                        for c in sorted(cs):
                            n_pairs += 1
                            ok = bool(S & rmap[c])
                            ctx.ob('CODEC-ID', '%s:%s:%s' % (wname, '+'.join(sorted(S))[:60], c), ok, wf.loc(x),
                                   'row of table %s maps %s to %s; reader maps %s to %s' % (x['n'], sorted(S), c, c, sorted(rmap[c])) + ('' if ok else ' — the file would re-open as a DIFFERENT encoding'), None)
                break
        ctx.require(n_pairs >= 2, 'CODEC-ID: no comparable arms between %s and %s' % (wname, rnames))

    ctx.rule('WIDE-PRODUCT', 'an int that was computed from a 64-bit length or position (a block count, a block index) grows with the size of the file: at every conversion int -> 64 bit whose operand is '
             '32-bit arithmetic with a product that has such a factor, A-PENT bounds the product within the 32-bit type - otherwise the frame count stored in sf.frames, the byte offset handed to '
             'psf_fseek or the position returned by a codec seek has wrapped before it was widened (a WAV / IMA ADPCM file of 2^31 frames is 1 GB: it could not be opened again)', floor=40)
    from engine.widearith import wide_product
    n_wp = wide_product(ctx, prog, eff)
    ctx.require(n_wp >= 40, 'only %d widened 32-bit products found' % n_wp)
    from engine.fixture import generic_fixture as _gf4
    from engine.effects import Effects as _Ef4
    _gf4(ctx, [('WIDE-PRODUCT', lambda c_, p_: wide_product(c_, p_, _Ef4(p_)), 'bad_wideproduct')])

    from rules.C01 import varint_rule
    varint_rule(ctx, prog)

    # ---- ENDIAN-CPU
    ctx.rule('ENDIAN-CPU', 'SF_ENDIAN_CPU means the byte order of the configured CPU: for every function that resolves it (mentions SF_ENDIAN_CPU), partial evaluation in write mode with the format\'s endian '
             'bits = SF_ENDIAN_CPU stores no byte-order constant that the same function does not also store when the CPU order is requested explicitly (the file must describe, and use, host order)', floor=8)
    MAJOR = {'au.c': 'SF_FORMAT_AU', 'aiff.c': 'SF_FORMAT_AIFF', 'wav.c': 'SF_FORMAT_WAV', 'raw.c': 'SF_FORMAT_RAW', 'caf.c': 'SF_FORMAT_CAF', 'paf.c': 'SF_FORMAT_PAF', 'dwd.c': 'SF_FORMAT_DWD',
             'ircam.c': 'SF_FORMAT_IRCAM', 'mat4.c': 'SF_FORMAT_MAT4', 'mat5.c': 'SF_FORMAT_MAT5', 'nist.c': 'SF_FORMAT_NIST', 'svx.c': 'SF_FORMAT_SVX'}
    host = 'SF_ENDIAN_BIG' if prog.info.get('big_endian') else 'SF_ENDIAN_LITTLE'
    nec = 0
    for f in sorted(prog.lib_fns(), key=lambda f: (f.file, f.line)):
        base = f.file.split('/')[-1]
        if base not in MAJOR or MAJOR[base] not in E:
            continue
        if not any(n['k'] == 'DeclRefExpr' and n.get('n') == 'SF_ENDIAN_CPU' for n in f.walk()):
            continue
        sets = {}
        for en in ('SF_ENDIAN_CPU', host):
            pe3 = PEval(prog, sticky=('sf.format', 'file.mode', 'endian'), effects=eff, max_depth=0)
            env = {'psf->sf.format': E[MAJOR[base]] | E['SF_FORMAT_PCM_16'] | E[en], 'psf->file.mode': E['SFM_WRITE']}
            r = pe3.explore(f, env)
            sets[en] = {x[2] for x in r.store_exprs if x[0] == f.name and x[1] == 'psf->endian' and x[2].startswith('SF_ENDIAN_')} | \
                       {x[2] for x in r.local_assigns if x[0] == f.name and x[1] == 'endian' and x[2].startswith('SF_ENDIAN_')}
        nec += 1
        extra = sets['SF_ENDIAN_CPU'] - sets[host] - {host}
        ctx.ob('ENDIAN-CPU', f.name, not extra, f.loc(f.body), 'requested SF_ENDIAN_CPU: byte-order constants stored %s; requested %s explicitly: %s%s' % (
            sorted(sets['SF_ENDIAN_CPU']), host, sorted(sets[host]), '' if not extra else ' — SF_ENDIAN_CPU resolves to %s on a %s CPU' % (sorted(extra), 'big-endian' if host.endswith('BIG') else 'little-endian')), None)
    ctx.require(nec >= 8, 'only %d functions resolving SF_ENDIAN_CPU found' % nec)

    ctx.rule('TAG-SEQ', 'MAT5: the sequence of MAT5_TYPE_* element tags written by mat5_write_header is accepted position by position by the type tests of mat5_read_header '
             '(alternatives of an if/else share a position; a switch accepts its case labels)', floor=8)
    from engine.tagseq import tag_seq
    tag_seq(ctx, prog)

    from engine.run import borrow
    borrow(ctx, 'C10', ['CHANNEL-LIMIT'], 'a file with the largest channel count sf_format_check accepts must re-open: a reader with a smaller limit refuses what was written')
    borrow(ctx, 'C01', ['FLUSH-PENDING'], 'an extra padding block appended at close makes the closed file report more frames than were written')

