"""C11 — after a header update the bytes on disk are already a valid file."""
import json
from engine.util import assigned_lvalues
from engine.effects import Effects
from engine.peval import PEval
from engine.wrappers import sheet, TYPES

EXPLANATION = ('Decides: (WH-RESTORE) every write_header saves the file position (psf_ftell) before it moves it and, on every non-error path after the header bytes were written, restores '
               'it (to the saved position, or to dataoffset when no data exists yet); (WH-NOGROW) WAV, AIFF and RF64 refuse to change dataoffset once data exists (has_data && dataoffset != header.indx -> '
               'SFE_INTERNAL) and assign dataoffset only after that guard; (UPDATE-ENTRY) SFC_UPDATE_HEADER_NOW and the auto-update tail of all eight typed write wrappers and sf_write_raw call '
               'write_header (psf, SF_TRUE) after write_current / sf.frames / dataend were brought up to date; (HDR-NO-POS) header writers never read the read/write positions; '
               '(BLOCK-RESTORE) a header writer that flushes a pending codec block temporarily restores the codec counters it saved (frozen instance: SDS). '
               'That the snapshot parses to the right prefix is NOT decided (value arithmetic / crash-point enumeration).')
NOT_DECIDED = ['the snapshot image parses to the frames written so far (needs execution)', 'SDS partial-block flush zeroes pending samples (noted by probing, value-level)']
ASSUMPTIONS = ['psf_binheader_writef only fills the header cache; psf_fwrite/psf_fseek are the only position movers']

RESTORE_EXC = {'paf_write_header': 'returns before touching the file once data exists (fixed header)', 'sd2_write_header': 'n/a'}
NOGROW = ('wav_write_header', 'aiff_write_header', 'rf64_write_header')
BLOCK_RESTORE = {'sds_write_header': ('writer', ['psds->write_count', 'psds->write_block'])}


def block_restore(ctx, prog):
    ctx.rule('BLOCK-RESTORE', 'frozen instances: a write_header that calls a codec block writer through a private function pointer saves the listed counters before the call and restores them after it '
             'on every path (the temporary flush must not advance the encoder state)', floor=1)
    for name, (slotfield, fields) in BLOCK_RESTORE.items():
        f = prog.fn(name)
        calls = [c for c in f.calls() if prog.indirect_callee_slot(f, c) and prog.indirect_callee_slot(f, c)[1] == slotfield]
        ctx.require(calls, '%s no longer calls ->%s' % (name, slotfield))
        for fld in fields:
            saves = [(n, d['n']) for n in f.walk() if n['k'] == 'DeclStmt' for d in n.get('decls', []) if 'init' in d and d['init'] >= 0 and f.s(d['init']) == fld]
            saves += [(n, f.s(n['kids'][0])) for (lv, n, rhs) in assigned_lvalues(f) if rhs is not None and f.s(rhs) == fld and f.unwrap(f.N[n['kids'][0]])['k'] == 'DeclRefExpr']
            ok = False
            for c in calls:
                sv = [v for (n, v) in saves if f.cfg.dominates(n, c)]
                rest = [n for (lv, n, rhs) in assigned_lvalues(f) if lv == fld and rhs is not None and f.s(rhs) in sv]
                if sv and rest:
                    okp, w = f.cfg.must_pass(c, rest)
                    ok = okp
            ctx.ob('BLOCK-RESTORE', '%s:%s' % (name, fld), ok, f.loc(calls[0]), '%s %s around the temporary block flush' % (fld, 'saved and restored' if ok else 'NOT saved/restored'), None)


def run(ctx):
    prog = ctx.prog
    E = prog.enums
    eff = Effects(prog)
    wh = {f.name: f for f in prog.slot_fns('write_header')}
    ctx.require(len(wh) >= 19, 'write_header slot has %d functions' % len(wh))
    movers_fn = prog.reachable_from  # shorthand

    ctx.rule('WH-RESTORE', 'in every write_header: `current = psf_ftell (psf)` dominates the first call that moves the file position, and every path from a position-moving call to a '
             'non-error return passes psf_fseek (psf, current, SEEK_SET) or psf_fseek (psf, psf->dataoffset, SEEK_SET) (paths with current <= 0 excepted)', floor=17)
    for name, f in sorted(wh.items()):
        if name in RESTORE_EXC:
            ctx.ob('WH-RESTORE', name, True, f.loc(f.body), 'frozen exception: %s' % RESTORE_EXC[name], None)
            continue
        saves = [n for (lv, n, rhs) in assigned_lvalues(f) if rhs is not None and f.unwrap(rhs).get('callee') == 'psf_ftell']
        savevars = {f.s(n['kids'][0]) for n in saves}
        seeks = list(f.calls('psf_fseek'))
        restores = [c for c in seeks if f.s(f.unwrap(f.args(c)[1])) in savevars | {'psf->dataoffset'} and f.unwrap(f.args(c)[2]).get('v') == 0]
        movers = [c for c in seeks if c not in restores] + list(f.calls('psf_fwrite'))
        for c in f.calls():
            cal = c.get('callee')
            if cal and cal in prog.fns and cal not in ('psf_fseek', 'psf_fwrite', 'psf_ftell', 'psf_get_filelen', 'psf_log_printf', 'psf_binheader_writef') and (
                    prog.reachable_from([cal], resolve_slots=False) & {'psf_fwrite', 'psf_fseek'}):
                movers.append(c)
        if not movers:
            ctx.ob('WH-RESTORE', name, True, f.loc(f.body), 'never moves the file position', None)
            continue
        first_ok = bool(saves) and all(any(f.cfg.dominates(s, m) for s in saves) for m in movers)
        # error exits count as acceptable terminations
        errexits = []
        for r in f.cfg.returns():
            if not r['kids']:
                continue
            e = f.unwrap(f.N[r['kids'][0]])
            if (e.get('v') not in (None, 0)) or (e['k'] == 'BinaryOperator' and e['op'] == '=' and f.s(e['kids'][0]).endswith('->error')):
                errexits.append(r)
            elif e['k'] in ('DeclRefExpr',) and e['n'] in ('ret', 'error'):
                errexits.append(r)
            elif f.s(e) == 'psf->error':
                # `if (psf->error) return psf->error ;` — error exit when guarded by the error test
                pr = f.N[f.parent[r['id']]] if r['id'] in f.parent else None
                while pr is not None and pr['k'] == 'CompoundStmt':
                    pr = f.N[f.parent[pr['id']]] if pr['id'] in f.parent else None
                if pr is not None and pr['k'] == 'IfStmt' and f.s(pr['cond']) == 'psf->error':
                    errexits.append(r)

        def edge_ok(b, si):
            bl = f.cfg.blocks[b]
            if 'cond' in bl and len(bl['succs']) == 2:
                cs = f.s(bl['cond'])
                if any(cs == '(%s > 0)' % v for v in savevars) and si == 1:
                    return False
            return True
        bad = None
        for m in movers:
            ok, w = f.cfg.must_pass(m, restores + errexits, edge_ok=edge_ok)
            if not ok:
                bad = (m, w)
                break
        # an exit that REFUSES (returns an error before anything was written) is owed the restore as well: the caller goes on writing audio where the file was left
        fw_pts = {f.cfg.point(c_) for c_ in f.calls('psf_fwrite') if f.cfg.point(c_) is not None}
        rs_pts = {f.cfg.point(c_) for c_ in restores if f.cfg.point(c_) is not None}
        refuse_bad = None
        # only refusals that can happen with audio in the file: they run under the flag derived from `saved position > dataoffset`
        from engine.util import branch_facts as _bfr
        has_vars = set()
        for x_ in f.walk():
            if x_['k'] == 'IfStmt' and any(v_ in f.s(x_['cond']) for v_ in savevars) and 'dataoffset' in f.s(x_['cond']):
                has_vars |= {lv_ for lv_, a_, r_ in assigned_lvalues(f, f.N[x_['then']]) if '->' not in lv_}
        for r in errexits:
            pr_ = f.cfg.point(r)
            if pr_ is None:
                continue
            if not any(pol_ and any(hv_ in c_ for hv_ in has_vars) for c_, pol_ in _bfr(f, r)):
                continue
            for m in [c_ for c_ in seeks if c_ not in restores]:
                pm_ = f.cfg.point(m)
                if pm_ is None:
                    continue
                w_ = f.cfg.path_avoiding(pm_, {pr_[0]}, fw_pts | rs_pts, edge_ok=edge_ok)
                if w_ is not None and not any(pp_[0] == pr_[0] and pp_[1] < pr_[1] for pp_ in (fw_pts | rs_pts)):
                    refuse_bad = (m, r, w_)
        ok = first_ok and bad is None and refuse_bad is None
        if first_ok and bad is None and refuse_bad is not None:
            ctx.ob('WH-RESTORE', name, False, f.loc(refuse_bad[1]), 'the refusing exit at %s is reached from the repositioning at %s with nothing written and without restoring the position: the caller\'s next write lands on the '
                   'file header (lines %s)' % (f.loc(refuse_bad[1]), f.loc(refuse_bad[0]), f.cfg.block_lines(refuse_bad[2])[-5:]), {'movers': len(movers), 'restores': len(restores)})
            continue
        msg = 'position saved before the first move and restored on every non-error path' if ok else (
            'position not saved (psf_ftell) before the file position is moved' if not first_ok else
            'after %s at %s a non-error return is reachable without restoring the position: lines %s' % (bad[0].get('callee'), f.loc(bad[0]), f.cfg.block_lines(bad[1])))
        ctx.ob('WH-RESTORE', name, ok, f.loc(f.body), msg, {'movers': len(movers), 'restores': len(restores)})

    ctx.rule('WH-NOGROW', 'every header writer whose length depends on caller-supplied content (it reads psf->strings / wchunks / cues / instrument / bext / cart / peak_info / channel_map: WAV, AIFF, RF64, CAF): a branch on `has_data && psf->dataoffset != psf->header.indx` returns SFE_INTERNAL, and every assignment psf->dataoffset = psf->header.indx and the write of the header bytes themselves are dominated by it', floor=6)
    # every header writer whose length depends on what the caller stored (strings, custom chunks, cues, PEAK ...), not a frozen list
    VAR_FIELDS = ('strings', 'wchunks', 'cues', 'instrument', 'broadcast_16k', 'cart_16k', 'peak_info', 'channel_map')
    nogrow = sorted(n_ for n_, f_ in wh.items() if any(x['k'] == 'MemberExpr' and x.get('rec') == 'sf_private_tag' and x['n'] in VAR_FIELDS for x in f_.walk()))
    ctx.require(set(NOGROW) <= set(nogrow), 'variable-length header writers found: %s' % nogrow)
    for name in nogrow:
        f = wh.get(name) or prog.fn(name)
        guards_ = [b for b in f.cfg.blocks.values() if 'cond' in b and 'psf->dataoffset != psf->header.indx' in f.s(b['cond'])]
        hd = [b for b in f.cfg.blocks.values() if 'cond' in b and f.s(b['cond']) == 'has_data']
        asg = [n for (lv, n, rhs) in assigned_lvalues(f) if lv == 'psf->dataoffset' and rhs is not None and f.s(rhs) == 'psf->header.indx']
        ok = bool(guards_) and bool(asg) and all(any(f.cfg.dominates((g['id'], len(g['elems'])), a) for g in guards_ + hd) for a in asg)
        rets = [f.s(x) for x in f.walk() if x['k'] == 'ReturnStmt' and x['kids'] and 'SFE_INTERNAL' in f.s(x['kids'][0])]
        ok = ok and bool(rets)
        ctx.ob('WH-NOGROW', name, ok, f.loc(f.body), 'no-grow guard %s' % ('present and dominates the dataoffset update' if ok else 'MISSING or bypassed'), None)
        # a header that got SHORTER (a string replaced after the audio) must be made up for, otherwise the guard above refuses the final header
        # update and the file keeps the frame count of the first header (0): a zero fill sized from dataoffset - header.indx precedes the data marker
        from engine.util import local_defs as _ld11
        padvars = {nm_ for nm_, ds_ in _ld11(f).items() if any(d_ is not None and 'psf->dataoffset' in f.s(d_) and 'psf->header.indx' in f.s(d_) for d_ in ds_)}
        pads = []
        for c_ in f.calls('psf_binheader_writef'):
            fm_ = f.unwrap(f.args(c_)[1]).get('s') or ''
            if 'z' not in fm_:
                continue
            for a_ in f.args(c_)[2:]:
                as_ = f.s(a_)
                if ('psf->dataoffset' in as_ and 'psf->header.indx' in as_) or any(x['k'] == 'DeclRefExpr' and x.get('n') in padvars for x in f.walk(f.unwrap(a_))):
                    pads.append(c_)
        ctx.ob('WH-NOGROW', name + ':pad', bool(pads), f.loc(pads[0]) if pads else f.loc(f.body), 'a shorter header is filled up to the data offset (zero fill sized from psf->dataoffset - psf->header.indx)' if pads else
               'no fill construct sized from psf->dataoffset - psf->header.indx: when the header gets shorter after audio was written (a string replaced by a shorter one) the last header update is '
               'refused and the finished file keeps the frame count of its first header', None)
        # the guard must come BEFORE the header bytes are written: a header of another length written first has already destroyed audio
        hw = [c for c in f.calls('psf_fwrite') if f.s(f.unwrap(f.args(c)[0])) == 'psf->header.ptr']
        okw = bool(hw) and bool(guards_) and all(any(f.cfg.dominates((g['id'], len(g['elems'])), c) for g in guards_ + hd) for c in hw)
        ctx.ob('WH-NOGROW', name + ':before-write', okw, f.loc(hw[0]) if hw else f.loc(f.body), 'the no-grow guard %s' % ('dominates the write of the header bytes' if okw else
               'does NOT dominate psf_fwrite (psf->header.ptr ...): the longer header is written over the start of the audio before it is refused'), None)

    ctx.rule('UPDATE-ENTRY', 'SFC_UPDATE_HEADER_NOW reaches psf->write_header; in the 8 typed write wrappers and sf_write_raw the auto-update call psf->write_header (psf, SF_TRUE) comes after the '
             'updates of write_current, sf.frames and dataend', floor=10)
    f = prog.fn('sf_command', 'sndfile.c')
    pe = PEval(prog, effects=eff)
    r = pe.explore(f, {'command': E['SFC_UPDATE_HEADER_NOW']})
    ok = '@slot:sf_private_tag.write_header' in r.calls
    ctx.ob('UPDATE-ENTRY', 'SFC_UPDATE_HEADER_NOW', ok, f.loc(f.body), 'command %s psf->write_header' % ('reaches' if ok else 'does NOT reach'), None)
    for name in ['sf_write_%s' % t for t in TYPES] + ['sf_writef_%s' % t for t in TYPES] + ['sf_write_raw']:
        f = prog.fn(name, 'sndfile.c')
        flat = json.dumps(sheet(f, None))
        i_hdr = flat.rfind('psf->write_header(psf, SF_TRUE)')
        need = ['(psf->write_current += ', '(psf->sf.frames = psf->write_current)', '(psf->dataend = 0)']
        pos = [flat.find(x) for x in need]
        ok = i_hdr > 0 and all(0 <= p < i_hdr for p in pos)
        ctx.ob('UPDATE-ENTRY', name, ok, f.loc(f.body), 'auto header update %s' % ('after write_current / frames / dataend updates' if ok else
               'missing or placed before the updates %s' % [n for n, p in zip(need, pos) if not (0 <= p < i_hdr)]), None)

    ctx.rule('HDR-NO-POS', 'no function in the write_header slot reads psf->read_current / psf->write_current', floor=19)
    for name, f in sorted(wh.items()):
        pos = [n for n in f.walk() if n['k'] == 'MemberExpr' and n.get('rec') == 'sf_private_tag' and n['n'] in ('write_current', 'read_current')]
        ctx.ob('HDR-NO-POS', name, not pos, f.loc(pos[0]) if pos else f.loc(f.body), 'no position field used' if not pos else 'uses %s to compute header contents' % sorted({f.s(n) for n in pos}), None)

    block_restore(ctx, prog)

    ctx.rule('WH-STATE', 'every store / increment through a pointer in a function installed in the write_header slot goes to the header cache, to a geometry field recomputed on every call '
             '(datalength, dataoffset, filelength, sf.frames, dataend, endian, bytewidth, error) or to a listed per-container header field (engine/whstate.py, one reason each): '
             'no other persistent state (peak edit count, codec predictor, string table) may depend on how many times the header was written', floor=18)
    from engine.whstate import wh_state
    n_wh_ = wh_state(ctx, prog)
    ctx.require(n_wh_ >= 18, 'only %d header writers found' % n_wh_)

    ctx.rule('CALC-SIBS', 'the header writers that, while the file is still open, take the data length from the frame count (`psf->datalength = psf->sf.frames * psf->bytewidth * psf->sf.channels`: '
             'WAV, RF64, CAF) do so under the same condition: the branch is what keeps the bytes of a chunk behind the audio from being counted as audio during a header update in SFM_RDWR, '
             'and a sibling that narrows it (to SFM_WRITE only) reports too many frames', floor=2)
    from engine.util import branch_facts as _bf11
    inst = []
    for name, f in sorted(wh.items()):
        for lv, a, r in assigned_lvalues(f):
            if lv == 'psf->datalength' and r is not None and 'psf->sf.frames *' in f.s(r) and 'bytewidth' in f.s(r):
                facts = _bf11(f, a)
                if facts:
                    inst.append((name, f, a, facts[0]))
    ctx.require(len(inst) >= 2, 'only %d header writers take the data length from the frame count' % len(inst))
    from collections import Counter as _Cn11
    maj = _Cn11([fc for _, _, _, fc in inst]).most_common(1)[0][0]
    for name, f, a, fc in inst:
        ctx.ob('CALC-SIBS', name, fc == maj, f.loc(a), 'data length from the frame count under `%s`%s' % (fc[0][:70], '' if fc == maj else ' - the siblings use `%s`' % maj[0][:70]), None)

    ctx.rule('PAD-SIZE', 'a psf_binheader_writef call that emits a chunk marker, its size and then a run of zero bytes (`z`) inside that chunk (PAD / JUNK / free chunks, the SSND offset padding of AIFF): '
             'the size expression accounts for the zero bytes - it is the zero count itself or contains it as a term. A size that leaves the padding out makes the chunk end before its data does: '
             'the reader gets too few frames and parses audio as the next chunk', floor=4)
    n_ps = 0
    for g in sorted(prog.lib_fns(), key=lambda g_: (g_.file, g_.line)):
        for c in g.calls('psf_binheader_writef'):
            args = g.args(c)
            fm = g.unwrap(args[1]).get('s') or ''
            if 'm' not in fm or 'z' not in fm:
                continue
            # walk the format: argument index of the size that follows the marker, and of the z count
            ai, size_arg, z_arg, after_m = 2, None, None, False
            for ch in fm:
                if ch in 'eEtT!':
                    continue
                if ch == 'm':
                    after_m = True
                elif ch in '48' and after_m and size_arg is None:
                    size_arg = ai
                elif ch == 'z' and size_arg is not None:
                    z_arg = ai
                if ch in 'bGsSfdp':
                    ai += 2 if ch in 'b' else 1
                else:
                    ai += 1
            if size_arg is None or z_arg is None or z_arg >= len(args):
                continue
            n_ps += 1
            ss, zs = g.s(g.unwrap(args[size_arg])), g.s(g.unwrap(args[z_arg]))
            ok = ss == zs or (zs in ss)
            ctx.ob('PAD-SIZE', '%s@%s' % (g.name, c.get('l')), ok, g.loc(c), 'size `%s` covers the %s zero byte(s)' % (ss[:60], zs) if ok else
                   'size `%s` does not contain the `%s` zero bytes written into the same chunk: the chunk is recorded shorter than what follows its header' % (ss[:70], zs), None)
    ctx.require(n_ps >= 4, 'only %d marker + size + zero-fill header writes found' % n_ps)
