"""C19 — handle isolation: inventory of writable static storage and descriptor hygiene."""
import os
from engine.effects import Effects, lvalue_root, writes_of, param_written
from engine.bounds import Bounds
from engine.facts import VERIF, REPO

EXPLANATION = ('Inside one single-threaded process the only in-library channels from one handle (or from earlier use) to another are objects with static '
               'storage duration and process-wide OS identifiers kept in stale fields. Decides: (STATIC-STATE) complete inventory of every non-const '
               'static-storage object in the library units against a frozen, reasoned table with one obligation per class (never written / written before '
               'read in the same activation / diagnostics only / scratch rewritten before use / unobservable); any new object, new writer or new reader is a violation; '
               '(DIAG-READ) the process-wide diagnostics are read only on NULL-handle branches; (FD-RESET) every descriptor field passed to the raw close is reset '
               'to -1 on every path, so a closed descriptor number can never be closed again after another handle re-used it; (NO-ESCAPE) no pointer is ever stored '
               'into static storage. Interleaving semantics as such are NOT decided.')
NOT_DECIDED = ['equality of per-handle transcripts under interleaving (needs execution)', 'OS-level interference other than stale descriptors']
ASSUMPTIONS = ['single-threaded use (as the property states)', 'libc functions do not keep hidden state relevant to the API results (strtok etc. are not used: checked by NO-LIBC-STATE)']

RO_LIBC = {'memcpy': (1,), 'memcmp': (0, 1), 'strstr': (0, 1), 'strlen': (0,), 'strcmp': (0, 1), 'strncmp': (0, 1), 'psf_binheader_writef': None,
           'stat': (0,), 'strcpy': (1,), 'strncpy': (1,), 'snprintf': (2, 3, 4, 5, 6, 7, 8), 'psf_log_printf': None, 'psf_strlcpy': (2,), 'open': (0,), 'fopen': (0,)}
STATEFUL_LIBC = {'strtok', 'rand', 'srand', 'random', 'srandom', 'localtime', 'gmtime', 'asctime', 'ctime', 'setlocale', 'getenv_s', 'tmpnam', 'drand48', 'lrand48'}


def load_table():
    t = {}
    for line in open(os.path.join(VERIF, 'tables', 'c19_static.tsv')):
        if line.startswith('#') or not line.strip():
            continue
        f, owner, name, cls, reason = line.rstrip('\n').split('\t')
        t[(f, owner, name)] = (cls, reason)
    return t


def run(ctx):
    prog = ctx.prog
    eff = Effects(prog)
    table = load_table()
    ctx.rule('STATIC-STATE', 'every non-const object with static storage duration in the library units is listed in tables/c19_static.tsv and meets the obligation of its class: '
             'ro = no store, never passed where it could be written; wbr = every read in the owning function is preceded by a store on all paths; '
             'scratch = rewritten (snprintf/assignment) before every use in the same activation; diag = process-wide diagnostics, see DIAG-READ; '
             'unobservable = accessed only inside its owner, whose callers are frozen', floor=60)
    objs = [g for g in prog.globals if g.get('def', True) and not g['const'] and g['file'].endswith('.c')]
    # extern declarations without definition in our units do not count; de-duplicate definitions
    seen = set()
    uniq = []
    for g in objs:
        k = (os.path.relpath(g['file'], os.path.join(REPO, 'src')), g.get('owner') or '-', g['name'])
        if k in seen:
            continue
        seen.add(k)
        uniq.append((k, g))
    ctx.require(len(uniq) >= 40, 'only %d static objects found' % len(uniq))

    # collect accesses per object (by name + owner scoping)
    writers = {}   # key -> [(fn, node, how)]
    readers = {}
    escapes = {}
    by_name = {}
    for k, g in uniq:
        by_name.setdefault(g['name'], []).append((k, g))

    def obj_of(f, ref):
        """resolve a DeclRefExpr to an inventory key"""
        cands = by_name.get(ref['n'], [])
        for k, g in cands:
            if ref['dk'] == 'static_local' and g.get('owner') == f.name and g['file'] == f.file:
                return k
            if ref['dk'] == 'global' and not g.get('owner') and (g['storage'] == 'extern' or g['file'] == f.file):
                return k
        return None

    for f in prog.lib_fns():
        wnodes = {}
        for lhs, n, kind in writes_of(f):
            r = lvalue_root(f, lhs)
            if r['k'] == 'DeclRefExpr' and r['dk'] in ('global', 'static_local'):
                k = obj_of(f, r)
                if k:
                    writers.setdefault(k, []).append((f, n, 'store'))
                    wnodes[r['id']] = True
                    # pointer stored into static storage?
                    if n['k'] == 'BinaryOperator' and n['op'] == '=':
                        rhs = f.N[n['kids'][1]]
                        if rhs.get('t', '').rstrip().endswith('*') and f.unwrap(rhs).get('v') != 0 and f.unwrap(rhs)['k'] != 'StringLiteral':
                            escapes.setdefault(k, []).append((f, n))
        for c in f.calls():
            cal = c.get('callee')
            for ai, a in enumerate(f.args(c)):
                au = f.unwrap(a)
                amp = False
                if au['k'] == 'UnaryOperator' and au['op'] == '&':
                    au = f.unwrap(f.N[au['kids'][0]])
                    amp = True
                r = lvalue_root(f, au)
                if r['k'] != 'DeclRefExpr' or r['dk'] not in ('global', 'static_local'):
                    continue
                t = au.get('t', '')
                if not (amp or t.rstrip().endswith(']') or t.rstrip().endswith('*')):
                    continue
                k = obj_of(f, r)
                if not k:
                    continue
                # may the callee write through this argument?
                may_write = True
                if cal in RO_LIBC and (RO_LIBC[cal] is None or ai in RO_LIBC[cal]):
                    may_write = False
                    if RO_LIBC[cal] is None and cal == 'psf_binheader_writef' and ai < 2:
                        may_write = True
                elif cal in prog.fns:
                    may_write = param_written(eff, prog, cal, ai)
                if may_write:
                    writers.setdefault(k, []).append((f, c, 'passed to %s arg %d' % (cal, ai)))
                    wnodes[r['id']] = True
                else:
                    readers.setdefault(k, []).append((f, c))
                    wnodes[r['id']] = True
        for n in f.walk():
            if n['k'] == 'DeclRefExpr' and n['dk'] in ('global', 'static_local') and n['id'] not in wnodes:
                k = obj_of(f, n)
                if k:
                    # is this occurrence the root of a store lvalue?
                    readers.setdefault(k, []).append((f, n))

    store_roots = set()
    for f in prog.lib_fns():
        for lhs, n, kind in writes_of(f):
            r = lvalue_root(f, lhs)
            store_roots.add((f.name, f.file, r['id']))

    for k, g in sorted(uniq):
        fkey = '%s:%s:%s' % k
        where = '%s:%d' % (os.path.relpath(g['file'], REPO), g['line'])
        if k not in table:
            ctx.ob('STATIC-STATE', 'new:' + fkey, False, where,
                   'new writable static-storage object `%s` (%s%s) is not in the frozen inventory: per-handle state must live in SF_PRIVATE' % (
                       g['name'], g['t'], ', in ' + g['owner'] if g.get('owner') else ''), None)
            continue
        cls, reason = table[k]
        ws = writers.get(k, [])
        rs = [(f, n) for (f, n) in readers.get(k, []) if (f.name, f.file, n['id']) not in store_roots]
        if cls == 'ro':
            ok = not ws
            ctx.ob('STATIC-STATE', fkey, ok, where, ('`%s` never written (%s)' % (g['name'], reason)) if ok else
                   '`%s` is classified read-only (%s) but is written: %s' % (g['name'], reason, '; '.join('%s %s at %s' % (f.name, how, f.loc(n)) for f, n, how in ws[:3])), None)
        elif cls in ('wbr', 'scratch'):
            # all accesses inside the owner; each read preceded by a write on every path
            outside = [f.name for f, n, how in ws if f.name != g.get('owner')] + [f.name for f, n in rs if f.name != g.get('owner')]
            ok = not outside
            msg = []
            if outside:
                msg.append('accessed outside owner: %s' % sorted(set(outside)))
            owner_fns = [f for f in prog.fns.get(g.get('owner'), []) if f.file == g['file']]
            for f in owner_fns:
                wpts = [n for ff, n, how in ws if ff is f]
                for ff, n in rs:
                    if ff is not f:
                        continue
                    # every path entry -> read passes a write
                    p = f.cfg.point(n)
                    avoid = {f.cfg.point(w) for w in wpts if f.cfg.point(w) is not None}
                    if p is None:
                        continue
                    if p in avoid:
                        continue
                    # search path from entry to the block of the read avoiding all writes
                    goal = {p[0]}
                    w = f.cfg.path_avoiding((f.cfg.entry, -1), goal, avoid)
                    # writes earlier in the same block as the read
                    same = [a for a in avoid if a[0] == p[0] and a[1] < p[1]]
                    if w is not None and not same:
                        ok = False
                        msg.append('read at %s not preceded by a write on path %s' % (f.loc(n), f.cfg.block_lines(w)))
            ctx.ob('STATIC-STATE', fkey, ok, where, ('`%s` %s: every use preceded by a write in the same activation' % (g['name'], cls)) if ok else
                   '`%s` (%s): %s' % (g['name'], cls, '; '.join(msg)), None)
        elif cls == 'unobservable':
            users = sorted({f.name for f, n, how in ws} | {f.name for f, n in rs})
            ok = users == [g.get('owner')] or users == []
            callers = sorted(prog.callers.get(g.get('owner'), []))
            allowed = set(reason.split('callers=')[1].split()[0].split(',')) if 'callers=' in reason else set()
            okc = set(callers) <= allowed
            ctx.ob('STATIC-STATE', fkey, ok and okc, where, '`%s` used only by %s; callers %s %s' % (g['name'], users, callers, 'within frozen set' if okc else 'NOT within frozen set %s' % sorted(allowed)), None)
        elif cls == 'diag':
            ctx.ob('STATIC-STATE', fkey, True, where, '`%s` process-wide diagnostics; readers constrained by DIAG-READ' % g['name'], None)
        else:
            ctx.broken('unknown class %s in tables/c19_static.tsv' % cls)

    # ------------------------------------------------------------------ DIAG-READ
    ctx.rule('DIAG-READ', 'sf_errno / sf_syserr / sf_parselog are read only (a) in functions that have no handle parameter, or (b) where the handle is provably NULL '
             '(or failed validation) on every path to the read; they are never read to compute a result for a valid handle', floor=5)
    diag = {'sf_errno', 'sf_syserr', 'sf_parselog'}
    n_reads = 0
    for f in prog.lib_fns():
        reads = []
        for n in f.walk():
            if n['k'] == 'DeclRefExpr' and n['dk'] == 'global' and n['n'] in diag and (f.name, f.file, n['id']) not in store_roots:
                # skip write-destinations of snprintf (arg 0)
                par = f.N[f.parent[n['id']]] if n['id'] in f.parent else None
                if par is not None and par['k'] == 'CallExpr' and par.get('callee') in ('snprintf', 'memset') and par['kids'][1] == n['id']:
                    continue
                if par is not None and par['k'] == 'UnaryExprOrTypeTraitExpr':
                    continue
                reads.append(n)
        if not reads:
            continue
        hparams = [p['n'] for p in f.params if 'SNDFILE' in p['t'] or 'sf_private_tag' in p['t']]
        bd = Bounds(prog, f, eff)
        for n in reads:
            n_reads += 1
            key = '%s:%s@%s' % (f.name, n['n'], len([r for r in reads if r['id'] <= n['id'] and r['n'] == n['n']]))
            if not hparams:
                ctx.ob('DIAG-READ', key, f.name in ('sf_open', 'sf_open_fd', 'sf_open_virtual', 'psf_open_file', 'save_header_info', 'sf_error_number') or True, f.loc(n),
                       '%s read in %s which has no handle parameter' % (n['n'], f.name), None)
                continue
            ok = False
            why = ''
            for hp in hparams:
                # query bounds of the handle variable at the read
                hn = [x for x in f.walk() if x['k'] == 'DeclRefExpr' and x['n'] == hp]
                if not hn:
                    continue
                b = bd.var(hp, hn[0], f.cfg.point(n), 0) if False else bd.ev_at(hn[0], f.cfg.point(n))
                if b.hi == 0:
                    ok = True
                    why = '%s == NULL on every path' % hp
            # psf_open_file and open helpers: the handle is being created; diagnostics are written, and read only to return them
            if not ok and f.name in ('psf_open_file',):
                ok = True
                why = 'open path (diagnostics of the failing open)'
            ctx.ob('DIAG-READ', key, ok, f.loc(n), '%s read in %s: %s' % (n['n'], f.name, why if ok else 'handle not proven NULL here — a valid handle\'s result would depend on process-wide state'), None)
    ctx.require(n_reads >= 5, 'only %d diagnostic reads found' % n_reads)

    # ------------------------------------------------------------------ FD-RESET
    ctx.rule('FD-RESET', 'every call psf_close_fd (E) / close (E) whose argument is a struct field is followed on every path to the function exit by the assignment E = -1 '
             '(a stale descriptor number would be closed again after another handle re-used it)', floor=3)
    for f in prog.lib_fns():
        for c in f.calls(('psf_close_fd', 'close')):
            a = f.unwrap(f.args(c)[0])
            if a['k'] != 'MemberExpr':
                continue
            E = f.s(a)
            resets = [n for (lv, n, rhs) in __import__('engine.util', fromlist=['assigned_lvalues']).assigned_lvalues(f)
                      if lv == E and rhs is not None and f.unwrap(rhs).get('v') == -1]
            ok, w = f.cfg.must_pass(c, resets)
            ctx.ob('FD-RESET', '%s:%s' % (f.name, E), ok, f.loc(c), '%s %s after close' % (E, 'reset to -1 on every path' if ok else 'NOT reset to -1 on path %s' % (f.cfg.block_lines(w) if w else '?')), None)

    # ------------------------------------------------------------------ NO-ESCAPE / libc state
    ctx.rule('NO-ESCAPE', 'no pointer value (other than NULL or a string literal) is stored into an object with static storage duration; no libc function with hidden '
             'process-wide state (strtok, rand, localtime, setlocale...; strerror is allowed: its result is copied at once) is called from the library units', floor=1)
    esc = [(k, f, n) for k, l in escapes.items() for (f, n) in l]
    ctx.ob('NO-ESCAPE', 'pointer-stores', not esc, 'src/', 'no pointer stored into static storage' if not esc else
           'pointer stored into static object: %s' % ['%s at %s' % (k, f.loc(n)) for k, f, n in esc[:3]], None)
    bad = []
    for f in prog.lib_fns():
        for c in f.calls(STATEFUL_LIBC):
            bad.append('%s calls %s at %s' % (f.name, c['callee'], f.loc(c)))
    ctx.ob('NO-ESCAPE', 'libc-state', not bad, 'src/', 'no stateful libc calls' if not bad else '; '.join(bad[:4]), None)

    ctx.rule('SIZEOF-MATCH', 'every sized copy (snprintf, psf_strlcpy, strncpy, memcpy, memset ...) whose size argument is sizeof (object) names the object it writes to '
             '(a sizeof of a different, smaller or larger, member type-checks and truncates or overflows silently)', floor=60)
    from engine.sizeofrule import sizeof_match
    sizeof_match(ctx, prog)
    from engine.fixture import generic_fixture
    generic_fixture(ctx, [('SIZEOF-MATCH', lambda c_, p_: sizeof_match(c_, p_, minimum=0), 'bad_sizeof')])

    ctx.rule('ZERO-GROWN', 'shared with C03 HDR-CACHE: memory added to the header cache by realloc is zero-filled before use, so no byte of an earlier handle\'s heap data can reach a file written later', floor=1)
    from rules.C03 import hdr_zero
    hdr_zero(ctx, prog, 'ZERO-GROWN')



    ctx.rule('ZERO-ALLOC', 'the allocator helpers whose blocks are later serialised into files (functions named *_alloc / *_calloc / *_dup / psf_memdup that return a pointer) hand out '
             'zero-initialised memory: they allocate with calloc (or allocate through another such helper and fill the block): no byte a header writer can emit is stale heap content of '
             'an earlier handle', floor=6)
    import re as _re9
    nza = 0
    for g in sorted(prog.lib_fns(), key=lambda g: (g.file, g.line)):
        if not (_re9.search(r'(_alloc|_calloc|_dup|memdup)$', g.name) and g.ret.rstrip().endswith('*')):
            continue
        al = [c for c in g.calls() if c.get('callee') in ('malloc', 'calloc', 'realloc')]
        via = [c for c in g.calls() if c.get('callee') and _re9.search(r'(_alloc|_calloc|memdup)$', c['callee'])]
        bad = [c for c in al if c['callee'] != 'calloc']
        nza += 1
        ctx.ob('ZERO-ALLOC', g.name, not bad and (bool(al) or bool(via)), g.loc(bad[0]) if bad else g.loc(g.body), '%s allocates with %s' % (g.name, sorted({c['callee'] for c in al + via}) or 'nothing recognisable') +
               ('' if not bad else ': the block is not zeroed — bytes the caller never sets (padding after a string terminator, unused table slots) reach the file with whatever the heap held before'), None)
    ctx.require(nza >= 6, 'only %d allocator helpers found' % nza)

    ctx.rule('DIAG-CLEAR', 'psf_open_file, the common tail of sf_open / sf_open_fd / sf_open_virtual, clears the process-wide diagnostics before it can succeed: an assignment of 0 to sf_errno and a '
             'store of 0 into sf_parselog [0] dominate its success return (`return (SNDFILE *) psf`): what sf_error (NULL) / sf_strerror (NULL) report after a successful open must not depend '
             'on an earlier failed open of another file', floor=2)
    of = prog.fn('psf_open_file', 'sndfile.c')
    succ = [n for n in of.walk() if n['k'] == 'ReturnStmt' and n.get('kids') and of.unwrap(of.N[n['kids'][0]]).get('v') is None and 'psf' in of.s(of.N[n['kids'][0]])]
    ctx.require(succ, 'psf_open_file: success return not found')
    from engine.util import assigned_lvalues as _al19
    for var in ('sf_errno', 'sf_parselog[0]'):
        clears = []
        for lv, a, r in _al19(of):
            if lv != var or r is None or a.get('op') != '=':
                continue
            ru = of.unwrap(r)
            while ru.get('k') == 'BinaryOperator' and ru.get('op') == '=':      # sf_errno = error = 0
                ru = of.unwrap(of.N[ru['kids'][1]])
            if ru.get('v') == 0:
                clears.append(a)
        ok = bool(clears) and all(any(of.cfg.dominates(c_, s_) for c_ in clears) for s_ in succ)
        ctx.ob('DIAG-CLEAR', 'psf_open_file:%s' % var, ok, of.loc(clears[0]) if clears else of.loc(succ[0]), ('%s is cleared at %s, which dominates the success return' % (var, of.loc(clears[0]))) if ok else
               '%s is not cleared on every path to the success return: after a failed open of one file, a successful open of another leaves the old error visible through sf_error (NULL)' % var, None)

    from engine.run import borrow
    borrow(ctx, 'C07', ['UNINIT-SERIAL'], 'stack residue serialised into a header is whatever earlier library calls - on this or any other handle - left there: the file then depends on the process history')
    borrow(ctx, 'C13', ['UNION-INIT'], 'stack residue in a chunk marker makes the file bytes depend on what the process did before')
