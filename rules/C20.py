"""C20 — built-in codec kernels conform to their published definitions."""
from refs import g711, adpcm_tables as T
from engine.bounds import Bounds, B
from engine.effects import Effects

EXPLANATION = ('Decides: (G711-TAB) the folded initialisers of ulaw_decode[256] / alaw_decode[256] equal the ITU-T G.711 expansion for all 256 codes; ulaw_encode[8193] / alaw_encode[2049] equal the '
               'G.711 compression of every magnitude on the table grid (4 resp. 16 units of 16-bit linear) and encode (decode (c)) = c for every code whose level is representable (the negative '
               'zero code of mu-law excepted, as in the Recommendation); (G711-KERNEL) the sixteen array kernels index the tables with exactly the grid expression for their sample type '
               '(x / 4, x >> 18, lrint (normfact * x); negative inputs negate *before* scaling and mask the sign with 0x7F); (ADPCM-TAB) IMA step / index tables, MS ADPCM adaptation and coefficient '
               'tables, OKI step tables equal the published ones; (CLAMP) the IMA step index is clamped into the table on every use: clamp_ima_step_index returns a value in [0, 88] and every '
               'subscript of ima_step_size is proven inside the table; (ENDIAN) see the lane rules. Arithmetic of the portable IEEE serialisers and full decoder conformance are NOT decided.')
NOT_DECIDED = ['frexp/pow arithmetic of the portable IEEE-754 serialisers', 'sample-exact ADPCM decoder conformance on adversarial blocks', 'MS ADPCM block arithmetic']
ASSUMPTIONS = ['reference tables and G.711 routines under /verif/refs were written from the published definitions']

KERNELS = {
    # kernel: list of required index-expression strings (canonical)
    's2ulaw_array': ['ulaw_encode[($0[$i] / 4)]', '(127 & ulaw_encode[($0[$i] / -4)])'],
    'i2ulaw_array': ['ulaw_encode[8191]', 'ulaw_encode[($0[$i] >> 18)]', '(127 & ulaw_encode[(-$0[$i] >> 18)])'],
    'f2ulaw_array': ['ulaw_encode[R(($3 * $0[$i]))]', '(127 & ulaw_encode[-R(($3 * $0[$i]))])'],
    'd2ulaw_array': ['ulaw_encode[R(($3 * $0[$i]))]', '(127 & ulaw_encode[-R(($3 * $0[$i]))])'],
    's2alaw_array': ['alaw_encode[($0[$i] / 16)]', '(127 & alaw_encode[($0[$i] / -16)])'],
    'i2alaw_array': ['alaw_encode[2047]', 'alaw_encode[($0[$i] >> 20)]', '(127 & alaw_encode[(-$0[$i] >> 20)])'],
    'f2alaw_array': ['alaw_encode[R(($3 * $0[$i]))]', '(127 & alaw_encode[-R(($3 * $0[$i]))])'],
    'd2alaw_array': ['alaw_encode[R(($3 * $0[$i]))]', '(127 & alaw_encode[-R(($3 * $0[$i]))])'],
    'ulaw2s_array': ['ulaw_decode[$0[$i]]'], 'ulaw2i_array': ['(ulaw_decode[$0[$i]] << 16)'], 'ulaw2f_array': ['($3 * ulaw_decode[$0[$i]])'], 'ulaw2d_array': ['($3 * ulaw_decode[$0[$i]])'],
    'alaw2s_array': ['alaw_decode[$0[$i]]'], 'alaw2i_array': ['(alaw_decode[$0[$i]] << 16)'], 'alaw2f_array': ['($3 * alaw_decode[$0[$i]])'], 'alaw2d_array': ['($3 * alaw_decode[$0[$i]])'],
}


def g711_kernels(ctx, prog):
    ctx.rule('G711-KERNEL', 'each of the sixteen G.711 array kernels contains exactly the documented table index expressions for its sample type (magnitude negated before scaling; sign masked with 0x7F)', floor=16)
    for name, req in KERNELS.items():
        f = prog.fn(name)
        have = set()
        def canon(t):
            # the rounding step R is psf_lrint / psf_lrintf or the saturating helper <law>_index (whose body is checked below);
            # negating the magnitude before or after rounding is the same value (round-half-even is symmetric)
            for r_ in ('ulaw_index(', 'alaw_index(', 'psf_lrintf(', 'psf_lrint('):
                t = t.replace(r_, 'R(')
            return t.replace('R((-$3 * $0[$i]))', '-R(($3 * $0[$i]))')
        from engine.util import alpha_map as _am, alpha_str as _as
        amap = _am(f)
        fs_ = lambda n_: _as(f.s(n_), amap)          # parameters by position ($0 source, $2 destination, $3 scale), loop index $i: renames do not matter
        for n in f.walk():
            if n['k'] in ('ArraySubscriptExpr', 'BinaryOperator'):
                have.add(canon(fs_(n)))
        miss = [r for r in req if r not in have]
        # every subscript of a G.711 table in the kernel must be one of the required forms
        extra = [f.s(n) for n in f.walk() if n['k'] == 'ArraySubscriptExpr' and f.s(n['kids'][0]) in ('ulaw_encode', 'alaw_encode', 'ulaw_decode', 'alaw_decode')
                 and not any(canon(fs_(n)) in r for r in req)]
        for c_ in f.calls():
            if c_.get('callee') in ('ulaw_index', 'alaw_index'):
                h = prog.fn(c_['callee'])
                par = h.params[0]['n']
                rounds = [x for x in h.calls() if x.get('callee') in ('psf_lrint', 'psf_lrintf') and h.s(h.unwrap(h.args(x)[0])) == par]
                arith = [h.s(x) for x in h.walk() if x['k'] == 'BinaryOperator' and x.get('op') in ('*', '/', '+', '-', '<<', '>>')]
                ctx.ob('G711-KERNEL', '%s:%s' % (name, c_['callee']), len(rounds) == 1 and not arith, h.loc(h.body), 'the saturating helper rounds its argument once with psf_lrint and does no arithmetic on it' if len(rounds) == 1 and not arith
                       else 'the helper %s does not simply round its argument (roundings of the parameter: %d, arithmetic: %s)' % (c_['callee'], len(rounds), arith[:3]), None)
                break
        ctx.ob('G711-KERNEL', name, not miss and not extra, f.loc(f.body), 'index expressions as documented' if not miss and not extra else 'missing %s; unexpected %s' % (miss, extra), None)
        # encoders: G.711 codes carry the sign in bit 7 (set = positive); every store made for a negative input clears it with `0x7F &`,
        # every store for a non-negative input leaves the table code as it is
        if name.endswith(('2alaw_array', '2ulaw_array')):
            from engine.util import assigned_lvalues as _al
            k_ = 0
            dst = f.params[2]['n'] if len(f.params) > 2 else 'buffer'
            src = f.params[0]['n'] if f.params else 'ptr'
            cfg_ = f.cfg

            def sign_at(node):
                """sign of the source sample where `node` executes, from the branch conditions on the way there: walks the CFG backwards over
                single-predecessor edges (covers nested if / else-if chains as well as `if (x >= 0) { ... continue ; }` followed by the negative case)"""
                pt = cfg_.point(node)
                if pt is None:
                    return None
                b = pt[0]
                seen_ = set()
                while b not in seen_:
                    seen_.add(b)
                    preds = cfg_.preds.get(b, [])
                    if len(preds) != 1:
                        return None
                    pb = preds[0]
                    blk = cfg_.blocks[pb]
                    if 'cond' in blk and len(blk['succs']) == 2 and blk['succs'][0] != blk['succs'][1] and blk.get('tk') != 'SwitchStmt':
                        pol = blk['succs'][0] == b
                        cs = f.s(blk['cond']).replace(' ', '')
                        if src + '[' in cs:
                            if '>=0' in cs:
                                return (not pol)
                            if '<0' in cs and '<=0' not in cs:
                                return pol
                            if '==INT_MIN' in cs or '==-2147483648' in cs or '==(-2147483647-1)' in cs:
                                if pol:
                                    return True
                            if '!=INT_MIN' in cs or '!=-2147483648' in cs or '!=(-2147483647-1)' in cs:
                                if not pol:
                                    return True
                    b = pb
                return None
            for lv, a, r in _al(f):
                if not lv.startswith(dst + '[') or r is None:
                    continue
                k_ += 1
                neg = sign_at(a)
                rs = f.s(f.unwrap(r)).replace(' ', '')
                masked = rs.startswith('(127&') or rs.endswith('&127)')
                if neg is None and f.unwrap(r).get('v') is not None:
                    continue        # a constant code stored for a non-finite input: no sign to carry
                if neg is None:
                    ctx.ob('G711-KERNEL', '%s:sign#%d' % (name, k_), False, f.loc(a), 'store into the code buffer is not under a `sample >= 0` / `== INT_MIN` branch structure the rule understands (the G.711 zero code is a POSITIVE code: the test must be `>= 0`)', None)
                    continue
                ctx.ob('G711-KERNEL', '%s:sign#%d' % (name, k_), masked == neg, f.loc(a), 'store for a %s input is %s' % ('negative' if neg else 'non-negative', 'masked with 0x7F' if masked else 'not masked') +
                       ('' if masked == neg else ': the sign bit of the code is wrong — the sample is written with the opposite sign'), None)



def run(ctx):
    prog = ctx.prog
    eff = Effects(prog)
    ctx.rule('G711-TAB', 'table entries equal the G.711 reference: decode tables for all 256 codes; encode tables for every grid magnitude; encode (decode (c)) = c', floor=10000)
    for tab, ref, gran in (('ulaw_decode', g711.ulaw_decode, None), ('alaw_decode', g711.alaw_decode, None)):
        g = prog.global_(tab)
        init = g['init']
        ctx.require(len(init) == 256, '%s has %d entries' % (tab, len(init)))
        for c in range(256):
            ok = init[c] == ref(c)
            ctx.rules['G711-TAB']['inst'].append({'key': '%s[%d]' % (tab, c), 'ok': ok, 'where': 'src/%s:%d' % (g['file'].split('/')[-1], g['line']), 'msg': '%d' % init[c], 'fact': None})
            if not ok:
                ctx.ob('G711-TAB', '%s[%d]!' % (tab, c), False, 'src/%s:%d' % (g['file'].split('/')[-1], g['line']), '%s[%d] = %d, G.711 expansion gives %d' % (tab, c, init[c], ref(c)), None)
    for tab, ref, gran, dec in (('ulaw_encode', g711.ulaw_encode, 4, 'ulaw_decode'), ('alaw_encode', g711.alaw_encode, 16, 'alaw_decode')):
        g = prog.global_(tab)
        init = g['init']
        ctx.require(len(init) == 32768 // gran + 1, '%s has %d entries' % (tab, len(init)))
        for j in range(len(init)):
            want = ref(min(j * gran, 32767))
            ok = init[j] == want
            ctx.rules['G711-TAB']['inst'].append({'key': '%s[%d]' % (tab, j), 'ok': ok, 'where': 'src/%s:%d' % (g['file'].split('/')[-1], g['line']), 'msg': '%d' % init[j], 'fact': None})
            if not ok:
                ctx.ob('G711-TAB', '%s[%d]!' % (tab, j), False, 'src/%s:%d' % (g['file'].split('/')[-1], g['line']), '%s[%d] = %d, G.711 compression of %d gives %d' % (tab, j, init[j], j * gran, want), None)
        d = prog.global_(dec)['init']
        bad = [c for c in range(256) if d[c] >= 0 and init[d[c] // gran] != c and not (tab == 'ulaw_encode' and c == 0x7F)]
        ctx.ob('G711-TAB', '%s:identity' % tab, not bad, 'src/%s:%d' % (g['file'].split('/')[-1], g['line']), 'encode (decode (c)) == c for all non-negative levels' if not bad else 'codes not reproduced: %s' % bad[:8], None)

    g711_kernels(ctx, prog)

    ctx.rule('ADPCM-TAB', 'IMA step and index-adjust tables, MS ADPCM adaptation / coefficient tables, OKI (VOX) step tables equal the published tables', floor=8)
    for name, ref in (('ima_step_size', T.IMA_STEP), ('ima_indx_adjust', T.IMA_INDEX_ADJUST), ('AdaptationTable', T.MS_ADAPTATION), ('AdaptCoeff1', T.MS_COEFF1), ('AdaptCoeff2', T.MS_COEFF2),
                      ('ima_steps', T.IMA_STEP), ('oki_steps', [x * 16 for x in T.OKI_STEP]), ('step_changes', T.STEP_CHANGES)):
        g = prog.global_(name)
        ok = g.get('init') == ref
        diff = [i for i, (a, b) in enumerate(zip(g.get('init') or [], ref)) if a != b]
        ctx.ob('ADPCM-TAB', name, ok, 'src/%s:%d' % (g['file'].split('/')[-1], g['line']), '%d entries equal the published table' % len(ref) if ok else 'differs from the published table at indices %s' % diff[:6], None)

    ctx.rule('CLAMP', 'clamp_ima_step_index returns a value in [0, ARRAY_LEN (ima_step_size) - 1] on every path; every subscript ima_step_size [i] / ima_steps / oki_steps in the codecs has 0 <= i < table length '
             '(A-PENT, with the clamp function summarised by its verified return range); indices held in scalar locals only', floor=4)
    f = prog.fn('clamp_ima_step_index', 'ima_adpcm.c')
    alen = prog.global_('ima_step_size')['alen']
    bd = Bounds(prog, f, eff)
    okc = True
    for r in f.cfg.returns():
        b = bd.ev(f.unwrap(f.N[r['kids'][0]]))
        ok = b.lo is not None and b.lo >= 0 and b.hi is not None and b.hi <= alen - 1
        okc = okc and ok
        ctx.ob('CLAMP', 'clamp_ima_step_index:return@%s' % f.s(r['kids'][0])[:20], ok, f.loc(r), 'returns %s with range %s..%s (table has %d entries)' % (f.s(r['kids'][0]), b.lo, b.hi, alen), None)
    summ = {'clamp_ima_step_index': (lambda bd_, n, pt, d: B(0, alen - 1))} if okc else {}
    skipped = []
    for fn in prog.lib_fns():
        subs = [n for n in fn.walk() if n['k'] == 'ArraySubscriptExpr' and fn.s(n['kids'][0]) in ('ima_step_size', 'ima_steps', 'oki_steps')]
        if not subs:
            continue
        bd = Bounds(prog, fn, eff, summ)
        for i, n in enumerate(subs):
            idxn = fn.unwrap(fn.N[n['kids'][1]])
            if not (idxn['k'] == 'DeclRefExpr' and idxn.get('dk') in ('local', 'param')):
                skipped.append('%s:%s' % (fn.name, fn.s(n)))
                continue      # indices read from arrays / struct fields need array-content invariants: not decided
            tab = fn.s(n['kids'][0])
            tl = prog.global_(tab)['alen']
            b = bd.ev(fn.unwrap(fn.N[n['kids'][1]]))
            ok = b.lo is not None and b.lo >= 0 and b.hi is not None and b.hi <= tl - 1
            ctx.ob('CLAMP', '%s:%s[%s]#%d' % (fn.name, tab, fn.s(n['kids'][1])[:30], i), ok, fn.loc(n), 'index %s in %s..%s, table %s has %d entries' % (fn.s(n['kids'][1]), b.lo, b.hi, tab, tl), None)
    ctx.notes.append('CLAMP: %d table subscripts whose index is read from an array element or struct field are not decided: %s' % (len(skipped), skipped[:6]))

    # ---- MS ADPCM: the block predictor index read from the file selects a row of the 7-entry coefficient tables
    ctx.rule('BPRED-RANGE', 'msadpcm_get_bpred returns an index within the AdaptCoeff tables on every path (an out-of-range byte from the file is replaced, always, not only the first time), and '
             'msadpcm_decode_block subscripts AdaptCoeff1/2 only with values that came from it', floor=4)
    from engine.bounds import Bounds as _B
    from engine.effects import Effects as _E
    from engine.util import assigned_lvalues as _al
    g = prog.fn('msadpcm_get_bpred', 'ms_adpcm.c')
    alen = prog.global_('AdaptCoeff1')['alen']
    bd = _B(prog, g, _E(prog))
    rets = g.cfg.returns()
    ctx.require(rets, 'msadpcm_get_bpred has no return')
    for k, r in enumerate(rets):
        e = g.unwrap(g.N[r['kids'][0]])
        b = bd.ev_at(e, g.cfg.point(r))
        ok = b.lo is not None and b.lo >= 0 and b.hi is not None and b.hi <= alen - 1
        ctx.ob('BPRED-RANGE', 'msadpcm_get_bpred:return#%d' % (k + 1), ok, g.loc(r), 'returns %s in [%s, %s]; table has %d rows%s' % (g.s(e), b.lo, b.hi, alen, '' if ok else
               ' — a predictor byte >= %d from the file reaches the coefficient tables: out-of-bounds read, the block decodes with garbage coefficients' % alen), repr(b))
    d = prog.fn('msadpcm_decode_block', 'ms_adpcm.c')
    src_ok = [(lv, a, r) for lv, a, r in _al(d) if lv.startswith('bpred')]
    bad = [a for lv, a, r in src_ok if r is None or d.unwrap(r).get('callee') != 'msadpcm_get_bpred']
    ctx.ob('BPRED-RANGE', 'msadpcm_decode_block:bpred-source', bool(src_ok) and not bad, d.loc(bad[0]) if bad else d.loc(d.body), '%d assignment(s) to bpred [], %s' % (len(src_ok), 'all from msadpcm_get_bpred' if not bad else 'one NOT from msadpcm_get_bpred'), None)
    subs = [n for n in d.walk() if n['k'] == 'ArraySubscriptExpr' and d.s(d.N[n['kids'][0]]) in ('AdaptCoeff1', 'AdaptCoeff2')]
    badi = [n for n in subs if not d.s(d.unwrap(d.N[n['kids'][1]])).startswith('bpred')]
    ctx.ob('BPRED-RANGE', 'msadpcm_decode_block:index', bool(subs) and not badi, d.loc(badi[0]) if badi else d.loc(d.body), '%d subscripts of AdaptCoeff1/2, %s' % (len(subs), 'all indexed by bpred []' if not badi else 'one indexed by something else'), None)

    ctx.rule('STEP-WIDTH', 'in the IMA ADPCM coders every variable that accumulates shifted copies of the step (vpdiff / diff = step >> 3 ; += step >> k ...) is at least 32 bits wide: the sum reaches '
             '61438 for the largest step, a 16-bit variable wraps negative and the predictor jumps the wrong way', floor=3)
    from engine.model import int_type as _it
    from engine.util import assigned_lvalues as _al3
    nsw = 0
    STEP_TABLES = ('ima_step_size', 'ima_steps', 'oki_steps', 'steps')
    ima_fns = [fn_ for fn_ in sorted(prog.lib_fns(), key=lambda f: (f.file, f.line)) if fn_.file.split('/')[-1] in ('ima_adpcm.c', 'ima_oki_adpcm.c', 'vox_adpcm.c')]
    # a helper that receives the step as an argument (code extracted from the decoders) accumulates it just the same: its parameter is a step variable
    step_params = {}
    for fn_ in ima_fns:
        sv_ = {lv for lv, a, r in _al3(fn_) if r is not None and any(y['k'] == 'ArraySubscriptExpr' and fn_.s(fn_.N[y['kids'][0]]) in STEP_TABLES for y in fn_.walk(r))}
        for c_ in fn_.calls():
            gs_ = prog.fns.get(c_.get('callee') or '', [])
            if len(gs_) == 1 and gs_[0] in ima_fns:
                for k_, a_ in enumerate(fn_.args(c_)):
                    if fn_.s(fn_.unwrap(a_)) in sv_ and k_ < len(gs_[0].params):
                        step_params.setdefault(gs_[0].name, set()).add(gs_[0].params[k_]['n'])
    for fn_ in ima_fns:
        locs_ = {}
        for x in fn_.walk():
            if x['k'] == 'DeclStmt':
                for v in x.get('decls', []):
                    locs_[v['n']] = v['t']
        stepvars = {lv for lv, a, r in _al3(fn_) if r is not None and any(y['k'] == 'ArraySubscriptExpr' and fn_.s(fn_.N[y['kids'][0]]) in STEP_TABLES for y in fn_.walk(r))} | step_params.get(fn_.name, set())
        if not stepvars:
            continue
        acc = set()
        for lv, a, r in _al3(fn_):
            if r is None or lv not in locs_ or lv in stepvars:
                continue
            if any(y['k'] == 'BinaryOperator' and y.get('op') == '>>' and fn_.s(fn_.unwrap(fn_.N[y['kids'][0]])) in stepvars for y in fn_.walk(r)):
                acc.add(lv)
        for v in sorted(acc):
            it_ = _it(locs_[v])
            nsw += 1
            ok = bool(it_) and it_[0] >= 32
            ctx.ob('STEP-WIDTH', '%s:%s' % (fn_.name, v), ok, fn_.loc(fn_.body), 'accumulator `%s` of step shifts has type %s%s' % (v, locs_[v], '' if ok else ' — too narrow for step + step/2 + step/4 + step/8 (up to 61438)'), None)
    ctx.require(nsw >= 3, 'only %d step accumulators found in the IMA coders' % nsw)


    ctx.rule('SHIFT-RANGE', 'in the codec kernel files (float32.c, double64.c, ulaw.c, alaw.c, ima_adpcm.c, ms_adpcm.c, nms_adpcm.c, vox_adpcm.c, ima_oki_adpcm.c) every shift by a variable amount has its '
             'count proved inside [0, width of the promoted left operand) by A-PENT: a power of two computed as 1 << e for an exponent that can reach the width is undefined and wraps on x86 '
             '(the portable IEEE readers use pow () for exactly this reason)', floor=2)
    from engine.shiftrange import shift_range
    SR_FILES = ('float32.c', 'double64.c', 'ulaw.c', 'alaw.c', 'ima_adpcm.c', 'ms_adpcm.c', 'nms_adpcm.c', 'vox_adpcm.c', 'ima_oki_adpcm.c')
    n_sr = shift_range(ctx, prog, eff, SR_FILES)
    ctx.require(n_sr >= 2, 'only %d variable shifts found in the kernel files' % n_sr)
    from engine.fixture import generic_fixture as _gf20
    from engine.effects import Effects as _E20
    _gf20(ctx, [('SHIFT-RANGE', lambda c_, p_: shift_range(c_, p_, _E20(p_), ('generic_pos.c',)), 'bad_shift')])

    from engine.run import borrow
    borrow(ctx, 'C02', ['SCALE'], 'the G.711 encoders scale a normalised float / double sample by the same constant in all entry points: another constant puts reconstruction levels on rounding ties')
    borrow(ctx, 'C03', ['TABLE-INDEX'], 'a codec kernel that indexes its table outside [0, N) does not compute the published function for that input (and reads foreign memory)')
