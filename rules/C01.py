"""C01 — lossless write/read round trip is bit exact (structural clauses)."""
import re
from engine.lanes import LaneEval
from engine.arms import switch_arms, idents
from engine.peval import PEval
from engine.effects import Effects
from engine.util import assigned_lvalues

EXPLANATION = ('Decides: (LANE-KERNEL) every integer PCM kernel of pcm.c moves bits exactly as documented — one loop iteration is evaluated over symbolic bit lanes, so the result holds for all '
               'sample values at once: readers put the w-bit file sample, taken from the right bytes for the byte order, into the most significant bits of the host type (zero below, offset-binary '
               'flip for unsigned 8 bit), writers store the most significant w bits of the host sample into the right file bytes; float/double writers store the rounded value in the same lanes, '
               'float/double readers convert the same MSB-aligned integer; reader and writer of one code are lane inverses on the bits the narrower side keeps; (LANE-WRAP) each pcm_read_/pcm_write_ '
               'staging function calls the kernel of its own code and type with the matching element size, the four direct 16/32-bit paths swap bytes exactly when the file order differs from the CPU; '
               '(DISPATCH) every arm of the pcm_init switches installs the functions of the code its key (byte width, endian, signedness) denotes; float32_init / double64_init set data_endswap iff '
               'file order differs from the capability order and the raw float/double paths copy bytes with only that swap; (FLUSH) every block codec that emits a block only when it is full '
               'also emits the partial last block from the close hook installed by the same init; (CLOSE-HDR) see C04. ALAC, DWVW, DPCM, SDS and PAF bit-stream arithmetic is NOT decided.')
NOT_DECIDED = ['ALAC / DWVW / DPCM / SDS / PAF24 bit-stream and tail arithmetic', 'int <-> float scaling round trips', 'top bit of float -> unsigned 8 bit writers (needs value-range reasoning)']
ASSUMPTIONS = ['little-endian host as configured (thorough tier re-parses with CPU_IS_BIG_ENDIAN)', 'psf_fread / psf_fwrite move bytes unchanged']

CODES = {'sc': (8, 'b', True), 'uc': (8, 'b', False), 'bes': (16, 'b', True), 'les': (16, 'l', True), 'bet': (24, 'b', True), 'let': (24, 'l', True), 'bei': (32, 'b', True), 'lei': (32, 'l', True)}
HOST = {'s': 16, 'i': 32}


def fbyte(w, order, fb):
    """memory byte index of file sample bit fb"""
    nb = w // 8
    return fb // 8 if order == 'l' else nb - 1 - fb // 8


def src_desc_of(t):
    t = t.replace('const ', '').replace('struct ', '').replace('*', '').strip()
    return {'signed char': ('int', 8, True), 'unsigned char': ('int', 8, False), 'short': ('int', 16, True), 'int': ('int', 32, True),
            'tribyte': ('tribyte',), 'float': ('float',), 'double': ('float',)}.get(t)


def fmt(s):
    if s is None:
        return '?'
    if isinstance(s, tuple):
        return '%s%d' % (('~s' if s[0] == 'n' else s[0]), s[1])
    return str(s)


def run_kernel(prog, f):
    src = f.params[0]['n']
    dst = [q['n'] for q in f.params if q['n'] == 'dest']
    if not dst:
        return None
    sd = src_desc_of(f.params[0]['t'])
    if sd is None:
        return None
    le = LaneEval(prog, f, src, dst[0], sd)
    le.f_top = f
    le.dest_float = False
    env = {src: ('addr', 'src', 0), dst[0]: ('addr', 'dst', 0)}
    le._stmt(f, f.N[f.body], env, 0, [None])
    return le


def lane_rules(ctx, prog):
    ctx.rule('LANE-KERNEL', 'symbolic bit-lane evaluation of one iteration of every pcm.c array kernel equals the documented layout (MSB alignment, byte order, unsigned-8 flip, zero fill)', floor=60)
    inverse = {}
    for f in sorted(prog.lib_fns(), key=lambda f: f.line):
        if not f.file.endswith('/pcm.c'):
            continue
        mr = re.match(r'^(sc|uc|bes|les|bet|let|bei|lei)2([sifd])_array$', f.name)
        mw = re.match(r'^([sifd])2(sc|uc|bes|les|bet|let|bei|lei)(_clip)?_array$', f.name)
        if not mr and not mw:
            continue
        le = run_kernel(prog, f)
        if le is None:
            ctx.ob('LANE-KERNEL', f.name, False, f.loc(f.body), 'kernel signature not understood', None)
            continue
        bad = list(le.problems)
        if mr:
            code, T = mr.group(1), mr.group(2)
            w, order, signed = CODES[code]
            if T in HOST:
                W = HOST[T]
                # host value bits from dest bytes (little-endian host memory)
                for hb in range(W):
                    mb = le.membit(W, hb)
                    got = le.dest.get(mb // 8, [None] * 8)[mb % 8]
                    k = W - 1 - hb
                    if k < w:
                        fb = w - 1 - k
                        sym = ('s', 8 * fbyte(w, order, fb) + fb % 8)
                        if not signed and fb == w - 1:
                            sym = ('n', sym[1])
                        exp = sym
                    else:
                        exp = 0
                    if got != exp:
                        bad.append('host bit %d is %s, documented %s' % (hb, fmt(got), fmt(exp)))
                inverse[('r', code, T)] = {hb: le.dest.get(le.membit(W, hb) // 8, [None] * 8)[le.membit(W, hb) % 8] for hb in range(W)}
            else:
                # float/double reader: the integer handed to the int->float conversion must be the MSB-aligned sample
                if not le.float_inputs:
                    bad.append('no integer -> floating conversion found')
                else:
                    v = le.float_inputs[0]
                    Wv = 32 if w >= 24 else w
                    bits = v.ext(Wv)
                    for hb in range(Wv):
                        k = Wv - 1 - hb
                        if k < w:
                            fb = w - 1 - k
                            exp = ('s', 8 * fbyte(w, order, fb) + fb % 8)
                            if not signed and fb == w - 1:
                                exp = ('n', exp[1])
                        else:
                            exp = 0
                        if bits[hb] != exp:
                            bad.append('converted integer bit %d is %s, documented %s' % (hb, fmt(bits[hb]), fmt(exp)))
                    # sign extension above Wv for narrow types
                    if Wv < 32 and not all(x == bits[Wv - 1] for x in v.ext(32)[Wv:]):
                        bad.append('converted integer is not sign-extended from bit %d' % (Wv - 1))
        else:
            T, code, clip = mw.group(1), mw.group(2), mw.group(3)
            w, order, signed = CODES[code]
            srcsym = 's' if T in HOST else 'r'
            W = HOST.get(T, 32)
            for fb in range(w):
                got = le.dest.get(fbyte(w, order, fb), [None] * 8)[fb % 8]
                if T in HOST:
                    k = w - 1 - fb
                    if k < W:
                        exp = ('s', le.membit(W, W - 1 - k))
                        if not signed and fb == w - 1:
                            exp = ('n', exp[1])
                    else:
                        exp = 0
                else:
                    exp = ('r', fb)
                    if not signed and fb == w - 1:
                        continue          # rounded value + 128: needs value-range reasoning (not decided)
                if got != exp:
                    bad.append('file bit %d (byte %d) is %s, documented %s' % (fb, fbyte(w, order, fb), fmt(got), fmt(exp)))
            extra = [k for k in le.dest if k >= w // 8]
            if extra:
                bad.append('writes %d byte(s) beyond the %d-byte sample' % (len(extra), w // 8))
            if T not in HOST and not le.round_seen:
                bad.append('no rounding primitive found')
        ctx.ob('LANE-KERNEL', f.name, not bad, f.loc(f.body), 'bit lanes as documented for all values' if not bad else '; '.join(bad[:3]), None)


def run(ctx):
    prog = ctx.prog
    E = prog.enums
    eff = Effects(prog)
    lane_rules(ctx, prog)
    # ------------------------------------------------------------------ block workers (shared with C05)
    ctx.rule('FRAME-ALIGN', 'shared with C05: a block worker that advances by `count / channels` is only handed whole frames (a staging chunk that is not a multiple of the channel count loses the '
             'partial frame at its end: written data is not what is read back)', floor=20)
    ctx.rule('EOD-TAIL', 'shared with C05: buffered samples of the last decoded block are delivered before the end-of-data exit is taken', floor=6)
    ctx.rule('BLOCK-AVAIL', 'a block reader that counts blocks zero-fills exactly the blocks its consumer treats as past the end of the data: both tests have the same normal form '
             '(c + d) * samplesperblock >= frames in the pre-increment block count c (a reader that tests (c + 1) * S > F discards the final partial block)', floor=4)
    from engine.blockrules import frame_align, eod_tail, block_avail
    frame_align(ctx, prog)
    eod_tail(ctx, prog)
    block_avail(ctx, prog)

    # ------------------------------------------------------------------ LANE-WRAP
    ctx.rule('LANE-WRAP', 'each pcm_read_<code>2<T> / pcm_write_<T>2<code> calls the kernel <code>2<T>_array / <T>2<code>[_clip]_array (or, for the same-width host paths, transfers straight into the caller '
             'buffer and byte-swaps exactly when the code order differs from the CPU), and its psf_fread / psf_fwrite element size is the byte width of the code', floor=60)
    for f in sorted(prog.lib_fns(), key=lambda f: f.line):
        if not f.file.endswith('/pcm.c'):
            continue
        mr = re.match(r'^pcm_read_(sc|uc|bes|les|bet|let|bei|lei)2([sifd])$', f.name)
        mw = re.match(r'^pcm_write_([sifd])2(sc|uc|bes|les|bet|let|bei|lei)$', f.name)
        if not mr and not mw:
            continue
        code, T = (mr.group(1), mr.group(2)) if mr else (mw.group(2), mw.group(1))
        w, order, signed = CODES[code]
        ios = list(f.calls(('psf_fread', 'psf_fwrite')))
        esz = [f.unwrap(f.args(c)[1]).get('v') for c in ios]
        kn = ('%s2%s_array' % (code, T)) if mr else ('%s2%s_array' % (T, code))
        callees = {c.get('callee') for c in f.calls()} | {x['n'] for x in f.walk() if x['k'] == 'DeclRefExpr' and x.get('dk') == 'func'}
        direct = (T == 's' and w == 16) or (T == 'i' and w == 32)
        bad = []
        if esz != [w // 8]:
            bad.append('element size %s, code is %d byte(s)' % (esz, w // 8))
        if direct:
            swaps = [c for c in f.calls() if (c.get('callee') or '').startswith('endswap_')]
            host_be = bool(prog.info.get('big_endian'))
            need_swap = (order == 'b') != host_be      # swap exactly when the file order differs from the configured CPU order
            if bool(swaps) != need_swap and not (kn in callees):
                # the swap may be compiled out by the constant CPU_IS_* condition: count reachable swap calls only
                live = f.cfg.reachable_blocks()
                swaps = [c for c in swaps if f.cfg.point(c) and f.cfg.point(c)[0] in live]
                if bool(swaps) != need_swap:
                    bad.append('byte swap %s but file order is %s-endian on a %s-endian CPU' % ('present' if swaps else 'absent', 'big' if order == 'b' else 'little', 'big' if host_be else 'little'))
            elif swaps:
                live = f.cfg.reachable_blocks()
                lswaps = [c for c in swaps if f.cfg.point(c) and f.cfg.point(c)[0] in live]
                if bool(lswaps) != need_swap:
                    bad.append('byte swap reachable=%s but file order is %s-endian' % (bool(lswaps), 'big' if order == 'b' else 'little'))
        else:
            want = {kn} if mr or T in ('s', 'i') else {kn, kn.replace('_array', '_clip_array')}
            if not (want <= callees):
                bad.append('does not use kernel(s) %s (uses %s)' % (sorted(want), sorted(x for x in callees if x and x.endswith('_array'))))
        ctx.ob('LANE-WRAP', f.name, not bad, f.loc(f.body), 'kernel and element size match code %s' % code if not bad else '; '.join(bad), None)

    # ------------------------------------------------------------------ DISPATCH
    ctx.rule('DISPATCH', 'pcm_init: every case key bytewidth*0x10000 + endian (+ chars) installs read/write functions named for exactly that code in all four slots; float32_init / double64_init: '
             'data_endswap is TRUE exactly in the arms whose file endian differs from the CPU capability order', floor=30)
    f = prog.fn('pcm_init', 'pcm.c')
    BIG, LITTLE = E['SF_ENDIAN_BIG'], E['SF_ENDIAN_LITTLE']
    SIGNED = 200
    UNSIGNED = 100
    for g in prog.globals:
        pass
    n_arm = 0
    for sw in [n for n in f.walk() if n['k'] == 'SwitchStmt']:
        body = f.N[sw['body']]
        cur = []
        for st in f.kids(body):
            n = st
            vals = []
            while n['k'] in ('CaseStmt', 'DefaultStmt'):
                if n['k'] == 'CaseStmt' and 'cv' in n:
                    vals.append(n['cv'])
                n = f.N[n['sub']]
            if vals:
                cur = vals if n['k'] != 'BreakStmt' else cur + vals
                start = n
            if cur:
                for lv, an, rhs in assigned_lvalues(f, st):
                    m = re.match(r'^psf->(read|write)_(short|int|float|double)$', lv)
                    if not m or rhs is None:
                        continue
                    tgt = f.s(f.unwrap(rhs))
                    n_arm += 1
                    for v in cur:
                        bw, rest = v // 0x10000 & 0xF, v % 0x10000 + (v // 0x10000 >> 4 << 16)
                        endian = v & (BIG | LITTLE)
                        chars = v - bw * 0x10000 - endian
                        t = m.group(2)[0]
                        if bw == 1:
                            code = 'sc' if chars == SIGNED else 'uc' if chars == UNSIGNED else '?'
                            if chars not in (SIGNED, UNSIGNED):
                                # resolve from enum / macro values
                                code = 'sc' if chars == E.get('SF_CHARS_SIGNED', SIGNED) else 'uc'
                        else:
                            code = ('b' if endian == BIG else 'l') + {2: 'es', 3: 'et', 4: 'ei'}.get(bw, '??')
                        want = 'pcm_read_%s2%s' % (code, t) if m.group(1) == 'read' else 'pcm_write_%s2%s' % (t, code)
                        ctx.ob('DISPATCH', 'pcm_init:%#x:%s' % (v, lv), tgt == want, f.loc(an), 'key %#x (width %d, %s) installs %s in %s (documented %s)' % (
                            v, bw, 'big' if endian == BIG else 'little', tgt, lv, want), None)
            if n['k'] == 'BreakStmt' or any(x['k'] == 'BreakStmt' for x in f.walk(st)):
                cur = []
    ctx.require(n_arm >= 60, 'pcm_init installs only %d slot functions' % n_arm)
    for name, file in (('float32_init', 'float32.c'), ('double64_init', 'double64.c')):
        f = prog.fn(name, file)
        for sw in [n for n in f.walk() if n['k'] == 'SwitchStmt']:
            for keys, body, node in switch_arms(f, sw):
                e = [k for k in keys if k in ('SF_ENDIAN_BIG', 'SF_ENDIAN_LITTLE')]
                c = [k for k in keys if re.search(r'_(LE|BE)$', k)]
                if len(e) != 1 or len(c) != 1:
                    continue
                want = (e[0].endswith('BIG')) != c[0].endswith('_BE')
                has_t, has_f = 'SF_TRUE' in body, 'SF_FALSE' in body
                ok = (has_t and not has_f) if want else (has_f and not has_t)
                ctx.ob('DISPATCH', '%s:%s+%s@%s' % (name, e[0], c[0], f.N[node].get('l') if isinstance(node, int) else node.get('l')), ok, f.loc(node),
                       'arm (%s, %s): data_endswap %s (documented %s)' % (e[0], c[0], 'TRUE' if has_t else 'FALSE' if has_f else 'unset', 'TRUE' if want else 'FALSE'), None)
    for name, file, sz in (('host_read_f', 'float32.c', 4), ('host_write_f', 'float32.c', 4), ('host_read_d', 'double64.c', 8), ('host_write_d', 'double64.c', 8)):
        f = prog.fn(name, file)
        ios = list(f.calls(('psf_fread', 'psf_fwrite')))
        okio = bool(ios) and all(f.unwrap(f.args(c)[1]).get('v') == sz for c in ios)
        conds = [f.s(b['cond']) for b in f.cfg.blocks.values() if 'cond' in b and 'data_endswap' in f.s(b['cond'])]
        conv = [c.get('callee') for c in f.calls() if (c.get('callee') or '').endswith('_array') and not (c.get('callee') or '').startswith('endswap_')]
        ctx.ob('DISPATCH', name, okio and bool(conds) and not conv, f.loc(f.body), 'raw %d-byte transfer, swap only under %s, no value conversion %s' % (sz, conds, conv), None)

    # ------------------------------------------------------------------ SLOT-FAMILY
    ctx.rule('SLOT-FAMILY', 'wherever one switch arm / block installs two or more of the typed slots of one direction (read_short|int|float|double, write_...), the installed functions share one stem '
             '(name up to its last underscore: host_read_, replace_write_, pcm_read_, alac_write_): no sample type is served by another implementation (e.g. the non-IEEE fallback for float only)', floor=70)
    from engine.slotfamily import slot_family
    n_sf = slot_family(ctx, prog)
    ctx.require(n_sf >= 70, 'only %d slot groups found' % n_sf)

    # ------------------------------------------------------------------ FLUSH
    ctx.rule('FLUSH-PENDING', 'the close-time flush of a block codec is guarded by a test that samples are pending (counter non-zero): on an exact block boundary nothing is appended', floor=4)
    ctx.rule('FLUSH', 'for every codec init that installs write functions whose worker emits a block only under a fullness test on its private counters: the close hook installed for that codec, '
             'explored in SFM_WRITE mode, reaches the same emitter (frozen extras: ALAC temp-file encoder, DWVW bit reservoir flush)', floor=6)
    def installs(field):
        out = {}
        for tgt, sites in prog.slots.get(('sf_private_tag', field), {}).items():
            if tgt in ('NULL', '?') or tgt.startswith('@'):
                continue
            for (sf_, n) in sites:
                out.setdefault(tgt, set()).add(sf_.name)
        return out
    closers = {}
    for fld in ('codec_close', 'container_close'):
        for tgt, fns in installs(fld).items():
            closers[tgt] = fns
    ws = installs('write_short')
    COUNTERS = ('sample_curr', 'write_count', 'partial_block_frames', 'samplecount', 'count')

    def emitters(W):
        res = set()
        for name in prog.reachable_from([W], resolve_slots=False):
            for g in prog.fns.get(name, []):
                if not g.file.endswith('.c'):
                    continue
                for c in g.calls():
                    sl = prog.indirect_callee_slot(g, c)
                    cal = c.get('callee') or (('@%s.%s' % sl) if sl else None)
                    if not cal or cal in ('psf_fwrite', 'psf_log_printf', 'memcpy', 'memset', 'fwrite'):
                        continue
                    guarded = False
                    for a in g.ancestors(c):
                        if a['k'] == 'IfStmt' and g.within(c, a['then']):
                            for x in g.walk(a['cond']):
                                if x['k'] == 'MemberExpr' and x.get('rec') != 'sf_private_tag' and any(t in x['n'] for t in COUNTERS):
                                    guarded = True
                    if guarded:
                        names = [cal] if not cal.startswith('@') else list(prog.slot(sl[1], sl[0]))
                        if any(({'psf_fwrite', 'fwrite'} & prog.reachable_from([nm], resolve_slots=False)) for nm in names):
                            res.add(cal)
        return res
    pe = PEval(prog, sticky=('file.mode',), effects=eff)
    seenH = 0
    for H, inits in sorted(closers.items()):
        Ws = [w for w, fs in ws.items() if fs & inits]
        if not Ws:
            continue
        Em = set()
        for w_ in Ws:
            Em |= emitters(w_)
        # container-level hooks see the emitters of every codec they can host: only codec-level pairs are obligations
        if not Em or not any(H.split('_')[0] in w_ for w_ in Ws):
            continue
        hf = prog.fn(H)
        r = pe.explore(hf, {'psf->file.mode': E['SFM_WRITE']})
        got = {e for e in Em if (e in r.calls) or (e.startswith('@') and ('@slot:' + e[1:]) in r.calls)}
        seenH += 1
        ctx.ob('FLUSH', H, bool(got), hf.loc(hf.body), 'write workers emit via %s when full; close hook in write mode %s' % (sorted(Em), 'reaches %s for the partial block' % sorted(got) if got else
               'NEVER emits the partial block: the tail of the audio would be lost'), None)
        # FLUSH-PENDING: the flush happens only when something is pending (a flush on an exact block boundary appends a block of padding)
        if got:
            calls_ = []
            for c_ in hf.calls():
                cal_ = c_.get('callee')
                if cal_ in got:
                    calls_.append(c_)
                elif not cal_:
                    sl_ = prog.indirect_callee_slot(hf, c_)
                    if sl_ and ('@%s.%s' % sl_) in got:
                        calls_.append(c_)
            for k_, c_ in enumerate(calls_):
                pend = False
                desc = []
                for a_ in hf.ancestors(c_):
                    if a_['k'] != 'IfStmt' or not hf.within(c_, a_['then']):
                        continue
                    def conj(n_):
                        n_ = hf.unwrap(n_)
                        if n_.get('k') == 'BinaryOperator' and n_.get('op') == '&&':
                            return conj(hf.N[n_['kids'][0]]) + conj(hf.N[n_['kids'][1]])
                        return [n_]
                    for cj in conj(hf.N[a_['cond']]):
                        desc.append(hf.s(cj))
                        if cj.get('k') == 'MemberExpr' and any(t in cj['n'] for t in COUNTERS):
                            pend = True
                        elif cj.get('k') == 'BinaryOperator' and cj.get('op') in ('>', '!=', '>=') and hf.unwrap(hf.N[cj['kids'][0]]).get('k') == 'MemberExpr' \
                                and any(t in hf.unwrap(hf.N[cj['kids'][0]])['n'] for t in COUNTERS):
                            v_ = hf.unwrap(hf.N[cj['kids'][1]]).get('v')
                            if (cj['op'] in ('>', '!=') and v_ == 0) or (cj['op'] == '>=' and v_ == 1):
                                pend = True
                ctx.ob('FLUSH-PENDING', '%s#%d' % (H, k_ + 1), pend, hf.loc(c_), 'the close-time flush is %s' % ('guarded by a "something is pending" test (%s)' % ' && '.join(desc)[:120] if pend else
                       'NOT guarded by a test that samples are pending (guards: %s): a stream that ends exactly on a block boundary gets an extra block of padding, the file reports more frames than were written' % (' && '.join(desc)[:120] or 'none')), None)
    for H, need in (('alac_close', 'alac_encode_block'), ('dwvw_close', 'dwvw_encode_data')):
        hf = prog.fn(H)
        r = pe.explore(hf, {'psf->file.mode': E['SFM_WRITE']})
        seenH += 1
        ctx.ob('FLUSH', H, need in r.calls, hf.loc(hf.body), 'frozen instance: close hook %s %s' % ('reaches' if need in r.calls else 'does NOT reach', need), None)
    # slot-dispatched flushes the discovery above does not pair up (the close hook calls through a private function pointer)
    for H, file_, slot_ in (('ima_close', 'ima_adpcm.c', ('IMA_ADPCM_PRIVATE_tag', 'encode_block')), ('sds_close', 'sds.c', ('tag_SDS_PRIVATE', 'writer'))):
        hf = prog.fn(H, file_)
        calls_ = [c_ for c_ in hf.calls() if not c_.get('callee') and prog.indirect_callee_slot(hf, c_) == slot_]
        seenH += 1
        ctx.ob('FLUSH', H, bool(calls_), hf.loc(hf.body), 'frozen instance: close hook %s the block writer through %s.%s' % ('calls' if calls_ else 'does NOT call', slot_[0], slot_[1]), None)
        for k_, c_ in enumerate(calls_):
            pend = False
            desc = []
            for a_ in hf.ancestors(c_):
                if a_['k'] != 'IfStmt' or not hf.within(c_, a_['then']):
                    continue

                def conj2(n_):
                    n_ = hf.unwrap(n_)
                    if n_.get('k') == 'BinaryOperator' and n_.get('op') == '&&':
                        return conj2(hf.N[n_['kids'][0]]) + conj2(hf.N[n_['kids'][1]])
                    return [n_]
                for cj in conj2(hf.N[a_['cond']]):
                    desc.append(hf.s(cj))
                    if cj.get('k') == 'MemberExpr' and any(t in cj['n'] for t in COUNTERS):
                        pend = True
                    elif cj.get('k') == 'BinaryOperator' and cj.get('op') in ('>', '!=', '>=') and hf.unwrap(hf.N[cj['kids'][0]]).get('k') == 'MemberExpr' \
                            and any(t in hf.unwrap(hf.N[cj['kids'][0]])['n'] for t in COUNTERS):
                        v_ = hf.unwrap(hf.N[cj['kids'][1]]).get('v')
                        if (cj['op'] in ('>', '!=') and v_ == 0) or (cj['op'] == '>=' and v_ == 1):
                            pend = True
            ctx.ob('FLUSH-PENDING', '%s#%d' % (H, k_ + 1), pend, hf.loc(c_), 'the close-time flush is %s' % ('guarded by a "something is pending" test (%s)' % ' && '.join(desc)[:120] if pend else
                   'NOT guarded by a test that samples are pending (guards: %s): a stream that ends exactly on a block boundary gets an extra block of padding, the file reports more frames than were written' % (' && '.join(desc)[:120] or 'none')), None)
    ctx.require(seenH >= 6, 'only %d flush pairs found' % seenH)

    # ------------------------------------------------------------------ CLOSE-HDR (shared with C04)
    from rules.C04 import close_hdr
    close_hdr(ctx, prog)
    varint_rule(ctx, prog)

    from engine.run import borrow
    borrow(ctx, 'C05', ['SIBLING-INDEX'], 'a typed writer that addresses the block buffer differently from its siblings stores the samples of a multi-call write in the wrong place: what is read back is not what was written')
    borrow(ctx, 'C05', ['PTR-ADVANCE'], 'a write path that converts every piece of a long request from the start of the caller buffer stores repeated data: what is read back is not what was written')
    borrow(ctx, 'C11', ['BLOCK-RESTORE'], 'a header refresh that flushes the pending block of a block codec must put the codec counters back: otherwise the samples already accepted are overwritten by the next write and what is read back is not what was written')


    ctx.rule('WIDTH-AGREE', 'AIFF-C DWVW: for every subformat arm, the sample width the open function hands to dwvw_init (what the data is encoded with) equals the width the header writer stores '
             'for that subformat (what the reader will decode with): a copy of the neighbouring arm makes the file re-open as another DWVW width and decode to garbage', floor=3)
    from engine.arms import switch_arm_stmts as _sas
    E1 = prog.enums
    ao, aw = prog.fn('aiff_open', 'aiff.c'), prog.fn('aiff_write_header', 'aiff.c')

    def _arms(g):
        out = {}
        for sw in [n for n in g.walk() if n['k'] == 'SwitchStmt']:
            for vals, names, dflt, stmts in _sas(g, sw):
                for nm in names:
                    if nm.startswith('SF_FORMAT_DWVW_'):
                        out.setdefault(nm, []).extend(stmts)
        return out
    enc = {}
    for nm, stmts in _arms(ao).items():
        for st in stmts:
            for c_ in ao.calls('dwvw_init', root=st):
                v_ = ao.unwrap(ao.args(c_)[1]).get('v')
                if v_ is not None:
                    enc[nm] = v_
    n_wa = 0
    warms = _arms(aw)
    # the variable that carries the width: the local that every DWVW arm sets to a small constant, not the same one in all arms
    per = {nm: {} for nm in warms}
    for nm, stmts in warms.items():
        for st in stmts:
            for lv_, a_, r_ in assigned_lvalues(aw, st):
                v_ = aw.unwrap(r_).get('v') if r_ is not None else None
                if v_ is not None and 1 <= v_ <= 64 and '->' not in lv_:
                    per[nm].setdefault(lv_, []).append(v_)
    wvars = [lv_ for lv_ in set().union(*[set(d_) for d_ in per.values()]) if all(lv_ in d_ for d_ in per.values()) and len({tuple(d_[lv_]) for d_ in per.values()}) > 1] if per else []
    for nm, stmts in sorted(warms.items()):
        ws = [v_ for lv_ in wvars for v_ in per[nm].get(lv_, [])][-1:]
        if nm not in enc or not ws:
            continue
        n_wa += 1
        ok = all(w_ == enc[nm] for w_ in ws)
        ctx.ob('WIDTH-AGREE', nm, ok, aw.loc(stmts[0]), '%s: encoded with dwvw_init (psf, %d), header says %s' % (nm, enc[nm], ws) + ('' if ok else ' - the file re-opens as a different DWVW width'), None)
    ctx.require(n_wa >= 3, 'only %d DWVW arms comparable between aiff_open and aiff_write_header' % n_wa)

def varint_rule(ctx, prog, rule='VARINT'):
    """CAF 'pakt' table: variable-length packet sizes.  Each guarded arm `(value & M) == value` of alac_pakt_encode must have M = 2^(7n) - 1 and store
    n bytes, most significant 7-bit group first, continuation bit 0x80 on all but the last (lane proof for every value the guard admits)."""
    from engine.lanes import LaneEval, Val
    ctx.rule(rule, 'alac_pakt_encode: every arm guarded by (value & M) == value has M = 2^(7n)-1 and stores exactly n bytes whose low 7 bits are the value\'s 7-bit groups, most significant first, '
             'with bit 7 set on all but the last byte (symbolic lane evaluation); the decoder accumulates (value << 7) + (byte & 0x7F) while (byte & 0x80)', floor=4)
    f = prog.fn('alac_pakt_encode', 'alac.c')
    arms = [n for n in f.walk() if n['k'] == 'IfStmt' and re.match(r'^\(\(value & \d+\) == value\)$', f.s(n['cond']))]
    ctx.require(len(arms) >= 3, 'alac_pakt_encode has %d varint arms' % len(arms))
    seen_n = set()
    for a in arms:
        M = int(re.match(r'^\(\(value & (\d+)\)', f.s(a['cond'])).group(1))
        n = (M + 1).bit_length() - 1
        bad = []
        if (M + 1) & M or n % 7:
            bad.append('guard mask %#x is not 2^(7n)-1' % M)
            n = max(1, -(-n // 7)) * 7
        n //= 7
        seen_n.add(n)
        le = LaneEval(prog, f, 'value#', 'data#', ('int', 32, True))
        le.f_top = f
        env = {'value': Val([('s', k) for k in range(7 * n)] + [0] * (32 - 7 * n), True)}
        stores = [x for x in f.walk(a['then']) if x['k'] == 'BinaryOperator' and x['op'] == '=' and f.s(x['kids'][0]).startswith('data[')]
        if len(stores) != n:
            bad.append('stores %d byte(s), %d needed for %d payload bits' % (len(stores), n, 7 * n))
        for j, st in enumerate(stores[:n]):
            v = le.ev(f, st['kids'][1], env)
            bits = v.ext(8) if isinstance(v, Val) else [None] * 8
            exp = [('s', 7 * (n - 1 - j) + b) for b in range(7)] + [1 if j < n - 1 else 0]
            if bits != exp:
                bad.append('byte %d is [%s], documented [%s]' % (j, ' '.join(fmt(x) for x in reversed(bits)), ' '.join(fmt(x) for x in reversed(exp))))
        ctx.ob(rule, 'alac_pakt_encode:%d-byte' % n, not bad, f.loc(a), '%d-byte form for values < 2^%d: %s' % (n, 7 * n, 'lanes as documented' if not bad else '; '.join(bad[:2])), None)
    ctx.ob(rule, 'alac_pakt_encode:forms', seen_n >= {1, 2, 3, 4}, f.loc(f.body), 'forms present: %s' % sorted(seen_n), None)
    g = prog.fn('alac_pakt_read_decode', 'alac.c')
    acc = [f2 for f2 in [g.s(x) for x in g.walk() if x['k'] == 'BinaryOperator' and x['op'] == '=' and g.s(x['kids'][0]) == 'value'] if '<< 7' in f2]
    cond = [g.s(x['cond']) for x in g.walk() if x['k'] == 'DoStmt']
    ok = any(a_ == '(value = ((value << 7) + (byte & 127)))' for a_ in acc) and '(byte & 128)' in cond
    ctx.ob(rule, 'alac_pakt_read_decode', ok, g.loc(g.body), 'decoder accumulation %s, continuation test %s' % (acc, cond), None)
