"""C15 — I/O failures at any point are contained (structural clauses)."""
import os
from engine.facts import VERIF
from engine.effects import Effects
from engine.bounds import Bounds
from engine.staging import check_staging
from engine.util import assigned_lvalues

EXPLANATION = ('Decides the discipline that contains I/O failures: (IO-RETURN) psf_fread / psf_fwrite retry only on EINTR, leave their loop on a zero transfer and on any other error after latching it '
               '(psf_log_syserr), advance the running total and shrink the remaining count by exactly the transferred bytes, pass count <= remaining to the system call, and return total / bytes '
               '(so the value is within [0, items]); psf_log_syserr latches only the first system error; (STAGING) every conversion loop leaves on a short transfer and counts what was transferred on '
               'every path, so a persistently failing callback ends a call after one iteration; (LOOP-IO) no parser or block loop can spin on a reader that makes no progress; (OPEN-FAIL / NOSKIP) '
               'failed opens and sf_close release everything whatever the I/O did (shared with C16). Values under inconsistent tell/length answers, time bounds and non-corruption of earlier data are NOT decided.')
NOT_DECIDED = ['results when tell / length callbacks give inconsistent answers', 'time bound as such', 'earlier data not corrupted by later calls']
ASSUMPTIONS = ['read(2)/write(2) and the SF_VIRTUAL_IO callbacks return at most the requested count']


def run(ctx):
    prog = ctx.prog
    eff = Effects(prog)
    ctx.rule('IO-RETURN', 'psf_fread / psf_fwrite: EINTR is the only retried error; every other error is logged through psf_log_syserr and leaves the loop; a zero transfer leaves the loop; total += count and '
             'items -= count with the same count; the request handed to read/write is <= the remaining count; the function returns total / bytes', floor=12)
    for name, sysc in (('psf_fread', 'read'), ('psf_fwrite', 'write')):
        pub = prog.fn(name, 'file_io.c')
        # the loop may sit in the primitive itself or in a static helper of file_io.c it calls (possibly shared by both directions): roles are read off the loop,
        # not off variable names
        f, hcall = pub, None
        if not list(pub.calls(sysc)):
            for hc in pub.calls():
                for g in prog.fns.get(hc.get('callee') or '', []):
                    if g.static and g.file == pub.file and list(g.calls(sysc)):
                        f, hcall = g, hc
        bd = Bounds(prog, f, eff)
        calls = [c_ for c_ in f.calls(sysc) if any(a_['k'] in ('WhileStmt', 'ForStmt', 'DoStmt') for a_ in f.ancestors(c_))]
        ctx.require(len(calls) == 1, '%s: %d %s calls inside a loop (in %s)' % (name, len(calls), sysc, f.name))
        c = calls[0]
        L = [a_ for a_ in f.ancestors(c) if a_['k'] in ('WhileStmt', 'ForStmt', 'DoStmt')][0]
        # roles
        par = f.N[f.parent[c['id']]]
        while par['k'] in ('ImplicitCastExpr', 'ParenExpr', 'CStyleCastExpr'):
            par = f.N[f.parent[par['id']]]
        ctx.require(par['k'] == 'BinaryOperator' and par.get('op') == '=', '%s: the result of %s is not assigned' % (name, sysc))
        cnt = f.s(f.unwrap(f.N[par['kids'][0]]))
        lc = f.unwrap(f.N[L['cond']]) if 'cond' in L else {}
        rem = f.s(f.unwrap(f.N[lc['kids'][0]])) if lc.get('k') == 'BinaryOperator' and lc.get('op') in ('>', '!=') else None
        ctx.require(rem, '%s: the transfer loop is not controlled by a remaining count' % name)
        upd = {(lv, n['op'], f.s(f.unwrap(rhs))) for (lv, n, rhs) in assigned_lvalues(f, L['body']) if rhs is not None and n['k'] == 'CompoundAssignOperator'}
        tots = [lv for (lv, op, r) in upd if op == '+=' and r == cnt]
        tot = tots[0] if tots else None
        # request <= remaining
        req = f.unwrap(f.args(c)[2])
        b = bd.ev(req)
        ok = ('<=', rem) in b.ubs or ('<', rem) in b.ubs
        ctx.ob('IO-RETURN', name + ':request', ok, f.loc(c), 'request %s is %s the remaining count `%s` (%r)' % (f.s(req), 'bounded by' if ok else 'NOT bounded by', rem, b.ubs), None)
        # error handling, read off the CFG (the shape of the ifs does not matter):
        #   every `continue` of the loop runs only when count == -1 and errno == EINTR; psf_log_syserr runs under count == -1 and from it the system call is not reached again
        from engine.util import branch_facts as _bf15
        m1 = '(%s==-1)' % cnt
        conts = [x for x in f.walk(L['body']) if x['k'] == 'ContinueStmt']
        def _is_eintr(cs):
            return 'errno' in cs or cs.endswith('==4)') or '__errno_location' in cs
        okc = bool(conts)
        for ct in conts:
            facts = _bf15(f, ct)
            if not (any(pol and cs == m1 for cs, pol in facts) and any(pol and _is_eintr(cs) for cs, pol in facts)):
                okc = False
        logs_ = [x for x in f.calls('psf_log_syserr', root=L['body'])]
        okl = bool(logs_)
        # both directions may share the loop: the other system call is a way round again as well
        again = {f.cfg.point(x)[0] for x in f.calls(('read', 'write'), root=L['body']) if f.cfg.point(x) is not None}
        for lg in logs_:
            facts = _bf15(f, lg)
            if not any(pol and cs == m1 for cs, pol in facts):
                okl = False
            pl = f.cfg.point(lg)
            if pl is None or not again or f.cfg.path_avoiding(pl, again, set()) is not None:
                okl = False            # after logging the error the loop goes round again
        okerr = okc and okl
        ctx.ob('IO-RETURN', name + ':error', okerr, f.loc(L), 'on -1: retry only for EINTR, otherwise psf_log_syserr and out of the loop: %s' % ('yes' if okerr else 'NO'), None)
        zs = [n for n in f.walk(L['body']) if n['k'] == 'IfStmt' and f.s(n['cond']).replace(' ', '') in ('(%s==0)' % cnt, '(%s<=0)' % cnt)]
        okz = bool(zs) and any(x['k'] == 'BreakStmt' for x in f.walk(zs[0]['then']))
        ctx.ob('IO-RETURN', name + ':zero', okz, f.loc(zs[0]) if zs else f.loc(L), 'zero transfer leaves the loop: %s' % okz, None)
        oku = tot is not None and (rem, '-=', cnt) in upd
        ctx.ob('IO-RETURN', name + ':accounting', oku, f.loc(L), 'the running total grows and the remaining count `%s` shrinks by the same `%s`: %s' % (rem, cnt, sorted(upd)), None)
        bytes_ = pub.params[1]['n']
        rets = [pub.s(pub.unwrap(pub.N[r['kids'][0]])) for r in pub.cfg.returns()]
        if hcall is None:
            good = '(%s / %s)' % (tot, bytes_)
            okr = good in rets and all(r in (good, '0') or 'psf->vio.' in r for r in rets)
        else:
            hrets = [f.s(f.unwrap(f.N[r['kids'][0]])) for r in f.cfg.returns()]
            good = '(%s / %s)' % (pub.s(hcall), bytes_)
            okr = good in rets and all(r in (good, '0') or 'psf->vio.' in r for r in rets) and bool(hrets) and all(r == tot for r in hrets)
            rets = rets + ['%s: %s' % (f.name, hrets)]
        ctx.ob('IO-RETURN', name + ':return', okr, pub.loc(pub.body), 'returns %s' % rets, None)
        ptr = f.s(f.unwrap(f.args(c)[1]))
        # a local that is nothing but the (cast) parameter is the parameter
        from engine.util import local_defs as _ld15
        for nm_, ds_ in _ld15(f).items():
            if len(ds_) == 1 and ds_[0] is not None and f.unwrap(ds_[0] if isinstance(ds_[0], dict) else f.N[ds_[0]]).get('k') == 'DeclRefExpr':
                tgt_ = f.unwrap(ds_[0] if isinstance(ds_[0], dict) else f.N[ds_[0]])['n']
                if tgt_ in [p_['n'] for p_ in f.params] and sum(1 for lv, a_, r_ in assigned_lvalues(f) if lv == nm_) <= 1:
                    ptr = ptr.replace('(%s + ' % nm_, '(%s + ' % tgt_)
        if hcall is None:
            oko = ptr == '(%s + %s)' % (pub.params[0]['n'], tot)
        else:
            # the helper's buffer parameter, and what the primitive passes for it
            pn = [i_ for i_, p_ in enumerate(f.params) if ptr == '(%s + %s)' % (p_['n'], tot)]
            oko = bool(pn) and pn[0] < len(pub.args(hcall)) and pub.s(pub.unwrap(pub.args(hcall)[pn[0]])) == pub.params[0]['n']
        ctx.ob('IO-RETURN', name + ':offset', oko, f.loc(c), 'system call buffer is %s (required: the caller pointer + the running total)' % ptr, None)
    f = prog.fn('psf_log_syserr', 'file_io.c')
    conds = [f.s(n['cond']) for n in f.walk() if n['k'] == 'IfStmt']
    ok = any('psf->error == 0' in c_ for c_ in conds)
    ctx.ob('IO-RETURN', 'psf_log_syserr:first-only', ok, f.loc(f.body), 'latches only when no error is pending: %s' % conds, None)

    ctx.rule('STAGING', 'shared with C05: every BUF_UNION staging loop counts the transfer result on every path and leaves on a short transfer', floor=110)
    check_staging(ctx, prog, eff)

    ctx.rule('LOOP-IO', 'shared with C03: every loop that reads has an exit controlled by read progress or a non-wrapping monotone counter', floor=25)
    from rules.C03 import loop_io
    loop_io(ctx, prog, eff)

    from rules.C16 import open_fail, noskip
    from engine.own import Own
    open_fail(ctx, prog)
    own = Own(prog)
    ctx.rule('NOSKIP', 'shared with C16: no release in psf_close or a close hook can be skipped on a path on which its guards hold (an I/O failure inside a close hook must not skip fclose/remove/free)', floor=25)
    hooks = sorted(set(prog.slot('codec_close')) | set(prog.slot('container_close')))
    noskip(ctx, prog, own, [prog.fn('psf_close', 'sndfile.c')] + [g for h in hooks for g in prog.fns.get(h, [])])

    ctx.rule('IO-COUNT', 'in every loop that works off a remaining count R (R -= V in the body), each psf_fread / psf_fwrite of the body transfers exactly V, or R is decremented by the call\'s own result: '
             'what is transferred is what is accounted for (the pipe route of header_seek skips by reading and must not swallow bytes of the following chunk)', floor=100)
    from engine.iocount import io_count
    ctx.require(io_count(ctx, prog) >= 100, 'too few accounted transfers found')
    from engine.fixture import generic_fixture as _gf
    _gf(ctx, [('IO-COUNT', io_count, 'bad_iocount')])

    from engine.run import borrow
    borrow(ctx, 'C09', ['WRAPPER'], 'the wrappers\' handling of a short or failed transfer: count returned = count accounted for, failing re-seek returns 0')
    borrow(ctx, 'C09', ['STATE-PAIR'], 'a failing write of the SD2 resource fork must not return with the descriptors swapped: the failing open then closes the wrong one and leaks the other')
    borrow(ctx, 'C05', ['READ-COUNT'], 'after a short transfer the count a read function reports must be what the primitive delivered, not what was asked for')
    borrow(ctx, 'C06', ['BLOCK-FILL'], 'a short read into a block buffer must not make the decoder consume bytes that were never delivered')

    from engine.parseloops import chunk_loop_eof as _cle, neg_skip as _nsk
    ctx.rule('CHUNK-LOOP-EOF', 'every header-parser loop that starts a round by reading a chunk marker (`m` / `h` field of psf_binheader_readf) leaves when that read delivers nothing: an exit under '
             '`target == 0` (READF-ZERO makes the target zero after a failed read), or under a test of the freshly assigned byte count of that very read; a parser that keeps interpreting '
             'zeros as chunks can run for ever on a truncated stream', floor=7)
    n_cle_ = _cle(ctx, prog)
    ctx.require(n_cle_ >= 7, 'only %d marker-reading parser loops found' % n_cle_)
    ctx.rule('NEG-SKIP', 'every relative header skip (`j` field of psf_binheader_readf) with a signed amount is proved non-negative at the call (A-PENT, or the enclosing guard orders the operands of '
             '`A - B`); unsigned amounts cannot step back; a negative skip re-parses bytes already consumed and is how a hostile chunk size makes the parser loop for ever '
             '(unproved sites: tables/c03_negskip.tsv, one written argument each)', floor=75)
    fz_ = {}
    for l_ in open(os.path.join(VERIF, 'tables', 'c03_negskip.tsv')):
        if l_.strip() and not l_.startswith('#'):
            k_, v_ = l_.rstrip('\n').split('\t', 1)
            fz_[k_] = v_
    n_ns_ = _nsk(ctx, prog, eff, frozen=fz_)
    ctx.require(n_ns_ >= 75, 'only %d relative skips found' % n_ns_)

    ctx.rule('PTR-SCALE', 'for memset / memcpy / psf_fread / psf_fwrite (size 1) whose buffer is P + K with P a pointer to elements wider than a byte, the byte length is not of the form N - K: '
             'K would move the start by K * sizeof (*P) bytes while shortening the length by K bytes only (the zero-fill-after-a-short-read slip: the call runs past the end of the block)', floor=4)
    from engine.ptrscale import ptr_scale
    n_ps_ = ptr_scale(ctx, prog)
    ctx.require(n_ps_ >= 4, 'only %d byte-count calls on a scaled pointer found' % n_ps_)
    from engine.fixture import generic_fixture as _gfps
    _gfps(ctx, [('PTR-SCALE', ptr_scale, 'bad_ptrscale')])

    ctx.rule('FAIL-NOWRITE', 'a failing open must not write to the file it could not open: every psf_close call on the failure path of psf_open_file (each one that is followed by `return NULL`) is dominated by '
             'a statement that takes the handle out of the writing modes (psf->file.mode = SFM_READ) or removes the close hooks (container_close / codec_close = NULL): the close hooks of '
             'WAV, AIFF ... rewrite tailer and header under `mode == SFM_WRITE || mode == SFM_RDWR`, and an SFM_RDWR open that fails half way through the header would otherwise store its '
             'half-parsed state over an existing file', floor=1)
    pof = prog.fn('psf_open_file', 'sndfile.c')
    n_fw = 0
    for c_ in pof.calls('psf_close'):
        pc_ = pof.cfg.point(c_)
        if pc_ is None:
            continue
        n_fw += 1
        neutral = []
        for lv, a, r in assigned_lvalues(pof):
            if r is None or a.get('op') != '=':
                continue
            rv = pof.unwrap(r)
            if (lv == 'psf->file.mode' and (pof.s(rv) == 'SFM_READ' or rv.get('v') == 0x10)) or (lv in ('psf->container_close', 'psf->codec_close') and rv.get('v') == 0):
                neutral.append(a)
        ok = any(pof.cfg.dominates(a, c_) or (pof.cfg.point(a) is not None and pof.cfg.path_avoiding((pof.cfg.entry, -1), {pc_[0]}, {pof.cfg.point(a)}) is None) for a in neutral)
        if not ok and neutral:
            # a conditional `if (mode == SFM_RDWR) mode = SFM_READ` dominates through its IfStmt: accept when the IfStmt dominates and its condition tests the writing mode
            for a in neutral:
                for anc in pof.ancestors(a):
                    if anc['k'] == 'IfStmt' and 'SFM_RDWR' in pof.s(anc['cond']) and (pof.cfg.dominates(anc, c_) or any(pof.cfg.dominates(x, c_) for x in pof.walk(pof.N[anc['cond']]))):
                        ok = True
        ctx.ob('FAIL-NOWRITE', 'psf_open_file:psf_close@%d' % c_['l'], ok, pof.loc(c_), 'the failing open %s' % ('leaves the writing mode before it closes the handle' if ok else
               'closes the handle in its original mode: for SFM_RDWR the container close hook rewrites the header of a file the open has just rejected'), None)
    ctx.require(n_fw >= 1, 'psf_open_file: no psf_close on the failure path')

    ctx.rule('READF-ZERO', 'psf_binheader_readf clears the caller\'s target (`*ptr = 0` / memset (ptr, 0, n)) in every format arm before header_read fills it: after a short or failed read the '
             'parser sees zeros, never the previous chunk\'s bytes or uninitialised memory (LOOP-IO relies on exactly this to conclude that parser loops notice a dead stream)', floor=9)
    from engine.arms import switch_arm_stmts as _sas
    from engine.util import assigned_lvalues as _alz
    rf_ = prog.fn('psf_binheader_readf', 'common.c')
    sws_ = [n for n in rf_.walk() if n['k'] == 'SwitchStmt']
    ctx.require(sws_, 'psf_binheader_readf has no format switch')
    nz_ = 0
    for vals_, names_, hd_, stmts_ in _sas(rf_, sws_[0]):
        reads_ = [c for st in stmts_ for c in rf_.calls(root=st) if c.get('callee') == 'header_read']
        if not reads_:
            continue
        clears_ = []
        for st in stmts_:
            for lv, a, r in _alz(rf_, st):
                if lv.startswith('*') and r is not None and (rf_.unwrap(r).get('v') == 0 or rf_.unwrap(r).get('fv') == 0.0):
                    clears_.append(a)
            for c in rf_.calls(root=st):
                if c.get('callee') == 'memset' and rf_.unwrap(rf_.args(c)[1]).get('v') == 0:
                    clears_.append(c)
        ok_ = bool(clears_) and all(any((x['l'], x['c']) < (rd['l'], rd['c']) for x in clears_) for rd in reads_)
        nz_ += 1
        ctx.ob('READF-ZERO', "format '%s'" % ''.join(chr(v) for v in vals_ if 32 <= v < 127), ok_, rf_.loc(reads_[0]), 'target %s before the read' % ('cleared' if ok_ else
               'NOT cleared: a failed read leaves stale bytes in the caller\'s variable / buffer, which the header parser then uses'), None)
    ctx.require(nz_ >= 9, 'only %d reading format arms found' % nz_)

