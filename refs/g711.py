"""ITU-T G.711 reference (written from the Recommendation's definition: 8-segment companding of a 14-bit (mu-law) / 13-bit (A-law)
magnitude).  Used as the oracle for the library's lookup tables."""


def ulaw_decode(code):
    """G.711 mu-law expansion to 16-bit linear (14-bit value << 2)"""
    c = ~code & 0xFF
    sign = c & 0x80
    exp = (c >> 4) & 0x07
    mant = c & 0x0F
    mag = (((mant << 3) + 0x84) << exp) - 0x84
    return -mag if sign else mag


def alaw_decode(code):
    """G.711 A-law expansion to 16-bit linear (13-bit value << 3)"""
    c = code ^ 0x55
    sign = c & 0x80          # 1 = positive in A-law
    exp = (c >> 4) & 0x07
    mant = c & 0x0F
    if exp == 0:
        mag = (mant << 4) + 8
    else:
        mag = ((mant << 4) + 0x108) << (exp - 1)
    return mag if sign else -mag


def levels(decode):
    return sorted(set(decode(c) for c in range(256)))


def nearest_positive(decode, value):
    """set of positive-side codes whose decoded level is nearest to `value` (ties return both)"""
    best = None
    out = []
    for c in range(256):
        v = decode(c)
        if v < 0:
            continue
        d = abs(v - value)
        if best is None or d < best:
            best, out = d, [c]
        elif d == best:
            out.append(c)
    return out


def ulaw_encode(pcm):
    """G.711 mu-law compression of a 16-bit linear sample (the Recommendation's 14-bit input is pcm >> 2): bias 33 on the 14-bit
    magnitude, segment = position of the leading one, 4 mantissa bits, all bits inverted"""
    sign = 0x80 if pcm < 0 else 0
    mag = -pcm if pcm < 0 else pcm
    if mag > 32635:
        mag = 32635
    mag += 0x84
    exp = 7
    mask = 0x4000
    while exp > 0 and not (mag & mask):
        exp -= 1
        mask >>= 1
    mant = (mag >> (exp + 3)) & 0x0F
    return ~(sign | (exp << 4) | mant) & 0xFF


def alaw_encode(pcm):
    """G.711 A-law compression of a 16-bit linear sample (13-bit magnitude = pcm >> 3), even bits inverted"""
    if pcm >= 0:
        mask = 0xD5
        mag = pcm
    else:
        mask = 0x55
        mag = -pcm - 1 if pcm > -32768 else 32767
    mag >>= 3          # 13-bit magnitude... expressed on the 16-bit scale below
    mag <<= 3
    if mag < 256:
        aval = mag >> 4
    else:
        exp = 7
        m = 0x4000
        while exp > 1 and not (mag & m):
            exp -= 1
            m >>= 1
        aval = (exp << 4) | ((mag >> (exp + 3)) & 0x0F)
    return aval ^ mask
