"""COUNT-TABLE: a heap table and the count it was allocated with stay paired.

For `T = calloc (N, ...)` / `malloc (N * ...)` with N a variable, every later use that hands T and N out together (a call
passing both, or a loop bounded by N that subscripts T) relies on N being the count T was allocated with.  For every
assignment of a (non-zero) value to N, every CFG path from that assignment to such a use must pass the allocation of T
from N: otherwise the table of an earlier allocation is walked with a newer, larger count (over-read / over-write)."""
from .util import assigned_lvalues

ALLOC = ('calloc', 'malloc')


def count_table(ctx, prog, rule='COUNT-TABLE', files=None):
    n_inst = 0
    for f in sorted(prog.lib_fns(), key=lambda f: (f.file, f.line)):
        if files and f.file.split('/')[-1] not in files:
            continue
        pairs = {}
        for lv, a, r in assigned_lvalues(f):
            if r is None:
                continue
            ru = f.unwrap(r)
            if ru.get('k') != 'CallExpr' or ru.get('callee') not in ALLOC:
                continue
            for arg in f.args(ru):
                for x in f.walk(f.unwrap(arg)):
                    if x['k'] in ('DeclRefExpr', 'MemberExpr') and x.get('t') and x.get('v') is None and not x.get('t', '').rstrip().endswith(('*', ']')):
                        ns = f.s(x)
                        if x['k'] == 'DeclRefExpr' and x.get('dk') not in (None, 'var', 'local', 'param'):
                            continue
                        if 'sizeof' in ns or ns == lv:
                            continue
                        pairs.setdefault((lv, ns), []).append(a)
        if not pairs:
            continue
        cfg = f.cfg
        for (T, N), sites in sorted(pairs.items()):
            uses = []
            for c in f.calls():
                if c.get('callee') in ALLOC + ('free', 'memset', 'psf_log_printf'):
                    continue
                args = [f.s(f.unwrap(x)) for x in f.args(c)]
                if T in args and N in args:
                    uses.append(c)
            for lp in [n for n in f.walk() if n['k'] == 'ForStmt' and 'cond' in n]:
                cs = f.s(lp['cond'])
                if ('< %s)' % N) in cs or ('<= %s)' % N) in cs:
                    subs = [x for x in f.walk(lp['body']) if x['k'] == 'ArraySubscriptExpr' and f.s(f.unwrap(f.N[x['kids'][0]])) == T]
                    if subs:
                        uses.append(subs[0])
            if not uses:
                continue
            # any (re)assignment of the table re-pairs it with the count in force (another sufficiently large buffer is BOUNDED-SINK's business)
            avoid = {cfg.point(a) for lv2, a, r2 in assigned_lvalues(f) if lv2 == T and cfg.point(a)}
            assigns = [a for lv, a, r in assigned_lvalues(f) if lv == N and not (r is not None and f.unwrap(r).get('v') == 0)]
            for k, u in enumerate(uses):
                pu = cfg.point(u)
                if pu is None:
                    continue
                n_inst += 1
                bad = None
                for a in assigns:
                    pa = cfg.point(a)
                    if pa is None or pa in avoid:
                        continue
                    if any(b == pu[0] and i < pu[1] for (b, i) in avoid):
                        continue
                    if pa[0] == pu[0] and pa[1] < pu[1] and not any(b == pa[0] and pa[1] < i < pu[1] for (b, i) in avoid):
                        bad = a
                        break
                    w = cfg.path_avoiding(pa, {pu[0]}, avoid)
                    if w is not None:
                        bad = a
                        break
                ctx.ob(rule, '%s:%s/%s#%d' % (f.name, T, N, k + 1), bad is None, f.loc(u), 'use of table %s with count %s: %s' % (T, N, 'every new count reaches it only through the allocation of the table' if bad is None else
                       'the count assigned at %s reaches this use on a path that does not (re)allocate the table: the older, smaller table is walked with the newer count' % f.loc(bad)), None)
    return n_inst
