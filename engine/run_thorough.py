"""Thorough tier: everything the quick tier does (on /repo's working tree, deciding step), plus

 (a) the property's rules in thorough mode (rule modules look at ctx.tier: e.g. C10 explores the full channel / sample-rate
     classes instead of representatives);
 (b) CONFIGURATION OVERLAYS: the same rule module is run again on the program re-extracted under other build
     configurations (a rewritten config.h first on the include path; syntax-only, so no cross toolchain is needed):
       be      CPU_IS_BIG_ENDIAN = 1 / CPU_IS_LITTLE_ENDIAN = 0 / WORDS_BIGENDIAN = 1
       nosse   HAVE_LRINT = HAVE_LRINTF = 0 and __SSE2__ undefined (psf_lrint falls back to lrint / the portable path)
     A finding that exists only under an overlay is a VIOLATION like any other (its key carries `@<overlay>`): the
     properties quantify over build configurations, and the test suite only ever runs the configured one;
 (c) POSITIVE CONTROLS (engine/controls.py): the reverse of every recorded fix and every seeded change written against
     this property is applied to a scratch copy and must be reported by this property's quick check.
"""
import importlib

# which overlays make sense per property (rules that look at byte order / rounding / conditional code)
OVERLAYS = {
    'C01': ('be', 'nosse'), 'C02': ('be', 'nosse'), 'C20': ('be', 'nosse'), 'C03': ('be',), 'C04': ('be',), 'C05': ('be',), 'C12': ('be',),
    'C14': ('be',), 'C17': ('be',), 'C18': ('be',), 'C06': ('be',), 'C13': ('be',), 'C16': ('be',), 'C19': ('be',), 'C09': ('be',),
    'C07': ('be',), 'C08': ('be',), 'C11': ('be',), 'C15': ('be',), 'C10': (),
}


def run_overlays(pid, mod, CtxClass, tier, base_ctx, out):
    from .model import load_program
    notes = []
    base_keys = {fd['key'] for fd in base_ctx.findings}
    for ov in OVERLAYS.get(pid, ()):
        prog = load_program(overlay=ov)
        c2 = CtxClass(pid, tier, prog)
        mod.run(c2)
        for r in c2.order:
            R = c2.rules[r]
            if len(R['inst']) < R['floor']:
                from .facts import AnalysisBroken
                raise AnalysisBroken('overlay %s: rule %s matched %d instance(s), floor is %d' % (ov, r, len(R['inst']), R['floor']))
        n = sum(len(c2.rules[r]['inst']) for r in c2.order)
        notes.append({'overlay': ov, 'facts_key': prog.info.get('key'), 'big_endian': prog.info.get('big_endian'), 'obligations': n,
                      'held': sum(1 for r in c2.order for i in c2.rules[r]['inst'] if i['ok']), 'findings': len(c2.findings)})
        # merge: every obligation of the overlay run is an obligation of the thorough run, keyed with @overlay
        for r in c2.order:
            name = '%s@%s' % (r, ov)
            base_ctx.rule(name, '[configuration overlay %s] %s' % (ov, c2.rules[r]['text']), floor=c2.rules[r]['floor'])
            for it in c2.rules[r]['inst']:
                base_ctx.rules[name]['inst'].append(dict(it, key=it['key']))
        for fd in c2.findings:
            if fd['key'] in base_keys:
                continue        # the same finding exists in the configured build: reported (or known) once, there
            base_ctx.findings.append({'rule': fd['rule'] + '@' + ov, 'key': fd['key'] + '@' + ov, 'where': fd['where'], 'overlay': ov,
                                      'msg': 'only under configuration overlay `%s`: %s' % (ov, fd['msg']), 'fact': fd['fact']})
    return notes
