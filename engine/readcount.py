"""READ-COUNT: what a read function reports as delivered comes from what the reading primitive delivered.

For every function installed in a typed read slot whose return statement returns a local accumulator R: each assignment
that feeds R (R = V, R += V) takes V from the result of a call (psf_fread, a block reader, another typed reader), directly
or through a local whose every definition is such a result - or is the constant 0.  An accumulator fed from the *request*
(the chunk length derived from len) reports items that a short read never delivered: the caller sees a full count and a
buffer whose tail was never written.  Frozen: the ALAC readers add the frames of the block the decoder has just produced."""
from .util import assigned_lvalues, local_defs

FROZEN = {'alac_read_s': 'readcount is the number of frames left in the block that alac_decode_block has just produced (frames_this_block - partial_block_frames), clamped to the request',
          'alac_read_i': 'as alac_read_s', 'alac_read_f': 'as alac_read_s', 'alac_read_d': 'as alac_read_s'}


def read_count(ctx, prog, rule='READ-COUNT'):
    fns = set()
    for fld in ('read_short', 'read_int', 'read_float', 'read_double'):
        for name in prog.slot(fld):
            for f in prog.fns.get(name, []):
                fns.add(f)
    n = 0
    for f in sorted(fns, key=lambda f: (f.file, f.line)):
        defs = local_defs(f)

        def call_derived(nm):
            ds = defs.get(nm)
            if not ds:
                return False
            for d in ds:
                if d is None:
                    return False
                d = d if isinstance(d, dict) else f.N[d]
                u = f.unwrap(d)
                if u.get('k') == 'BinaryOperator' and u.get('op') == '=':
                    u = f.unwrap(f.N[u['kids'][1]])
                if u.get('k') != 'CallExpr':
                    return False
            return True
        k = 0
        for r in f.cfg.returns():
            if not r.get('kids'):
                continue
            e = f.unwrap(f.N[r['kids'][0]])
            if e.get('k') != 'DeclRefExpr' or e.get('dk') == 'enum':
                continue
            R = e['n']
            for lv, a, rhs in assigned_lvalues(f):
                if lv != R or rhs is None or a.get('op') not in ('=', '+='):
                    continue
                n += 1
                k += 1
                u = f.unwrap(rhs)
                ok = u.get('k') == 'CallExpr' or u.get('v') == 0 or (u.get('k') == 'DeclRefExpr' and call_derived(u['n']))
                key = '%s:%s#%d' % (f.name, R, k)
                if not ok and f.name in FROZEN:
                    ctx.ob(rule, key, True, f.loc(a), 'frozen: %s' % FROZEN[f.name], None)
                    continue
                ctx.ob(rule, key, ok, f.loc(a), '`%s`: %s' % (f.s(a)[:60], 'the amount added is the result of a call' if ok else
                       'the returned count grows by `%s`, which does not come from a read result: after a short read the function still reports the full request' % f.s(u)[:40]), None)
    return n
