"""UNINIT-SERIAL: no byte of an uninitialised local array reaches a file.

Every local (automatic) array handed to psf_binheader_writef as the data of a `b` field, or to psf_fwrite, with byte
count L must be initialised over [0, L) on every path: a dominating memset over the whole array (or over the same
length expression), an initialiser, or a string producer that demonstrably fills L bytes (L written in terms of strlen of
the array after snprintf / psf_get_date_str; or snprintf with the padding format "%-*.*s" and a constant width >= L).
A helper that fills only part of the array (uint2tenbytefloat writes 6 of 10 bytes) is not an initialisation."""


def uninit_serial(ctx, prog, rule='UNINIT-SERIAL'):
    n = 0
    for f in sorted(prog.lib_fns(), key=lambda f: (f.file, f.line)):
        locs = {}
        for d in f.walk():
            if d['k'] == 'DeclStmt':
                for v in d.get('decls', []):
                    if v.get('t', '').rstrip().endswith(']') and not v.get('static'):
                        locs[v['n']] = v
        if not locs:
            continue
        for c in f.calls(('psf_binheader_writef', 'psf_fwrite')):
            args = f.args(c)
            for ai, a in enumerate(args):
                u = f.unwrap(a)
                if u['k'] != 'DeclRefExpr' or u['n'] not in locs:
                    continue
                A = u['n']
                v = locs[A]
                size = v.get('sz')
                # length argument: the next argument for binheader 'b' pairs (BHWv, BHWz); item size * count for psf_fwrite
                if c['callee'] == 'psf_fwrite':
                    Ls = '(%s * %s)' % (f.s(f.unwrap(args[1])), f.s(f.unwrap(args[2])))
                    Lv = None
                    a1, a2 = f.unwrap(args[1]).get('v'), f.unwrap(args[2]).get('v')
                    if a1 is not None and a2 is not None:
                        Lv = a1 * a2
                else:
                    if ai + 1 >= len(args):
                        continue
                    ln = f.unwrap(args[ai + 1])
                    Ls, Lv = f.s(ln), ln.get('v')
                n += 1
                key = '%s:%s@%s' % (f.name, A, Ls[:40])
                if v.get('init') is not None:
                    ctx.ob(rule, key, True, f.loc(c), '%s has an initialiser' % A, None)
                    continue
                dom_ms = [m for m in f.calls('memset') if f.s(f.unwrap(f.args(m)[0])) == A and f.cfg.dominates(m, c)]
                full = [m for m in dom_ms if f.unwrap(f.args(m)[2]).get('v') is not None and size is not None and f.unwrap(f.args(m)[2])['v'] >= size]
                same = [m for m in dom_ms if f.s(f.unwrap(f.args(m)[2])) == Ls]
                if full or same:
                    ctx.ob(rule, key, True, f.loc(c), '%s is filled by a dominating memset over %s' % (A, 'the whole array' if full else 'the same length expression'), None)
                    continue
                prod = [p_ for p_ in f.calls(('snprintf', 'psf_get_date_str', 'strcpy', 'psf_strlcpy')) if f.s(f.unwrap(f.args(p_)[0])) == A and f.cfg.dominates(p_, c)]
                if prod and ('strlen(%s)' % A) in Ls.replace(' ', ''):
                    ctx.ob(rule, key, True, f.loc(c), '%s is a string produced by %s; the serialised length is its strlen (+ terminator)' % (A, prod[0]['callee']), None)
                    continue
                okw = False
                for p_ in prod:
                    if p_['callee'] == 'snprintf':
                        pa = f.args(p_)
                        fmt = f.unwrap(pa[2])
                        if fmt.get('k') == 'StringLiteral' and fmt.get('s', '').startswith('%-*.*s') and len(pa) >= 5:
                            w1, w2 = f.unwrap(pa[3]).get('v'), f.unwrap(pa[4]).get('v')
                            if Lv is not None and w1 is not None and w2 is not None and w1 >= Lv and w2 >= Lv:
                                okw = True
                if okw:
                    ctx.ob(rule, key, True, f.loc(c), '%s is padded to a fixed width >= %s by snprintf ("%%-*.*s")' % (A, Lv), None)
                    continue
                ctx.ob(rule, key, False, f.loc(c), '%s bytes of the local array %s are written to the file but not all of them are initialised on every path (no dominating memset / initialiser / string producer covering the length): '
                       'the file contains stack residue and differs from run to run' % (Ls[:40], A), None)
    ctx.require(n >= 4, 'only %d serialised local arrays found' % n)
