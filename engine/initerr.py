"""INIT-ERR: the result of a codec / sub-format init is not dropped by the container's open function.

In every function the container dispatch of psf_open_file calls (*_open), an assignment  error = <call> (...)  must not
reach a return statement that returns something else without `error` having been looked at on the way (tested in a
condition, or returned): a failing init - SFE_BAD_MODE_RW for a codec that cannot do SFM_RDWR, SFE_MALLOC_FAILED ... -
otherwise leaves sf_open successful with a handle that has no read / write functions.
"""
from .util import assigned_lvalues


def init_err(ctx, prog, rule='INIT-ERR'):
    of = prog.fn('psf_open_file', 'sndfile.c')
    opens = sorted({c['callee'] for c in of.calls() if (c.get('callee') or '').endswith('_open') and c['callee'] in prog.fns})
    n = 0
    for name in opens:
        for f in prog.fns[name]:
            cfg = f.cfg
            k = 0
            for lv, a, r in assigned_lvalues(f):
                if r is None or a.get('op') != '=' or not lv.isidentifier():
                    continue
                ru = f.unwrap(r)
                if ru.get('k') != 'CallExpr' or not (ru.get('callee') or '').endswith('_init'):
                    continue
                pa = cfg.point(a)
                if pa is None:
                    continue
                n += 1
                k += 1
                # points where the value is looked at: conditions and returns that mention the variable
                uses = set()
                for x in f.walk():
                    if x['k'] == 'ReturnStmt' and x.get('kids') and any(y['k'] == 'DeclRefExpr' and y.get('n') == lv for y in f.walk(f.N[x['kids'][0]])):
                        p_ = cfg.point(x)
                        if p_ is not None:
                            uses.add(p_)
                    if x['k'] in ('IfStmt', 'WhileStmt', 'SwitchStmt', 'ConditionalOperator') and x.get('cond') is not None and any(y['k'] == 'DeclRefExpr' and y.get('n') == lv for y in f.walk(f.N[x['cond']])):
                        for y in f.walk(f.N[x['cond']]):
                            p_ = cfg.point(y)
                            if p_ is not None:
                                uses.add(p_)
                # the assignment itself inside a condition `if ((error = x_init ()))` is a use
                if any(anc['k'] == 'IfStmt' and anc.get('cond') is not None and f.within(a, f.N[anc['cond']]) for anc in f.ancestors(a)):
                    ctx.ob(rule, '%s:%s#%d' % (f.name, ru['callee'], k), True, f.loc(a), 'tested where it is assigned', None)
                    continue
                w = cfg.path_avoiding(pa, {cfg.exit}, uses)
                ctx.ob(rule, '%s:%s#%d' % (f.name, ru['callee'], k), w is None, f.loc(a), ('`%s = %s (...)` is tested or returned on every path to the exit' % (lv, ru['callee'])) if w is None else
                       '`%s = %s (...)` reaches an exit that returns something else without %s having been looked at: a failing init is dropped and sf_open succeeds with an unusable handle' % (lv, ru['callee'], lv), None)
    return n
