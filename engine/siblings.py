"""SIBLING-INDEX: the four sample-type variants of a block codec's read (write) function address the codec buffer identically."""
import re


def families(prog):
    """[(slot kind 'read'|'write', installing function name, {T: target function name})] for codec-level installs of all four typed slots"""
    fams = {}
    for kind in ('read', 'write'):
        for T in ('short', 'int', 'float', 'double'):
            for tgt, sites in prog.slots.get(('sf_private_tag', '%s_%s' % (kind, T)), {}).items():
                if tgt in ('NULL', '?') or tgt.startswith('@'):
                    continue
                for (f, n) in sites:
                    # group by installing function and by the statement block (same CompoundStmt parent)
                    par = None
                    for a in f.ancestors(n):
                        if a['k'] == 'CompoundStmt':
                            par = a['id']
                            break
                    fams.setdefault((kind, f.name, par), {})[T] = tgt
    return [(k[0], k[1], v) for k, v in fams.items() if len(v) == 4]


def addr_exprs(prog, f):
    """canonical strings of expressions that address memory through codec-private fields: subscripts' indices and pointer offsets"""
    out = set()
    for n in f.walk():
        e = None
        if n['k'] == 'ArraySubscriptExpr':
            e = f.N[n['kids'][1]]
        elif n['k'] == 'BinaryOperator' and n['op'] in ('+', '-') and n.get('t', '').rstrip().endswith('*'):
            e = f.N[n['kids'][1]]
        if e is None:
            continue
        if any(x['k'] == 'MemberExpr' and x.get('rec') not in ('sf_private_tag', None) for x in f.walk(e)):
            in_loop = any(a['k'] in ('WhileStmt', 'ForStmt', 'DoStmt') for a in f.ancestors(n))
            # the same offset computed once before the chunk loop instead of per chunk is a different addressing (the state it reads changes inside the loop)
            out.add(f.s(e) if in_loop else f.s(e) + ' [outside the chunk loop]')
    return out


def check_siblings(ctx, prog, rule, skip_files=()):
    n = 0
    for kind, inst, fam in sorted(families(prog), key=lambda x: (x[1], x[0])):
        fns = {T: prog.fns.get(nm, [None])[0] for T, nm in fam.items()}
        if any(v is None for v in fns.values()):
            continue
        if fns['short'].file.split('/')[-1] in skip_files:
            continue
        sets = {T: addr_exprs(prog, f) for T, f in fns.items()}
        # the short variant often hands the caller buffer straight to the block worker (no staging): compare int/float/double always,
        # and short only when it has addressing expressions of its own
        cmp = ['int', 'float', 'double'] + (['short'] if sets['short'] else [])
        ref = sets['int']
        n += 1
        for T in cmp:
            if T == 'int':
                continue
            d1, d2 = sorted(sets[T] - ref), sorted(ref - sets[T])
            ok = not d1 and not d2
            f = fns[T]
            ctx.ob(rule, '%s:%s' % (fam[T], 'vs-' + fam['int']), ok, f.loc(f.body), 'addresses the codec buffer like %s' % fam['int'] if ok else
                   'addressing differs from sibling %s: only here %s; only in sibling %s' % (fam['int'], d1[:3], d2[:3]), None)
    return n
