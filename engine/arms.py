"""A-TAB: switch / if-chain arm maps: label identifiers -> identifiers referenced in the arm."""


def idents(f, n):
    out = set()
    for x in f.walk(n):
        if x['k'] == 'DeclRefExpr' and x.get('dk') in ('enum', 'global'):
            out.add(x['n'])
        if x.get('m') and x['k'] in ('IntegerLiteral', 'BinaryOperator', 'CStyleCastExpr', 'UnaryOperator', 'CallExpr'):
            out.add(x['m'])
            if x.get('mt'):
                out.add(x['mt'])
    return out


def switch_arms(f, sw):
    """[(label identifier set, body identifier set, first body node)] for a SwitchStmt"""
    arms = []
    body = f.N[sw['body']]
    cur_keys, cur_body, first = None, set(), None

    def flush():
        nonlocal cur_keys, cur_body, first
        if cur_keys is not None:
            arms.append((cur_keys, cur_body, first))
        cur_keys, cur_body, first = None, set(), None

    for st in f.kids(body):
        n = st
        keys = set()
        is_label = False
        while n['k'] in ('CaseStmt', 'DefaultStmt'):
            is_label = True
            if n['k'] == 'CaseStmt':
                keys |= idents(f, n['kids'][0])
                if not idents(f, n['kids'][0]) and 'cv' in n:
                    keys.add(str(n['cv']))
            else:
                keys.add('default')
            n = f.N[n['sub']]
        if is_label:
            # consecutive labels without statements in between share the arm
            if cur_keys is not None and not cur_body and first is None:
                keys |= cur_keys
                cur_keys = None
            flush()
            cur_keys, cur_body, first = keys, set(), n
            if n['k'] != 'BreakStmt':
                cur_body |= idents(f, n)
        elif cur_keys is not None:
            cur_body |= idents(f, st)
    flush()
    return arms


def all_arms(f):
    """arms of every switch plus if-chains: (keys, body idents, node)"""
    out = []
    for n in f.walk():
        if n['k'] == 'SwitchStmt':
            for a in switch_arms(f, n):
                out.append(a + (f.s(n['cond']),))
        elif n['k'] == 'IfStmt':
            out.append((idents(f, n['cond']), idents(f, n['then']), f.N[n['then']], 'if'))
    return out


def switch_arm_stmts(f, sw):
    """[(case values, case identifier names, has_default, [statement nodes])] — arms split at break / next label"""
    out = []
    body = f.N[sw['body']]
    cur = None
    for st in f.kids(body):
        n = st
        vals, names, dflt, lab = [], [], False, False
        while n['k'] in ('CaseStmt', 'DefaultStmt'):
            lab = True
            if n['k'] == 'CaseStmt':
                if 'cv' in n:
                    vals.append(n['cv'])
                names += [x['n'] for x in f.walk(n['kids'][0]) if x['k'] == 'DeclRefExpr']
            else:
                dflt = True
            n = f.N[n['sub']]
        if lab:
            if cur is not None and not cur[3]:
                cur[0] += vals
                cur[1] += names
                cur[2] = cur[2] or dflt
            else:
                cur = [vals, names, dflt, []]
                out.append(cur)
            cur[3].append(n)
        elif cur is not None:
            cur[3].append(st)
        last = n if lab else st
        if cur is not None and (last['k'] in ('BreakStmt', 'ReturnStmt', 'ContinueStmt', 'GotoStmt') or
                                (last['k'] == 'CompoundStmt' and f.kids(last) and f.kids(last)[-1]['k'] in ('BreakStmt', 'ReturnStmt', 'ContinueStmt', 'GotoStmt'))):
            cur = None
    return [tuple(x) for x in out]
