"""sf_seek decision table by partial evaluation: whence x open mode x {offset 0, offset != 0}."""
from .peval import PEval
from .effects import Effects

SET, CUR, END = 0, 1, 2


def seek_table(prog):
    E = prog.enums
    R, W, RW = E['SFM_READ'], E['SFM_WRITE'], E['SFM_RDWR']
    pe = PEval(prog, sticky=('file.mode', '->error'), effects=Effects(prog), max_depth=1)
    f = prog.fn('sf_seek', 'sndfile.c')
    rows = {}
    for base, bn in ((SET, 'SEEK_SET'), (CUR, 'SEEK_CUR'), (END, 'SEEK_END'), (3, '3')):
        for mod, mn in ((0, ''), (R, '|SFM_READ'), (W, '|SFM_WRITE'), (RW, '|SFM_RDWR')):
            for mode, modename in ((R, 'SFM_READ'), (W, 'SFM_WRITE'), (RW, 'SFM_RDWR')):
                for off in (0, 5):
                    env = {'whence': base | mod, 'psf->file.mode': mode, 'offset': off, 'psf->sf.seekable': 1, 'psf->error': 0, 'sndfile': 1,
                           'psf->Magick': E.get('SNDFILE_MAGICK', 0x1234C0DE), 'psf->virtual_io': 1}
                    pe.memo.clear()
                    r = pe.explore(f, env)
                    rows[(bn + mn, modename, off)] = {
                        'rets': sorted(x[1] for x in r.ret_exprs if x[0] == 'sf_seek'),
                        'target': sorted(x[2] for x in r.local_assigns if x[0] == 'sf_seek' and x[1] == 'seek_from_start'),
                        'writes': sorted(x[1] for x in r.root_writes if x[0] == 'sf_private_tag' and x[1] in ('read_current', 'write_current')),
                        'last_op': sorted(x[2] for x in r.store_exprs if x[0] == 'sf_seek' and x[1] == 'psf->last_op'),
                        'errors': sorted(x[2] for x in r.store_exprs if x[0] == 'sf_seek' and x[1] == 'psf->error' and x[2] != '0'),
                        'seek_called': '@slot:sf_private_tag.seek' in r.calls,
                    }
    return f, rows


def oracle(whence, mode, off):
    """documented behaviour (docs/api.md sf_seek): returns dict of expectations"""
    base, _, mod = whence.partition('|')
    eff = mod or mode                        # effective mode: modifier, else open mode
    # incompatible modifier / open mode
    if (mod == 'SFM_WRITE' and mode == 'SFM_READ') or (mod == 'SFM_READ' and mode == 'SFM_WRITE'):
        return {'fail': 'SFE_WRONG_SEEK'}
    if base == '3' or (base == 'SEEK_END' and mod == 'SFM_RDWR') or (base == 'SEEK_CUR' and mod == 'SFM_RDWR'):
        return {'fail': 'SFE_BAD_SEEK'}
    if base == 'SEEK_SET':
        tgt = 'offset'
    elif base == 'SEEK_END':
        tgt = '(psf->sf.frames + offset)'
    else:
        ptr = 'read_current' if eff == 'SFM_READ' else 'write_current'
        if off == 0 and not (mod == '' and mode == 'SFM_RDWR'):
            return {'early': 'psf->' + ptr}
        tgt = '(psf->%s + offset)' % ptr
    writes = {'SFM_READ': ['read_current'], 'SFM_WRITE': ['write_current'], 'SFM_RDWR': ['read_current', 'write_current']}[eff]
    return {'target': tgt, 'writes': writes}
