"""sf_seek decision table by partial evaluation: whence x open mode x {offset 0, offset != 0}."""
from .peval import PEval
from .effects import Effects

SET, CUR, END = 0, 1, 2


def seek_table(prog):
    E = prog.enums
    R, W, RW = E['SFM_READ'], E['SFM_WRITE'], E['SFM_RDWR']
    pe = PEval(prog, sticky=('file.mode', '->error'), effects=Effects(prog), max_depth=2)
    f = prog.fn('sf_seek', 'sndfile.c')
    # sf_seek together with the static helpers of sndfile.c it calls: a part of it that was moved into a helper still is sf_seek
    grp = {'sf_seek'} | {g_.name for c_ in f.calls() for g_ in prog.fns.get(c_.get('callee') or '', []) if g_.static and g_.file == f.file}
    # the variable that takes the position the codec seek reports, and the chain of returns that hands it to the caller of sf_seek
    sites = dispatch_sites(prog, f)
    resvar = None
    if sites:
        gd, cd, _ = sites[-1]
        par = gd.N[gd.parent[cd['id']]]
        while par['k'] in ('ImplicitCastExpr', 'ParenExpr', 'CStyleCastExpr'):
            par = gd.N[gd.parent[par['id']]]
        if par['k'] == 'BinaryOperator' and par.get('op') == '=':
            resvar = gd.s(par['kids'][0])
        elif par['k'] == 'VarDecl':
            resvar = par.get('n')

    tgt0 = f.unwrap(sites[0][2]) if sites else {}
    tname = tgt0.get('n') if tgt0.get('k') == 'DeclRefExpr' else 'seek_from_start'
    seek_table.roles = {'sites': sites, 'resvar': resvar, 'target': tname}

    def ret_dispatch(r):
        if not sites or resvar is None:
            return False
        gd = sites[-1][0]
        if resvar not in [x[1] for x in r.ret_exprs if x[0] == gd.name]:
            return False
        return gd is f or any(x[0] == 'sf_seek' and x[1].startswith(gd.name + '(') for x in r.ret_exprs)
    rows = {}
    for base, bn in ((SET, 'SEEK_SET'), (CUR, 'SEEK_CUR'), (END, 'SEEK_END'), (3, '3')):
        for mod, mn in ((0, ''), (R, '|SFM_READ'), (W, '|SFM_WRITE'), (RW, '|SFM_RDWR')):
            for mode, modename in ((R, 'SFM_READ'), (W, 'SFM_WRITE'), (RW, 'SFM_RDWR')):
                for off in (0, 5):
                    env = {'whence': base | mod, 'psf->file.mode': mode, 'offset': off, 'psf->sf.seekable': 1, 'psf->error': 0, 'sndfile': 1,
                           'psf->Magick': E.get('SNDFILE_MAGICK', 0x1234C0DE), 'psf->virtual_io': 1}
                    pe.memo.clear()
                    r = pe.explore(f, env)
                    rows[(bn + mn, modename, off)] = {
                        'rets': sorted(x[1] for x in r.ret_exprs if x[0] == 'sf_seek'),
                        'target': sorted(x[2] for x in r.local_assigns if x[0] == 'sf_seek' and x[1] == tname),
                        'writes': sorted(x[1] for x in r.root_writes if x[0] == 'sf_private_tag' and x[1] in ('read_current', 'write_current')),
                        'last_op': sorted(x[2] for x in r.store_exprs if x[0] in grp and x[1] == 'psf->last_op'),
                        'errors': sorted(x[2] for x in r.store_exprs if x[0] in grp and x[1] == 'psf->error' and x[2] != '0'),
                        'seek_called': '@slot:sf_private_tag.seek' in r.calls,
                        'ret_dispatch': ret_dispatch(r),
                    }
    return f, rows


def oracle(whence, mode, off):
    """documented behaviour (docs/api.md sf_seek): returns dict of expectations"""
    base, _, mod = whence.partition('|')
    eff = mod or mode                        # effective mode: modifier, else open mode
    # incompatible modifier / open mode
    if (mod == 'SFM_WRITE' and mode == 'SFM_READ') or (mod == 'SFM_READ' and mode == 'SFM_WRITE'):
        return {'fail': 'SFE_WRONG_SEEK'}
    if base == '3' or (base == 'SEEK_END' and mod == 'SFM_RDWR') or (base == 'SEEK_CUR' and mod == 'SFM_RDWR'):
        return {'fail': 'SFE_BAD_SEEK'}
    if base == 'SEEK_SET':
        tgt = 'offset'
    elif base == 'SEEK_END':
        tgt = '(psf->sf.frames + offset)'
    else:
        ptr = 'read_current' if eff == 'SFM_READ' else 'write_current'
        if off == 0 and not (mod == '' and mode == 'SFM_RDWR'):
            return {'early': 'psf->' + ptr}
        tgt = '(psf->%s + offset)' % ptr
    writes = {'SFM_READ': ['read_current'], 'SFM_WRITE': ['write_current'], 'SFM_RDWR': ['read_current', 'write_current']}[eff]
    return {'target': tgt, 'writes': writes}


def dispatch_sites(prog, f):
    """Where sf_seek hands over to the codec: [(function, call node, node of the frame-position argument)], outermost first.  The indirect call through the
    `seek` slot may sit in sf_seek itself or in a static helper of the same file that sf_seek calls (a part of sf_seek that was moved still is sf_seek);
    in the second case the first site is the call of the helper, with the argument that arrives at the position parameter."""
    def slot_call(g):
        for c in g.calls():
            s_ = prog.indirect_callee_slot(g, c)
            if s_ and s_[1] == 'seek':
                return c
        return None
    c = slot_call(f)
    if c is not None:
        a = f.args(c)
        return [(f, c, a[2])] if len(a) >= 3 else []
    for hc in f.calls():
        for g in prog.fns.get(hc.get('callee') or '', []):
            if not (g.static and g.file == f.file):
                continue
            c = slot_call(g)
            if c is None or len(g.args(c)) < 3:
                continue
            tgt = g.unwrap(g.args(c)[2])
            pos = [i for i, p in enumerate(g.params) if tgt.get('k') == 'DeclRefExpr' and p['n'] == tgt.get('n')]
            if not pos or pos[0] >= len(f.args(hc)):
                continue
            return [(f, hc, f.args(hc)[pos[0]]), (g, c, g.args(c)[2])]
    return []


def lenient_path(prog, g, call, tgt):
    """A path from the entry of g to `call` on which neither `tgt > psf->sf.frames` was found false nor the open mode of the handle (psf->file.mode)
    was found to be a writing one: returns the witness (list of blocks) or None.  Read off the CFG, so `a || (b && c)`, nested ifs and else-chains
    are all the same thing."""
    E = prog.enums
    R = E['SFM_READ']
    cfg = g.cfg
    ts = g.s(g.unwrap(tgt))

    def node(x):
        return g.N[x] if isinstance(x, int) else x

    def good(b, si):
        blk = cfg.blocks[b]
        if 'cond' not in blk or len(blk['succs']) != 2 or blk.get('tk') == 'SwitchStmt':
            return False
        cn = g.unwrap(node(blk['cond']))
        if cn.get('op') in ('&&', '||') and blk['elems']:
            cn = g.unwrap(node(blk['elems'][-1]))
        pol = (si == 0)
        while cn.get('k') == 'UnaryOperator' and cn.get('op') == '!':
            cn = g.unwrap(node(cn['kids'][0]))
            pol = not pol
        if cn.get('k') != 'BinaryOperator':
            return False
        l_, r_ = g.unwrap(node(cn['kids'][0])), g.unwrap(node(cn['kids'][1]))
        ls, rs, op = g.s(l_), g.s(r_), cn.get('op')
        if op in ('<', '<=', '>', '>='):
            if rs == ts and ls == 'psf->sf.frames':
                ls, rs, op = rs, ls, {'<': '>', '<=': '>=', '>': '<', '>=': '<='}[op]
            if ls == ts and rs == 'psf->sf.frames':
                # the edge on which the target is known not to lie beyond the last frame
                return (op in ('>', '>=') and not pol) or (op in ('<', '<=') and pol)
            return False
        if op in ('==', '!='):
            if rs == 'psf->file.mode':
                l_, r_, ls, rs = r_, l_, rs, ls
            if ls == 'psf->file.mode' and r_.get('v') is not None:
                eq = (op == '==') == pol            # on this edge: mode == v (eq) or mode != v
                return (eq and r_['v'] != R) or (not eq and r_['v'] == R)
        return False

    pt = cfg.point(call)
    if pt is None:
        return None
    if pt[0] == cfg.entry:
        return [cfg.entry]
    return cfg.path_avoiding((cfg.entry, -1), {pt[0]}, set(), start_inclusive=True, edge_ok=lambda b, si: not good(b, si))
