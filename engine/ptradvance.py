"""PTR-ADVANCE / READ-STORES over the functions installed in the eight typed read / write slots.

PTR-ADVANCE : a slot function that works its request off in pieces (a loop whose body decrements the `len` parameter) must
              address the caller buffer relative to what was already done: every use of the buffer parameter inside that
              loop is `ptr + T`, `ptr [T + k]`, `&ptr [T]` with T a variable the loop advances, or the parameter itself
              is advanced in the loop.  A bare `ptr` inside the loop converts / fills the first piece again and again.
READ-STORES : a function installed in a read slot uses its buffer parameter at all (a stub that returns `len` without
              storing anything hands uninitialised memory to the caller as samples).
"""
from .util import assigned_lvalues

SLOTS = ('read_short', 'read_int', 'read_float', 'read_double', 'write_short', 'write_int', 'write_float', 'write_double')


def ptr_rules(ctx, prog, r_adv='PTR-ADVANCE', r_store='READ-STORES'):
    seen = set()
    n_adv = n_st = 0
    for slot in SLOTS:
        for f in sorted(prog.slot_fns(slot), key=lambda f: (f.file, f.line)):
            if f.name in seen or len(f.params) < 3:
                continue
            seen.add(f.name)
            P, L = f.params[1]['n'], f.params[2]['n']
            uses = [n for n in f.walk() if n['k'] == 'DeclRefExpr' and n.get('n') == P]
            if slot.startswith('read'):
                n_st += 1
                ctx.ob(r_store, f.name, bool(uses), f.loc(f.body), 'buffer parameter `%s` is %s' % (P, 'used' if uses else
                       'never used: the function returns a count without storing a single sample — the caller receives whatever was in its buffer'), None)
            for lp in [n for n in f.walk() if n['k'] in ('WhileStmt', 'ForStmt', 'DoStmt') and n.get('body') is not None]:
                body = lp['body']
                if not any(lv == L for lv, a, r in assigned_lvalues(f, body)):
                    continue
                adv = {lv for lv, a, r in assigned_lvalues(f, body) if (a['k'] == 'CompoundAssignOperator' and a.get('op') == '+=') or (a['k'] == 'UnaryOperator' and a.get('op') in ('++', 'post++'))}
                if P in adv:
                    n_adv += 1
                    ctx.ob(r_adv, '%s:loop@%s' % (f.name, 'advanced'), True, f.loc(lp), 'the buffer parameter itself is advanced in the chunk loop', None)
                    continue
                bad = []
                inner = [u for u in uses if f.within(u, body)]
                for u in inner:
                    ok = False
                    cur = u
                    par = f.N[f.parent[cur['id']]] if cur['id'] in f.parent else None
                    while par is not None and par['k'] in ('ImplicitCastExpr', 'ParenExpr', 'CStyleCastExpr'):
                        cur = par
                        par = f.N[f.parent[cur['id']]] if cur['id'] in f.parent else None
                    if par is not None and par['k'] in ('ArraySubscriptExpr', 'BinaryOperator'):
                        other = [k for k in par['kids'] if k != cur['id']]
                        for o in other:
                            names = {x['n'] for x in f.walk(f.N[o]) if x['k'] == 'DeclRefExpr'}
                            if names & adv:
                                ok = True
                    if not ok:
                        bad.append(u)
                n_adv += 1
                ctx.ob(r_adv, '%s:loop#%d' % (f.name, lp['l'] - f.line), not bad, f.loc(bad[0]) if bad else f.loc(lp), 'chunk loop (decrements `%s`): %d use(s) of `%s`, %s' % (L, len(inner), P, 'all relative to the running offset' if not bad else
                       'one is the bare parameter: every piece after the first is converted from / stored to the START of the caller buffer again'), None)
    # SLOT-RET: the count a slot function returns is passed on to the caller as the number of items and added to the position
    n_ret = 0
    for name in sorted(seen):
        for f in prog.fns.get(name, []):
            neg = []
            for r in f.cfg.returns():
                if r.get('kids'):
                    v = f.unwrap(f.N[r['kids'][0]]).get('v')
                    if v is not None and v < 0:
                        neg.append(r)
            n_ret += 1
            ctx.ob('SLOT-RET', name, not neg, f.loc(neg[0]) if neg else f.loc(f.body), 'no negative constant is returned' if not neg else
                   'returns a negative constant: the public wrapper hands it to the caller as an item count and moves the position backwards', None)
    return n_adv, n_st
