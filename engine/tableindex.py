"""TABLE-INDEX: every subscript of a file-scope table with a non-constant index is inside the table.

For each ArraySubscriptExpr whose base is a file-scope array of known size N and whose index is not a literal, A-PENT must
prove 0 <= index < N at that point (guards, clamps, masks, the range of the index type, return ranges of clamp helpers).
Subscripts that need an argument about array contents or loop structure are listed in tables/table_index.tsv, keyed by
function and table, one written argument each; the vendored codec directories (GSM610, G72x, ALAC) are reported as notes.
"""
import os
import re
from .bounds import Bounds
from .facts import VERIF

VENDORED = ('/GSM610/', '/G72x/', '/ALAC/')


def load_frozen():
    fz = {}
    p = os.path.join(VERIF, 'tables', 'table_index.tsv')
    for l in open(p):
        if l.strip() and not l.startswith('#'):
            k, v = l.rstrip('\n').split('\t', 1)
            fz[k] = v
    return fz


def table_index(ctx, prog, eff, rule='TABLE-INDEX', files=None):
    fz = load_frozen()
    used = set()
    n = 0
    notes = 0
    for f in sorted(prog.lib_fns(), key=lambda f: (f.file, f.line)):
        if files and not any(f.file.endswith(x) for x in files):
            continue
        bd = None
        k = {}
        for x in f.walk():
            if x['k'] != 'ArraySubscriptExpr':
                continue
            base = f.unwrap(f.N[x['kids'][0]])
            idx = f.unwrap(f.N[x['kids'][1]])
            if base.get('k') != 'DeclRefExpr' or base.get('dk') != 'global':
                continue
            m = re.search(r'\[(\d+)\]', base.get('t') or '')
            if not m or idx.get('v') is not None:
                continue
            N = int(m.group(1))
            if any(v in f.file for v in VENDORED):
                notes += 1
                continue
            pt = f.cfg.point(x)
            if pt is None:
                continue
            n += 1
            k[base['n']] = k.get(base['n'], 0) + 1
            key = '%s:%s#%d' % (f.name, base['n'], k[base['n']])
            bd = bd or Bounds(prog, f, eff)
            b = bd.ev_at(idx, pt)
            ok = (not b.bot) and b.lo is not None and b.lo >= 0 and b.hi is not None and b.hi < N
            if ok:
                ctx.ob(rule, key, True, f.loc(x), '%s: index in [%d, %d] of %d entries' % (f.s(x)[:50], b.lo, b.hi, N), None)
                continue
            fk = '%s:%s' % (f.name, base['n'])
            if fk in fz:
                used.add(fk)
                ctx.ob(rule, key, True, f.loc(x), 'frozen (tables/table_index.tsv): %s' % fz[fk], None)
                continue
            ctx.ob(rule, key, False, f.loc(x), '`%s`: the index is not proved to lie in [0, %d) (A-PENT: %s): a value outside reads beyond the table%s' % (
                f.s(x)[:60], N, str(b)[:60], ' - the index is computed from a caller- or file-supplied value' if True else ''), None)
    for fk in sorted(set(fz) - used):
        if files is None:
            # an exception that nothing uses any more hides nothing: the subscript is gone (the table is walked by pointer now) or is proved; recorded, not judged
            ctx.notes.append('tables/table_index.tsv lists %s, which no longer needs (or has) an exception' % fk)
    return n, notes
