"""PRIM-WALK: bounded pointer walks with look-ahead inside the repo's own copy primitives.

The guarded-access analysis (bufacc.py) treats a few repo-defined copy helpers as primitives with a length contract
(`psf_strlcpy_crlf (dest, src, destmax, srcmax)` reads at most srcmax bytes from src, writes at most destmax to dest).
This rule checks that contract inside the helper: for a pointer parameter P with a limit local END = P + e (defined
once, before P moves), a forward dataflow over the CFG tracks D = an upper bound of (P - END) in elements:

    entry            D <= 0              (e >= 0: size_t parameter, or a constant checked at every call site)
    true edge of  P + j < END            D <= -j - 1
    P++ / P += c                         D += 1 / c          any other assignment of P: D unknown
    join                                 max

and every access P[k], *(P + k), *P, *P++ needs  D + k <= slack - 1  where slack = N - e is the part of the N-byte
object that lies beyond END (0 for `srcend = src + srcmax`, 2 for `destend = dest + destmax - 2`).
"""
from .bufacc import lin

INF = 10 ** 9


def _is_ref(f, n, name):
    n = f.unwrap(n)
    return n.get('k') == 'DeclRefExpr' and n.get('n') == name


def find_walks(f):
    """[(P, END, size param, slack)] for pointer params P with a limit local END = P + <size> [+ c]"""
    out = []
    pnames = [q['n'] for q in f.params if q['t'].rstrip().endswith('*')]
    decls = {}
    for n in f.walk():
        if n['k'] == 'DeclStmt':
            for d in n.get('decls', []):
                if d.get('init') is not None:
                    decls.setdefault(d['n'], []).append(f.N[d['init']])
    from .util import assigned_lvalues
    assigned = {}
    for lv, a, r in assigned_lvalues(f):
        assigned.setdefault(lv, []).append(a)
    for end, inits in decls.items():
        if len(inits) != 1 or end in assigned:
            continue
        e = f.unwrap(inits[0])
        L = None
        try:
            L = lin(f, e)
        except Exception:
            L = None
        if not L:
            continue
        ps = [p for p in pnames if L.get(p) == 1]
        if len(ps) != 1:
            continue
        P = ps[0]
        rest = {k: v for k, v in L.items() if k != P and v != 0}
        sizes = [k for k in rest if k != '']
        if len(sizes) != 1 or rest[sizes[0]] != 1 or sizes[0] not in [q['n'] for q in f.params]:
            continue
        c = rest.get('', 0)
        if c > 0:
            continue
        out.append((P, end, sizes[0], -c))
    return out


def check_walk(ctx, rule, prog, f):
    walks = find_walks(f)
    ctx.require(walks, '%s: no bounded pointer walk (P, END = P + size) found' % f.name)
    cfg = f.cfg
    n_acc = 0
    for (P, END, size, slack) in walks:
        # ---- entry assumption e >= 0: size - slack >= 0 at every call site (or slack == 0 with an unsigned size parameter)
        pi = [i for i, q in enumerate(f.params) if q['n'] == size][0]
        unsigned = any(t in f.params[pi]['t'] for t in ('size_t', 'unsigned'))
        if slack == 0:
            ctx.ob(rule, '%s:%s:entry' % (f.name, P), unsigned, f.loc(f.body), '%s = %s + %s with %s of type %s: the limit is not before the start' % (END, P, size, size, f.params[pi]['t']), None)
        else:
            bad = []
            sites = 0
            for g in prog.lib_fns():
                for c in g.calls(f.name):
                    sites += 1
                    v = g.unwrap(g.args(c)[pi]).get('v')
                    if v is None or v < slack:
                        bad.append('%s (%s)' % (g.loc(c), g.s(g.args(c)[pi])[:40]))
            ctx.ob(rule, '%s:%s:entry' % (f.name, P), sites > 0 and not bad, f.loc(f.body), '%s = %s + %s - %d: every one of the %d call sites passes a constant %s >= %d' % (END, P, size, slack, sites, size, slack) if not bad else
                   'call sites with %s not a constant >= %d: %s' % (size, slack, bad[:3]), None)

        def guard(cn, pol):
            """bound on D implied by condition node cn being `pol`"""
            cn = f.unwrap(cn)
            if cn.get('k') != 'BinaryOperator' or cn.get('op') not in ('<', '>'):
                return None
            a, b = f.N[cn['kids'][0]], f.N[cn['kids'][1]]
            if cn['op'] == '>':
                a, b = b, a
            if not pol or not _is_ref(f, b, END):
                return None
            try:
                L = lin(f, f.unwrap(a))
            except Exception:
                return None
            if L.get(P) != 1 or any(k not in (P, '') and v for k, v in L.items()):
                return None
            return -L.get('', 0) - 1

        # ---- forward dataflow
        state_in = {cfg.entry: 0}
        work = [cfg.entry]
        reports = {}
        rounds = 0
        while work and rounds < 2000:
            rounds += 1
            b = work.pop()
            D = state_in[b]
            blk = cfg.blocks[b]
            for top in blk['elems']:
                sub_nodes = list(f.walk(f.N[top]))
                # accesses are evaluated with the value P has at the start of the full expression (`*P++` uses the old value)
                for n in sub_nodes:
                    k = n['k']
                    acc = None
                    if k == 'ArraySubscriptExpr' and _is_ref(f, f.N[n['kids'][0]], P):
                        iv = f.unwrap(f.N[n['kids'][1]]).get('v')
                        acc = iv if iv is not None else INF
                    elif k == 'UnaryOperator' and n.get('op') == '*':
                        sub = f.unwrap(f.N[n['kids'][0]])
                        if _is_ref(f, sub, P):
                            acc = 0
                        elif sub.get('k') == 'UnaryOperator' and sub.get('op') == 'post++' and _is_ref(f, f.N[sub['kids'][0]], P):
                            acc = 0
                        elif sub.get('k') == 'UnaryOperator' and sub.get('op') == '++' and _is_ref(f, f.N[sub['kids'][0]], P):
                            acc = 1
                        elif sub.get('k') == 'BinaryOperator' and sub.get('op') == '+':
                            try:
                                L = lin(f, sub)
                                if L.get(P) == 1 and not any(kk not in (P, '') and v for kk, v in L.items()):
                                    acc = L.get('', 0)
                            except Exception:
                                pass
                    if acc is not None:
                        worst = D + acc if D < INF and acc < INF else INF
                        prev = reports.get(n['id'], (-INF, None))
                        if worst > prev[0]:
                            reports[n['id']] = (worst, n)
                for n in sub_nodes:
                    k = n['k']
                    if k == 'UnaryOperator' and n.get('op') in ('++', 'post++') and _is_ref(f, f.N[n['kids'][0]], P):
                        D = min(D + 1, INF)
                    elif k == 'UnaryOperator' and n.get('op') in ('--', 'post--') and _is_ref(f, f.N[n['kids'][0]], P):
                        D = INF
                    elif k in ('BinaryOperator', 'CompoundAssignOperator') and n.get('op') in ('=', '+=', '-=', '*=', '/=') and _is_ref(f, f.N[n['kids'][0]], P):
                        v = f.unwrap(f.N[n['kids'][1]]).get('v')
                        if n['op'] == '+=' and v is not None and v >= 0:
                            D = min(D + v, INF)
                        else:
                            D = INF
            succs = blk.get('succs', [])
            for si, s in enumerate(succs):
                if s is None:
                    continue
                Ds = D
                if 'cond' in blk and len(succs) == 2 and blk.get('tk') != 'SwitchStmt':
                    cn = f.N[blk['cond']]
                    if f.unwrap(cn).get('op') in ('&&', '||') and blk['elems']:
                        cn = f.N[blk['elems'][-1]]        # the branch of a short-circuit operator decides on its last evaluated operand
                    g = guard(cn, si == 0)
                    if g is not None:
                        Ds = min(Ds, g)
                if Ds > 64:
                    Ds = INF
                if s not in state_in or Ds > state_in[s]:
                    state_in[s] = Ds
                    work.append(s)
        for eid, (worst, n) in sorted(reports.items()):
            n_acc += 1
            ok = worst <= slack - 1
            ctx.ob(rule, '%s:%s:%s' % (f.name, P, f.s(n)[:30]) + '#%d' % n_acc, ok, f.loc(n),
                   'access %s: %s' % (f.s(n)[:40], ('at most %d element(s) before the end of the %s-byte object' % (slack - 1 - worst + 1, size)) if ok else
                                      ('can be %s element(s) past `%s` (slack %d): reads/writes beyond the %s bytes the caller allowed' % (('unboundedly many' if worst >= INF else worst - slack + 1), END, slack, size))), None)
    ctx.require(n_acc >= 4, '%s: only %d accesses through walked pointers' % (f.name, n_acc))
