"""DECODE-STATE: what a block decoder carries from one block to the next is re-established by the codec's seek function.

For every block decoder D (functions in a private `decode_block` slot, and the frozen block readers that are called
from a seek function) the *carried* fields are those fields of the codec private struct that D both
  - reads before writing on some path from its entry (upward-exposed read; array fields are treated as one cell:
    the first access decides), and
  - writes somewhere.
Such a field makes the decoded block depend on what was decoded before.  That is legitimate for the block counter
(and for predictor state of stream codecs), but then every seek function of the same codec that positions the stream
and calls D must assign the field before the call — otherwise the samples delivered after a seek depend on the seek
history, not on the frame position."""
from .util import assigned_lvalues


def _private_param(f):
    for q in f.params:
        t = q['t']
        if t.rstrip().endswith('*') and 'SF_PRIVATE' not in t and 'sf_private_tag' not in t and ('PRIVATE' in t or 'private' in t.lower()):
            return q['n']
    return None


def carried_fields(f, pv):
    """fields of *pv that f reads before writing on some path and also writes"""
    cfg = f.cfg
    written_somewhere = set()
    events = {}
    bufpos = {}      # buffer field -> [first read (line, col), first write (line, col)]
    buffields = set()
    # local pointers into a buffer field: `sampledata = pv->samples + chan` -- accesses through them are accesses of the field
    alias = {}
    from .util import local_defs
    for name, ds in local_defs(f).items():
        flds = set()
        for d in ds:
            if d is None:
                continue
            for x in f.walk(f.unwrap(d)):
                if x['k'] == 'MemberExpr' and x.get('arrow') and f.unwrap(f.N[x['kids'][0]]).get('n') == pv and x.get('t', '').rstrip().endswith(('*', ']')):
                    flds.add(x['n'])
        if len(flds) == 1:
            alias[name] = flds.pop()

    def classify(cur):
        """(is_read, is_write) of the lvalue expression node `cur` from its context"""
        par = f.N[f.parent[cur['id']]] if cur['id'] in f.parent else None
        while par is not None and par['k'] in ('ParenExpr', 'ImplicitCastExpr', 'CStyleCastExpr'):
            cur = par
            par = f.N[f.parent[cur['id']]] if cur['id'] in f.parent else None
        if par is not None and par['k'] == 'BinaryOperator' and par.get('op') == '=' and par['kids'][0] == cur['id']:
            return False, True
        if par is not None and (par['k'] == 'CompoundAssignOperator' or (par['k'] == 'UnaryOperator' and par.get('op') in ('++', '--', 'post++', 'post--'))) and par['kids'][0] == cur['id']:
            return True, True
        if par is not None and par['k'] == 'UnaryOperator' and par.get('op') == '&':
            return False, False
        return True, False

    for b, blk in cfg.blocks.items():
        ev = []
        for top in blk['elems']:
            node = f.N[top]
            reads, writes = [], []
            for x in f.walk(node):
                fld = None
                cur = None
                if x['k'] == 'MemberExpr' and x.get('arrow') and f.unwrap(f.N[x['kids'][0]]).get('n') == pv:
                    fld = x['n']
                    isbuf = x.get('t', '').rstrip().endswith(('*', ']'))
                    par = f.N[f.parent[x['id']]] if x['id'] in f.parent else None
                    while par is not None and par['k'] in ('ParenExpr', 'ImplicitCastExpr', 'CStyleCastExpr'):
                        x_ = par
                        par = f.N[f.parent[x_['id']]] if x_['id'] in f.parent else None
                    if isbuf:
                        if par is not None and par['k'] == 'ArraySubscriptExpr':
                            cur = par
                        elif par is not None and par['k'] == 'UnaryOperator' and par.get('op') == '*':
                            cur = par
                        else:
                            continue        # address computation / passed on: not an access of the contents
                    else:
                        cur = x
                elif x['k'] == 'ArraySubscriptExpr':
                    base = f.unwrap(f.N[x['kids'][0]])
                    if base['k'] == 'DeclRefExpr' and base['n'] in alias:
                        fld, cur = alias[base['n']], x
                if fld is None or cur is None:
                    continue
                rd, wr = classify(cur)
                if cur is not x or x['k'] == 'ArraySubscriptExpr':
                    buffields.add(fld)
                    pos = (cur.get('l', 0), cur.get('c', 0))
                    e_ = bufpos.setdefault(fld, [None, None])
                    if rd and (e_[0] is None or pos < e_[0]):
                        e_[0] = pos
                    if wr and (e_[1] is None or pos < e_[1]):
                        e_[1] = pos
                if rd:
                    reads.append(fld)
                if wr:
                    writes.append(fld)
            ev.append((reads, writes))
            written_somewhere |= set(writes)
        events[b] = ev
    # forward must-written analysis
    IN = {cfg.entry: frozenset()}
    work = [cfg.entry]
    exposed = set()
    ALL = None
    while work:
        b = work.pop()
        w = set(IN[b])
        for reads, writes in events[b]:
            for r in reads:
                if r not in w:
                    exposed.add(r)
            w |= set(writes)
        for s in cfg.blocks[b]['succs']:
            if s is None:
                continue
            new = frozenset(w) if s not in IN else IN[s] & frozenset(w)
            if s not in IN or new != IN[s]:
                IN[s] = new
                work.append(s)
    # buffer fields are one abstract cell and are typically filled in a loop (which the must-analysis cannot see through): for them the
    # first access in source order decides -- exposed only if a read textually precedes every write
    for fld in list(exposed):
        if fld in buffields:
            r0, w0 = bufpos.get(fld, [None, None])
            if r0 is None or (w0 is not None and w0 < r0):
                exposed.discard(fld)
    return sorted(exposed & written_somewhere)


def decode_state(ctx, prog, rule='DECODE-STATE'):
    n = 0
    seekers = {}
    for s in prog.slot_fns('seek'):
        seekers.setdefault(s.file, []).append(s)
    decoders = []
    for f in prog.lib_fns():
        if f.file not in seekers:
            continue
        pv = _private_param(f)
        if pv is None:
            continue
        # called from a seek function of the same file, directly or through a private function pointer slot
        called = False
        for s in seekers[f.file]:
            for c in s.calls():
                if c.get('callee') == f.name:
                    called = True
                elif not c.get('callee'):
                    sl = prog.indirect_callee_slot(s, c)
                    if sl and f.name in prog.slot(sl[1], sl[0]):
                        called = True
        if called and not any(w in f.name for w in ('write', 'encode', 'reset', 'init')):
            decoders.append((f, pv))
    for f, pv in sorted(decoders, key=lambda x: (x[0].file, x[0].line)):
        car = carried_fields(f, pv)
        for s in seekers[f.file]:
            calls_it = any(c.get('callee') == f.name for c in s.calls()) or any((not c.get('callee')) and (prog.indirect_callee_slot(s, c) or (None, None))[1] and f.name in prog.slot(prog.indirect_callee_slot(s, c)[1], prog.indirect_callee_slot(s, c)[0]) for c in s.calls())
            if not calls_it:
                continue
            assigned = {lv.split('->')[-1].split('[')[0].split('.')[0] for lv, a, r in assigned_lvalues(s) if '->' in lv}
            # a reset helper of the same file, called before the decoder, re-establishes state on the seek function's behalf (dwvw_read_reset)
            dec_calls = [c for c in s.calls() if c.get('callee') == f.name]
            first_dec = min(((c['l'], c['c']) for c in dec_calls), default=(1 << 30, 0))
            for c in s.calls():
                g_ = prog.fns.get(c.get('callee') or '', [])
                if len(g_) == 1 and g_[0].file == s.file and g_[0].name != f.name and (c['l'], c['c']) < first_dec:
                    gp = _private_param(g_[0])
                    if gp:
                        assigned |= {lv.split('->')[-1].split('[')[0].split('.')[0] for lv, a, r in assigned_lvalues(g_[0]) if lv.startswith(gp + '->')}
                        if any(cc.get('callee') == 'memset' and g_[0].s(g_[0].unwrap(g_[0].args(cc)[0])) == gp for cc in g_[0].calls()):
                            assigned |= set(car)
            for fld in car:
                n += 1
                ok = fld in assigned
                ctx.ob(rule, '%s/%s:%s' % (s.name, f.name, fld), ok, s.loc(s.body), 'decoder %s carries `%s` from block to block; %s %s' % (f.name, fld, s.name, 're-establishes it before decoding at the new position' if ok else
                       'does NOT assign it: the block decoded after a seek depends on what was decoded before the seek'), None)
    return n
