"""FD-VALID: descriptor validity is `>= 0`.  0 is a valid descriptor (a process whose stdin is closed gets it from open ()).
Every comparison of a descriptor-valued expression (PSF_FILE.filedes / savedes, the int `fd` parameters of file_io.c and
sndfile.c, and assignments of those inside a condition) with a constant is one of
    x < 0      x >= 0      x == -K      x != -K        (K > 0: -1 or a negated SFE_* code)
A test `x <= 0` / `x > 0` / `x == 0` treats descriptor 0 as invalid: psf_close_fd would not close it (leak), psf_file_valid
would reject an open file.  Comparisons between two descriptors are not constrained."""

CMP = {'<', '<=', '>', '>=', '==', '!='}
EXC = {('psf_open_rsrc', '>', 0): 'already-open shortcut on the resource-fork descriptor, which is only ever opened by path AFTER the data file of the same handle was opened by path (open () hands out the lowest free descriptor, so the fork gets >= 1; sf_open_fd / sf_open_virtual handles have no path and no fork)'}


def _isfd(f, x):
    x = f.unwrap(x)
    if x['k'] == 'MemberExpr' and x.get('n') in ('filedes', 'savedes'):
        return True
    if x['k'] == 'DeclRefExpr' and x.get('n') in ('fd', 'filedes') and x.get('t') == 'int':
        return True
    if x['k'] == 'BinaryOperator' and x.get('op') == '=':
        return _isfd(f, f.N[x['kids'][0]])
    return False


def fd_valid(ctx, prog, rule='FD-VALID', minimum=6):
    n = 0
    for f in sorted(prog.lib_fns(), key=lambda f: (f.file, f.line)):
        cnt = 0
        for c in f.walk():
            if c['k'] != 'BinaryOperator' or c.get('op') not in CMP:
                continue
            a, b = f.N[c['kids'][0]], f.N[c['kids'][1]]
            op = c['op']
            if _isfd(f, a) and _isfd(f, b):
                continue
            if _isfd(f, b) and not _isfd(f, a):
                a, b = b, a
                op = {'<': '>', '>': '<', '<=': '>=', '>=': '<='}.get(op, op)
            if not _isfd(f, a):
                continue
            v = f.unwrap(b).get('v')
            if v is None:
                continue
            n += 1
            cnt += 1
            ok = (op in ('<', '>=') and v == 0) or (op in ('==', '!=') and v < 0)
            key = '%s:%s#%d' % (f.name, f.s(c)[:50], cnt)
            if not ok and (f.name, op, v) in EXC:
                callers = sorted({g.name for g in prog.lib_fns() for cc in g.calls(f.name)})
                good = set(callers) <= {'sd2_open', 'try_resource_fork'} and bool(callers)
                ctx.ob(rule, key, good, f.loc(c), 'frozen exception (%s): callers %s' % (EXC[(f.name, op, v)], callers), None)
                continue
            ctx.ob(rule, key, ok, f.loc(c), 'descriptor test `%s`%s' % (f.s(c)[:60], '' if ok else ': treats descriptor 0 as invalid (0 is what open () returns when stdin is closed) — the descriptor is never closed / the file is rejected'), None)
    ctx.require(n >= minimum, 'only %d descriptor validity tests found' % n)

def state_pair(ctx, prog):
    ctx.rule('STATE-PAIR', 'psf_use_rsrc (psf, SF_TRUE) swaps the resource-fork descriptor into file.filedes (the data descriptor is parked in savedes); every path from such a call to the exit of the '
             'function passes psf_use_rsrc (psf, SF_FALSE) — a return in between leaves the descriptors swapped: psf_close then closes the fork twice and never the data file', floor=3)
    npair = 0
    for f in sorted(prog.lib_fns(), key=lambda f: (f.file, f.line)):
        on = [c for c in f.calls('psf_use_rsrc') if f.unwrap(f.args(c)[1]).get('v') == 1]
        off = [c for c in f.calls('psf_use_rsrc') if f.unwrap(f.args(c)[1]).get('v') == 0]
        for k, c in enumerate(on):
            npair += 1
            ok, w = f.cfg.must_pass(c, off) if off else (False, None)
            ctx.ob('STATE-PAIR', '%s#%d' % (f.name, k + 1), ok, f.loc(c), 'resource-fork descriptor %s' % ('is switched back on every path to the exit' if ok else
                   'is NOT switched back on a path to the exit (lines %s)' % (f.cfg.block_lines(w) if w else '?')), None)
    ctx.require(npair >= 3, 'only %d psf_use_rsrc (psf, SF_TRUE) calls found' % npair)

