"""PTR-SCALE: an offset used both in pointer arithmetic and in a byte count means the same thing in both places.

For memset / memcpy / memmove / psf_fread / psf_fwrite (element size 1) / read / write whose buffer argument is P + K with
P a pointer to elements of more than one byte, the byte length must not be of the form (N - K): K advances the pointer by
K * sizeof (*P) bytes but shortens the length by K bytes only, so the call runs (sizeof (*P) - 1) * K bytes past the end
of what (N) describes (the classic zero-fill-the-tail-after-a-short-read slip).  A length that scales the difference
(`(N - K) * sizeof (*P)`) or a byte pointer (`(char *) P + K`) is fine.
"""
import re

CALLS = {'memset': (0, 2, None), 'memcpy': (0, 2, None), 'memmove': (0, 2, None), 'psf_fread': (0, 2, 1), 'psf_fwrite': (0, 2, 1), 'fread': (0, 2, 1), 'fwrite': (0, 2, 1)}


def _pointee_size(t):
    t = (t or '').replace('const ', '').strip()
    m = re.match(r'^(unsigned char|signed char|char|uint8_t|int8_t|void)\s*\*$', t)
    if m:
        return 1
    m = re.match(r'^(short|unsigned short|int16_t|uint16_t)\s*\*$', t)
    if m:
        return 2
    m = re.match(r'^(int|unsigned int|float|int32_t|uint32_t)\s*\*$', t)
    if m:
        return 4
    m = re.match(r'^(double|long|unsigned long|long long|int64_t|uint64_t|sf_count_t)\s*\*$', t)
    if m:
        return 8
    return None


def ptr_scale(ctx, prog, rule='PTR-SCALE'):
    n = 0
    for f in sorted(prog.lib_fns(), key=lambda f: (f.file, f.line)):
        k = 0
        for c in f.calls():
            spec = CALLS.get(c.get('callee'))
            if not spec:
                continue
            args = f.args(c)
            if len(args) <= spec[1]:
                continue
            if spec[2] is not None and f.unwrap(args[1]).get('v') != 1:
                continue
            for di in ((0, 1) if c['callee'] in ('memcpy', 'memmove') else (0,)):
                d = args[di] if isinstance(args[di], dict) else f.N[args[di]]
                # strip value-preserving wrappers but stop at a cast to a byte pointer
                u = d
                while u.get('k') in ('ImplicitCastExpr', 'ParenExpr') and u.get('kids'):
                    u = f.N[u['kids'][0]]
                if u.get('k') != 'BinaryOperator' or u.get('op') != '+':
                    continue
                P, K = f.N[u['kids'][0]], f.N[u['kids'][1]]
                s = _pointee_size(P.get('t'))
                if s is None or s == 1:
                    continue
                n += 1
                k += 1
                ln = f.unwrap(args[spec[1]])
                ks = f.s(f.unwrap(K))
                bad = ln.get('k') == 'BinaryOperator' and ln.get('op') == '-' and f.s(f.unwrap(f.N[ln['kids'][1]])) == ks
                ctx.ob(rule, '%s:%s#%d' % (f.name, c['callee'], k), not bad, f.loc(c), '%s (%s, .., %s): the pointer steps %d-byte elements%s' % (c['callee'], f.s(u)[:40], f.s(ln)[:40], s,
                       '' if not bad else '; `%s` moves the start by %d * %s bytes but the length only drops by %s bytes: the call runs %d * %s bytes past the end' % (ks, s, ks, ks, s - 1, ks)), None)
    return n
