"""SHIFT-RANGE: a shift by a variable amount stays inside the width of the shifted operand (after integer promotion).

`a << b` / `a >> b` with b outside [0, width) is undefined; on x86 the count wraps modulo the width, so a power of two
computed as 1 << e silently becomes 1 << (e mod 64).  A-PENT must prove 0 <= b < width at every such shift in the files
given (the codec kernels whose definitions C20 quantifies over every input)."""
from .bounds import Bounds
from .model import int_type


def shift_range(ctx, prog, eff, files, rule='SHIFT-RANGE'):
    n = 0
    for f in sorted(prog.lib_fns(), key=lambda f: (f.file, f.line)):
        if not any(f.file.endswith(x) for x in files):
            continue
        bd = None
        k = 0
        for x in f.walk():
            if x['k'] not in ('BinaryOperator', 'CompoundAssignOperator') or x.get('op') not in ('<<', '>>', '<<=', '>>='):
                continue
            b = f.unwrap(f.N[x['kids'][1]])
            if b.get('v') is not None:
                continue
            pt = f.cfg.point(x)
            if pt is None:
                continue
            it = int_type(f.N[x['kids'][0]].get('t') or '')
            w = max(32, it[0] if it else 32)
            n += 1
            k += 1
            bd = bd or Bounds(prog, f, eff)
            r = bd.ev_at(b, pt)
            ok = (not r.bot) and r.lo is not None and r.lo >= 0 and r.hi is not None and r.hi < w
            ctx.ob(rule, '%s:shift#%d' % (f.name, k), ok, f.loc(x), '`%s`: count in %s, operand width %d%s' % (f.s(x)[:60], ('[%s, %s]' % (r.lo, r.hi)), w,
                   '' if ok else ' - not proved inside [0, %d): the shift is undefined (the count wraps on x86) for part of the input range' % w), None)
    return n
