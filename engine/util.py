"""Small shared helpers for rules: local definitions, value flow through locals, null-branch pruning."""
from .effects import ASSIGN_OPS


def local_defs(f):
    """name -> list of rhs nodes assigned to a local/param variable (decl init or '=' assignment). None for non-'=' writes."""
    defs = {}
    for n in f.walk():
        k = n['k']
        if k == 'DeclStmt':
            for d in n.get('decls', []):
                if 'init' in d and d['init'] >= 0:
                    defs.setdefault(d['n'], []).append(f.N[d['init']])
                else:
                    defs.setdefault(d['n'], [])
        elif k in ('BinaryOperator', 'CompoundAssignOperator') and n['op'] in ASSIGN_OPS:
            l = f.unwrap(f.N[n['kids'][0]])
            if l['k'] == 'DeclRefExpr' and l['dk'] in ('local', 'param'):
                defs.setdefault(l['n'], []).append(f.N[n['kids'][1]] if n['op'] == '=' else None)
        elif k == 'UnaryOperator' and n['op'] in ('++', '--', 'post++', 'post--'):
            l = f.unwrap(f.N[n['kids'][0]])
            if l['k'] == 'DeclRefExpr' and l['dk'] in ('local', 'param'):
                defs.setdefault(l['n'], []).append(None)
    return defs


def flow_sources(f, n, defs=None, depth=0, seen=None):
    """lvalue strings (member paths, params, globals) that flow into expression n through local variables"""
    defs = defs if defs is not None else local_defs(f)
    seen = seen if seen is not None else set()
    out = set()
    for x in f.walk(n):
        if x['k'] == 'MemberExpr':
            out.add(f.s(x))
        elif x['k'] == 'DeclRefExpr' and x['dk'] in ('local', 'param', 'global', 'static_local'):
            out.add(x['n'])
            if x['dk'] == 'local' and x['n'] not in seen and depth < 6:
                seen.add(x['n'])
                for r in defs.get(x['n'], []):
                    if r is not None:
                        out |= flow_sources(f, r, defs, depth + 1, seen)
    return out


def resolve_local(f, n, defs=None):
    """if n is a local with exactly one definition, return that definition's rhs (recursively); else n"""
    defs = defs if defs is not None else local_defs(f)
    for _ in range(5):
        n = f.unwrap(n)
        if n['k'] == 'DeclRefExpr' and n['dk'] == 'local':
            d = defs.get(n['n'], [])
            if len(d) == 1 and d[0] is not None:
                n = d[0]
                continue
        break
    return n


def null_edge_pruner(f, names):
    """edge_ok callback for CFG.path_avoiding: prune edges on which one of the lvalue strings `names` is NULL/zero.
    Understands  v == NULL, !v, v != NULL, v, (v = call) == NULL."""
    cfg = f.cfg

    def lv(n):
        n = f.unwrap(n)
        if n['k'] == 'BinaryOperator' and n['op'] == '=':
            n = f.unwrap(f.N[n['kids'][0]])
        return f.s(n)

    def null_when(cond, pol):
        """does cond==pol imply one of names is NULL?"""
        n = f.unwrap(f.N[cond])
        if n['k'] == 'UnaryOperator' and n['op'] == '!':
            return null_when(n['kids'][0], not pol)
        if n['k'] == 'BinaryOperator' and n['op'] in ('==', '!='):
            a, b = f.N[n['kids'][0]], f.N[n['kids'][1]]
            for x, y in ((a, b), (b, a)):
                if lv(x) in names and f.unwrap(y).get('v') == 0:
                    return (n['op'] == '==') == pol
            return False
        if lv(n) in names:
            return not pol
        return False

    def edge_ok(b, si):
        bl = cfg.blocks[b]
        if 'cond' in bl and len(bl['succs']) == 2 and bl.get('tk') != 'SwitchStmt':
            pol = (si == 0)
            if null_when(bl['cond'], pol):
                return False
        return True

    return edge_ok


def assigned_lvalues(f, root=None):
    """[(lhs string, assign node, rhs node or None)] in subtree"""
    out = []
    for n in f.walk(root):
        k = n['k']
        if k in ('BinaryOperator', 'CompoundAssignOperator') and n['op'] in ASSIGN_OPS:
            out.append((f.s(n['kids'][0]), n, f.N[n['kids'][1]]))
        elif k == 'UnaryOperator' and n['op'] in ('++', '--', 'post++', 'post--'):
            out.append((f.s(n['kids'][0]), n, None))
    return out


def base_of(path):
    """'psf->wchunks.chunks' -> 'psf->wchunks' ; 'info' -> 'info'"""
    i = max(path.rfind('->'), path.rfind('.'))
    if i < 0:
        return path
    return path[:i]


def member_sep(path):
    i = max(path.rfind('->'), path.rfind('.'))
    return path[i:i + 2] if path[i] == '-' else '.'
