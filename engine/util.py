"""Small shared helpers for rules: local definitions, value flow through locals, null-branch pruning."""
from .effects import ASSIGN_OPS


def local_defs(f):
    """name -> list of rhs nodes assigned to a local/param variable (decl init or '=' assignment). None for non-'=' writes."""
    defs = {}
    for n in f.walk():
        k = n['k']
        if k == 'DeclStmt':
            for d in n.get('decls', []):
                if 'init' in d and d['init'] >= 0:
                    defs.setdefault(d['n'], []).append(f.N[d['init']])
                else:
                    defs.setdefault(d['n'], [])
        elif k in ('BinaryOperator', 'CompoundAssignOperator') and n['op'] in ASSIGN_OPS:
            l = f.unwrap(f.N[n['kids'][0]])
            if l['k'] == 'DeclRefExpr' and l['dk'] in ('local', 'param'):
                defs.setdefault(l['n'], []).append(f.N[n['kids'][1]] if n['op'] == '=' else None)
        elif k == 'UnaryOperator' and n['op'] in ('++', '--', 'post++', 'post--'):
            l = f.unwrap(f.N[n['kids'][0]])
            if l['k'] == 'DeclRefExpr' and l['dk'] in ('local', 'param'):
                defs.setdefault(l['n'], []).append(None)
    return defs


def flow_sources(f, n, defs=None, depth=0, seen=None):
    """lvalue strings (member paths, params, globals) that flow into expression n through local variables"""
    defs = defs if defs is not None else local_defs(f)
    seen = seen if seen is not None else set()
    out = set()
    for x in f.walk(n):
        if x['k'] == 'MemberExpr':
            out.add(f.s(x))
        elif x['k'] == 'DeclRefExpr' and x['dk'] in ('local', 'param', 'global', 'static_local'):
            out.add(x['n'])
            if x['dk'] == 'local' and x['n'] not in seen and depth < 6:
                seen.add(x['n'])
                for r in defs.get(x['n'], []):
                    if r is not None:
                        out |= flow_sources(f, r, defs, depth + 1, seen)
    return out


def resolve_local(f, n, defs=None):
    """if n is a local with exactly one definition, return that definition's rhs (recursively); else n"""
    defs = defs if defs is not None else local_defs(f)
    for _ in range(5):
        n = f.unwrap(n)
        if n['k'] == 'DeclRefExpr' and n['dk'] == 'local':
            d = defs.get(n['n'], [])
            if len(d) == 1 and d[0] is not None:
                n = d[0]
                continue
        break
    return n


def null_edge_pruner(f, names):
    """edge_ok callback for CFG.path_avoiding: prune edges on which one of the lvalue strings `names` is NULL/zero.
    Understands  v == NULL, !v, v != NULL, v, (v = call) == NULL."""
    cfg = f.cfg

    def lv(n):
        n = f.unwrap(n)
        if n['k'] == 'BinaryOperator' and n['op'] == '=':
            n = f.unwrap(f.N[n['kids'][0]])
        return f.s(n)

    def null_when(cond, pol):
        """does cond==pol imply one of names is NULL?"""
        n = f.unwrap(f.N[cond])
        if n['k'] == 'UnaryOperator' and n['op'] == '!':
            return null_when(n['kids'][0], not pol)
        if n['k'] == 'BinaryOperator' and n['op'] in ('==', '!='):
            a, b = f.N[n['kids'][0]], f.N[n['kids'][1]]
            for x, y in ((a, b), (b, a)):
                if lv(x) in names and f.unwrap(y).get('v') == 0:
                    return (n['op'] == '==') == pol
            return False
        if lv(n) in names:
            return not pol
        return False

    def edge_ok(b, si):
        bl = cfg.blocks[b]
        if 'cond' in bl and len(bl['succs']) == 2 and bl.get('tk') != 'SwitchStmt':
            pol = (si == 0)
            if null_when(bl['cond'], pol):
                return False
        return True

    return edge_ok


def assigned_lvalues(f, root=None):
    """[(lhs string, assign node, rhs node or None)] in subtree"""
    out = []
    for n in f.walk(root):
        k = n['k']
        if k in ('BinaryOperator', 'CompoundAssignOperator') and n['op'] in ASSIGN_OPS:
            out.append((f.s(n['kids'][0]), n, f.N[n['kids'][1]]))
        elif k == 'UnaryOperator' and n['op'] in ('++', '--', 'post++', 'post--'):
            out.append((f.s(n['kids'][0]), n, None))
    return out


def base_of(path):
    """'psf->wchunks.chunks' -> 'psf->wchunks' ; 'info' -> 'info'"""
    i = max(path.rfind('->'), path.rfind('.'))
    if i < 0:
        return path
    return path[:i]


def member_sep(path):
    i = max(path.rfind('->'), path.rfind('.'))
    return path[i:i + 2] if path[i] == '-' else '.'


def alpha_map(f):
    """actual name -> canonical name for the parameters (by position: $0, $1 ...) and the loop induction variables ($i, $j ... in order of
    first appearance as a for-init or as the variable incremented in a loop): lets a rule written with roles instead of names survive renames"""
    import re as _re
    m = {}
    for k, p_ in enumerate(f.params):
        if p_.get('n'):
            m[p_['n']] = '$%d' % k
    ivs = []
    for x in f.walk():
        if x['k'] == 'ForStmt':
            for d in f.walk(x):
                if d['k'] == 'DeclStmt':
                    for dd in d.get('decls') or []:
                        if dd['n'] not in m and dd['n'] not in ivs:
                            ivs.append(dd['n'])
                    break
            inc = x.get('inc')
            if inc is not None:
                for y in f.walk(f.N[inc]):
                    if y['k'] == 'DeclRefExpr' and y.get('n') not in m and y['n'] not in ivs:
                        ivs.append(y['n'])
    for k, v in enumerate(ivs):
        m[v] = '$' + 'ijklmn'[k] if k < 6 else '$v%d' % k
    return m


def alpha_str(s, m):
    """rename identifiers of string s through map m (whole identifiers only, not member names after . or ->)"""
    import re as _re
    if not m:
        return s
    pat = _re.compile(r'(?<![\w>.$])(' + '|'.join(_re.escape(k) for k in sorted(m, key=len, reverse=True)) + r')(?![\w])')
    return pat.sub(lambda mo: m[mo.group(1)], s)


def branch_facts(f, node):
    """[(condition string without blanks, polarity)] of the two-way branches that must have gone a certain way for `node` to run: walks the CFG backwards
    from node's block over single-predecessor edges (nested ifs, else-if chains, and code after `if (c) { ... return / continue ; }`)"""
    cfg = f.cfg
    pt = cfg.point(node)
    out = []
    if pt is None:
        return out
    b = pt[0]
    seen = set()
    while b not in seen:
        seen.add(b)
        preds = cfg.preds.get(b, [])
        if len(preds) != 1:
            break
        pb = preds[0]
        blk = cfg.blocks[pb]
        if 'cond' in blk and len(blk['succs']) == 2 and blk['succs'][0] != blk['succs'][1] and blk.get('tk') != 'SwitchStmt':
            cn = f.N[blk['cond']]
            # for `a && b` / `a || b` the block decides on its last element
            if f.unwrap(cn).get('op') in ('&&', '||') and blk['elems']:
                cn = f.N[blk['elems'][-1]]
            out.append((f.s(cn).replace(' ', ''), blk['succs'][0] == b))
        b = pb
    return out
