"""A-PENT (demand driven): integer interval + symbolic upper/lower bound facts for an expression at a program point.

A query walks the CFG *backwards* from the point of use.  On every backward path the first event that concerns the
queried lvalue decides the path: an assignment (bounds of the assigned value), a branch edge whose condition compares
the lvalue (guard fact), or an unknown writer / function entry (type range only).  The answer is the join over all
paths, so a fact is reported only if it holds on every path (must analysis).  Symbolic bounds `x <= E` are dropped when
any constituent of E may have been written in the explored region.  No solver, no execution.
"""
import re
from .model import int_type
from .effects import writes_of, ASSIGN_OPS

MAXD = 60
CMP = {'<', '<=', '>', '>=', '==', '!='}
FLIP = {'<': '>', '<=': '>=', '>': '<', '>=': '<=', '==': '==', '!=': '!='}
NEG = {'<': '>=', '<=': '>', '>': '<=', '>=': '<', '==': '!=', '!=': '=='}


class B:
    __slots__ = ('lo', 'hi', 'ubs', 'lbs', 'bot', 'slo')

    def __init__(self, lo=None, hi=None, ubs=(), lbs=(), bot=False):
        self.lo, self.hi = lo, hi
        self.ubs = set(ubs)   # {(op, str)}: value op str, op in '<', '<='
        self.lbs = set(lbs)   # {(op, str)}: value op str, op in '>', '>='
        self.bot = bot        # bottom: no path reaches here under the current (optimistic) loop assumption
        self.slo = {}         # symbolic bound string -> numeric lower bound of that expression when the fact was established

    def copy(self):
        r = B(self.lo, self.hi, self.ubs, self.lbs, self.bot)
        r.slo = dict(self.slo)
        return r

    def key(self):
        return (self.lo, self.hi, frozenset(self.ubs), frozenset(self.lbs), self.bot)

    def __repr__(self):
        return 'B[%s,%s ub=%s lb=%s]' % (self.lo, self.hi, sorted(self.ubs), sorted(self.lbs))

    @staticmethod
    def const(v):
        return B(v, v)

    def clamp_type(self, tr):
        if tr is None or self.bot:
            return self
        lo, hi = tr
        r = self.copy()
        if r.lo is None or r.lo < lo or (r.hi is not None and r.hi > hi):
            if r.lo is None or r.lo < lo:
                r.lo = lo
        if r.hi is None or r.hi > hi:
            r.hi = hi
        if ('!=', '0') in r.lbs and r.lo == 0:
            r.lo = 1
        return r


def join(bs):
    bs = list(bs)
    if not bs:
        return B()
    nb = [b for b in bs if not b.bot]
    if not nb:
        return B(bot=True)
    bs = nb
    lo = None if any(b.lo is None for b in bs) else min(b.lo for b in bs)
    hi = None if any(b.hi is None for b in bs) else max(b.hi for b in bs)
    ubs = set.intersection(*(b.ubs for b in bs))
    lbs = set.intersection(*(b.lbs for b in bs))
    slo = {}
    for b in bs:
        for k2, v2 in b.slo.items():
            slo[k2] = v2 if k2 not in slo else min(slo[k2], v2)
    # a side without the symbolic bound x < S still satisfies it when its numeric hi is below the known minimum of S
    for (op, s_) in set.union(*(b.ubs for b in bs)):
        if (op, s_) in ubs or s_ not in slo:
            continue
        def has(b):
            if (op, s_) in b.ubs or (op == '<=' and ('<', s_) in b.ubs):
                return True
            return b.hi is not None and b.hi <= slo[s_] - (1 if op == '<' else 0)
        if all(has(b) for b in bs):
            ubs.add((op, s_))
    # x < E on one path and x <= E on the other: keep the weaker
    allub = set.union(*(b.ubs for b in bs))
    for op, s in allub:
        if all((('<', s) in b.ubs or ('<=', s) in b.ubs) for b in bs):
            if ('<', s) not in ubs:
                ubs.add(('<=', s))
    alllb = set.union(*(b.lbs for b in bs))
    for op, s in alllb:
        if all((('>', s) in b.lbs or ('>=', s) in b.lbs) for b in bs):
            if ('>', s) not in lbs:
                lbs.add(('>=', s))
    r = B(lo, hi, ubs, lbs)
    r.slo = {k2: v2 for k2, v2 in slo.items() if any(k2 == s2 for (_, s2) in ubs)}
    return r


def meet(a, b):
    if a.bot or b.bot:
        return B(bot=True)
    lo = a.lo if b.lo is None else (b.lo if a.lo is None else max(a.lo, b.lo))
    hi = a.hi if b.hi is None else (b.hi if a.hi is None else min(a.hi, b.hi))
    r = B(lo, hi, a.ubs | b.ubs, a.lbs | b.lbs)
    r.slo = dict(a.slo)
    r.slo.update(b.slo)
    return r


def _leq(a, b):
    """a is at least as precise as b (a ⊑ b)"""
    if b.bot:
        return a.bot
    if a.bot:
        return True
    if b.lo is not None and (a.lo is None or a.lo < b.lo):
        return False
    if b.hi is not None and (a.hi is None or a.hi > b.hi):
        return False
    def has_ub(x, op, s):
        return (op, s) in x.ubs or (op == '<=' and ('<', s) in x.ubs)
    def has_lb(x, op, s):
        return (op, s) in x.lbs or (op == '>=' and ('>', s) in x.lbs)
    return all(has_ub(a, o, s) for (o, s) in b.ubs) and all(has_lb(a, o, s) for (o, s) in b.lbs)


def type_range(t):
    if t and t.rstrip().endswith('*'):
        return (0, (1 << 64) - 1)
    it = int_type(t) if t else None
    if not it:
        return None
    w, s = it
    if w == 1:
        return (0, 1)
    return (-(1 << (w - 1)), (1 << (w - 1)) - 1) if s else (0, (1 << w) - 1)


class Bounds:
    def __init__(self, prog, fn, effects=None, summaries=None):
        self.prog = prog
        self.fn = fn
        self.cfg = fn.cfg
        self.eff = effects
        self.summaries = summaries or {}
        self._events = None
        self._addr_taken = None
        self._memo = {}
        self._inprog = set()
        self._used = set()
        self._assume = {}
        self._arm_facts = {}

    # ---- event index -------------------------------------------------------------------------
    @property
    def events(self):
        if self._events is None:
            ev = {}
            f = self.fn
            for b in self.cfg.blocks.values():
                for i, e in enumerate(b['elems']):
                    lst = []
                    calls = []
                    for n in f.walk(e):
                        k = n['k']
                        if k in ('BinaryOperator', 'CompoundAssignOperator') and n['op'] in ASSIGN_OPS:
                            lst.append((f.s(n['kids'][0]), n, n['op'], n['kids'][1]))
                        elif k == 'UnaryOperator' and n['op'] in ('++', '--', 'post++', 'post--'):
                            lst.append((f.s(n['kids'][0]), n, n['op'], None))
                        elif k == 'DeclStmt':
                            for d in n.get('decls', []):
                                if 'init' in d and d['init'] >= 0:
                                    lst.append((d['n'], n, 'decl', d['init']))
                                elif not d.get('static'):
                                    lst.append((d['n'], n, 'undef', None))
                        elif k == 'CallExpr':
                            calls.append(n)
                    ev[(b['id'], i)] = (lst, calls)
            self._events = ev
        return self._events

    @property
    def addr_taken(self):
        if self._addr_taken is None:
            s = set()
            f = self.fn
            for n in f.walk():
                if n['k'] == 'UnaryOperator' and n['op'] == '&':
                    s.add(f.s(n['kids'][0]))
            self._addr_taken = s
        return self._addr_taken

    # ---- guards ------------------------------------------------------------------------------
    def guard_facts(self, cond, pol):
        """list of (lhs node, op, rhs node) that hold when `cond` evaluates to pol"""
        f = self.fn
        n = f.unwrap(f.N[cond] if isinstance(cond, int) else cond)
        if n['k'] == 'UnaryOperator' and n['op'] == '!':
            return self.guard_facts(n['kids'][0], not pol)
        if n['k'] == 'BinaryOperator' and n['op'] in CMP:
            op = n['op'] if pol else NEG[n['op']]
            l, r = f.N[n['kids'][0]], f.N[n['kids'][1]]
            return [(l, op, r), (r, FLIP[op], l)]
        if n['k'] == 'BinaryOperator' and n['op'] == '&&' and pol:
            return self.guard_facts(n['kids'][0], True) + self.guard_facts(n['kids'][1], True)
        if n['k'] == 'BinaryOperator' and n['op'] == '||' and not pol:
            return self.guard_facts(n['kids'][0], False) + self.guard_facts(n['kids'][1], False)
        # plain truthiness
        return [(n, '!=' if pol else '==', None)]

    def _lv_str(self, n):
        """string of the lvalue a guard operand speaks about: strips casts and `(x = e)`"""
        f = self.fn
        n = f.unwrap(n)
        if n['k'] == 'BinaryOperator' and n['op'] == '=':
            n = f.unwrap(f.N[n['kids'][0]])
        return f.s(n)

    def _fact_bounds(self, op, rhs, point, depth):
        """bounds implied for X by `X op rhs`"""
        if rhs is None:
            if op == '==':
                return B(0, 0)
            return B(lbs={('!=', '0')})
        rb = self._ev(rhs, point, depth + 1)
        if rb.bot:
            return rb
        rs = self.fn.s(rhs)
        pure = self._pure(rhs)
        r = B()
        if op in ('<', '<='):
            if rb.hi is not None:
                r.hi = rb.hi - (1 if op == '<' else 0)
            if pure:
                r.ubs.add((op, rs))
                if rb.lo is not None:
                    r.slo[rs] = rb.lo
            for o2, s2 in rb.ubs:
                r.ubs.add(('<' if '<' in (op, o2) else '<=', s2))
                if s2 in rb.slo:
                    r.slo[s2] = rb.slo[s2]
        elif op in ('>', '>='):
            if rb.lo is not None:
                r.lo = rb.lo + (1 if op == '>' else 0)
            if pure:
                r.lbs.add((op, rs))
            for o2, s2 in rb.lbs:
                r.lbs.add(('>' if '>' in (op, o2) else '>=', s2))
        elif op == '==':
            r = rb.copy()
            if pure:
                r.ubs.add(('<=', rs))
                r.lbs.add(('>=', rs))
        elif op == '!=' and rb.lo == 0 and rb.hi == 0:
            r.lbs.add(('!=', '0'))
        return r

    def _pure(self, n):
        f = self.fn
        for x in f.walk(n):
            if x['k'] == 'CallExpr':
                cal = x.get('callee')
                if cal and cal in self.prog.fns and self.eff is not None and self._effect_free(cal):
                    continue
                return False
            if x['k'] in ('BinaryOperator', 'CompoundAssignOperator') and x['op'] in ASSIGN_OPS:
                return False
            if x['k'] == 'UnaryOperator' and x['op'] in ('++', '--', 'post++', 'post--'):
                return False
        return True

    def _effect_free(self, name):
        if not hasattr(self, '_ef_memo'):
            self._ef_memo = {}
        if name not in self._ef_memo:
            ok = True
            for nm in self.prog.reachable_from([name]):
                if nm not in self.prog.fns:
                    if nm not in ('strlen', 'abs', 'fabs', 'labs', 'strcmp', 'memcmp'):
                        ok = False
                    continue
                for g in self.prog.fns[nm]:
                    fl, gl, pa = self.eff.direct(g)
                    if fl or gl or pa:
                        ok = False
            self._ef_memo[name] = ok
        return self._ef_memo[name]

    # ---- backward must-search for an lvalue --------------------------------------------------
    def var(self, X, node, point, depth):
        """bounds of lvalue string X (read by `node`) at point"""
        key = (X, point)
        if key in self._memo:
            return self._memo[key]
        if key in self._inprog:
            # loop: use the assumption of the previous fixpoint round (optimistic bottom in round 0)
            self._used.add(key)
            return self._assume.get(key, B(bot=True))
        self._inprog.add(key)
        r = self._var(X, node, point, depth)
        self._inprog.discard(key)
        inv = getattr(self, 'invariants', None)
        if inv and X in inv and not r.bot:
            # invariant supplied (and justified) by the client analysis: holds at every point of the function
            r = meet(r, inv[X])
        self._memo[key] = r
        return r

    def _var(self, X, node, point, depth):
        f = self.fn
        cfg = self.cfg
        tr = type_range(node.get('t'))
        if depth > MAXD or point is None:
            return B().clamp_type(tr)
        results = []
        dirty = set()
        region_calls = []
        is_member = ('->' in X or '.' in X)
        leaf = X.split('->')[-1].split('.')[-1].split('[')[0] if is_member else None
        addr = X in self.addr_taken
        visited = set()
        b0, i0 = point
        work = [(b0, i0 - 1, True)]
        unknown = False
        while work:
            b, start, first = work.pop()
            if not first:
                if b in visited:
                    continue
                visited.add(b)
            elems = cfg.blocks[b]['elems']
            if start is None:
                start = len(elems) - 1
            decided = False
            for j in range(min(start, len(elems) - 1), -1, -1):
                lst, calls = self.events[(b, j)]
                # nested duplicates: an element that is a sub-expression of a later element was handled there as well
                has_x = any(lv == X for (lv, n, op, rhs) in lst)
                for (lv, n, op, rhs) in reversed(lst):
                    if has_x and lv != X:
                        continue     # other effects of the deciding statement happen with it, not after it
                    if lv == X:
                        if op in ('=', 'decl') and rhs is not None:
                            rb = self._ev(rhs, (b, j), depth + 1)
                            if rb.bot:
                                results.append(rb)
                                decided = True
                                break
                            rb = self._through_cast(rb, f.N[rhs].get('t'), node.get('t'))
                            if self._pure(f.N[rhs]):
                                rs = f.s(rhs)
                                lo0 = rb.lo
                                rb = rb.copy()
                                rb.ubs.add(('<=', rs))
                                rb.lbs.add(('>=', rs))
                                if lo0 is not None:
                                    rb.slo[rs] = lo0
                                # clamp idiom `if (X > E) X = E` : the new value is smaller than the old one, so every upper bound of the
                                # old X still holds (count = a - b ; if (count > len - indx) count = len - indx  =>  count <= a - b)
                                if op == '=' and depth < MAXD - 2:
                                    preds_ = cfg.preds.get(b, [])
                                    if len(preds_) == 1 and j == min(start, len(elems) - 1) or (len(preds_) == 1 and all(not any(lv2 == X for (lv2, n2, op2, r2) in self.events[(b, jj)][0]) for jj in range(0, j))):
                                        pb_ = preds_[0]
                                        pbl_ = cfg.blocks[pb_]
                                        if 'cond' in pbl_ and len(pbl_['succs']) == 2 and pbl_.get('tk') != 'SwitchStmt' and pbl_['succs'][0] != pbl_['succs'][1]:
                                            pol_ = (pbl_['succs'][0] == b)
                                            for (l_, op_, r_) in self.guard_facts(pbl_['cond'], pol_):
                                                if r_ is not None and op_ in ('>', '>=') and self._lv_str(l_) == X and f.s(r_) == rs:
                                                    prev = self.var(X, node, (pb_, len(pbl_['elems'])), depth + 1)
                                                    if not prev.bot:
                                                        if prev.hi is not None and (rb.hi is None or prev.hi < rb.hi):
                                                            rb.hi = prev.hi
                                                        rb.ubs |= {u for u in prev.ubs}
                                                    break
                            results.append(rb)
                        elif op in ('post++', '++', '+=') and depth < MAXD:
                            # x++ : lower bound survives (no wrap assumed for the lower side only when type is wide)
                            prev = self.var(X, node, (b, j), depth + 1)
                            nb_ = B(prev.lo, None, bot=prev.bot)
                            if op == '+=' and rhs is not None and not prev.bot and prev.hi is not None and prev.lo is not None \
                                    and not any(a_['k'] in ('WhileStmt', 'ForStmt', 'DoStmt') for a_ in f.ancestors(n)):
                                # a single `x += e` outside any loop: plain interval addition (inside a loop the upper bound would climb for ever)
                                rb_ = self._ev(rhs, (b, j), depth + 1)
                                tr_ = type_range(node.get('t'))
                                if not rb_.bot and rb_.lo is not None and rb_.hi is not None and tr_ is not None and prev.lo + rb_.lo >= tr_[0] and prev.hi + rb_.hi <= tr_[1]:
                                    nb_ = B(prev.lo + rb_.lo, prev.hi + rb_.hi)
                            results.append(nb_)
                        elif op == '-=' and rhs is not None and depth < MAXD:
                            # x -= e with e >= 0: upper bounds (numeric and symbolic) survive; x -= x % c keeps x >= 0
                            prev = self.var(X, node, (b, j), depth + 1)
                            rb = self._ev(rhs, (b, j), depth + 1)
                            if prev.bot or rb.bot:
                                results.append(B(bot=True))
                            elif rb.lo is not None and rb.lo >= 0:
                                nb = B(None, prev.hi)
                                import re as _re
                                tok = _re.compile(r'(?<![\w>.])%s(?![\w])' % _re.escape(X))
                                nb.ubs = {u for u in prev.ubs if not tok.search(u[1])}
                                rs = f.s(rhs)
                                if prev.lo is not None and prev.lo >= 0 and rs.startswith('(%s %% ' % X):
                                    nb.lo = 0
                                elif prev.lo is not None and rb.hi is not None:
                                    nb.lo = prev.lo - rb.hi
                                results.append(nb)
                            else:
                                results.append(B(None, prev.hi, bot=prev.bot))
                        elif op in ('post--', '--', '-=') and depth < MAXD:
                            prev = self.var(X, node, (b, j), depth + 1)
                            results.append(B(None, prev.hi, bot=prev.bot))
                        elif op in ('&=',) and rhs is not None and f.N[rhs].get('v') is not None and f.N[rhs]['v'] >= 0:
                            results.append(B(0, f.N[rhs]['v']))
                        elif op in ('%=',) and rhs is not None:
                            rb = self._ev(rhs, (b, j), depth + 1)
                            results.append(B(None, rb.hi - 1 if rb.hi is not None else None))
                        else:
                            results.append(B())
                        decided = True
                        break
                    else:
                        dirty.add(lv)
                if decided:
                    break
                for c in calls:
                    region_calls.append(c)
                    if self._call_kills(c, X, is_member, leaf, addr, node):
                        fi = None if getattr(self, '_no_field_inv', False) else self._field_invariant(node)
                        results.append(fi if fi is not None else B())
                        decided = True
                        break
                if decided:
                    break
            if decided:
                continue
            # reached block start
            preds = cfg.preds.get(b, [])
            if b == cfg.entry or not preds:
                ef = getattr(self, 'entry_facts', {}).get(X)
                if ef is None and not is_member:
                    ef = self._param_entry(X, depth)
                if ef is None and not getattr(self, '_no_field_inv', False):
                    ef = self._field_invariant(node)
                results.append(ef if ef is not None else B())
                continue
            for pb in preds:
                pbl = cfg.blocks[pb]
                g = None
                if 'cond' in pbl and len(pbl['succs']) == 2 and pbl.get('tk') != 'SwitchStmt' and pbl['succs'][0] != pbl['succs'][1]:
                    pol = (pbl['succs'][0] == b)
                    gb = None
                    for (l, op, r) in self.guard_facts(pbl['cond'], pol):
                        if self._lv_str(l) == X:
                            fb = self._fact_bounds(op, r, (pb, len(pbl['elems'])), depth)
                            gb = fb if gb is None else meet(gb, fb)
                    if gb is not None and gb.bot:
                        g = gb      # guard operand still bottom in this fixpoint round: the path contributes nothing yet
                    elif gb is not None and (gb.lo is not None or gb.hi is not None or gb.ubs or gb.lbs):
                        # the guard decides only one direction; merge with what holds before the guard
                        before = self.var(X, node, (pb, len(pbl['elems'])), depth + 1) if depth < MAXD - 2 else B()
                        # cond elements may assign X itself ((x = f()) < 0): `before` already sees that assignment
                        g = meet(gb, before)
                elif pbl.get('tk') == 'SwitchStmt' and 'cond' in pbl:
                    lab = cfg.blocks[b].get('label')
                    if lab is not None and self._lv_str(f.N[pbl['cond']]) == X:
                        ln = f.N[lab]
                        if ln['k'] == 'CaseStmt' and 'cv' in ln and 'cv2' not in ln and len([p for p in preds]) == 1:
                            g = B.const(ln['cv'])
                if g is not None:
                    results.append(g)
                else:
                    work.append((pb, None, False))
        r = join(results) if results else B()
        # drop symbolic bounds that mention possibly modified lvalues
        if dirty or region_calls:
            r = r.copy()
            r.ubs = {(o, s) for (o, s) in r.ubs if not self._stale(s, dirty, region_calls)}
            r.lbs = {(o, s) for (o, s) in r.lbs if not self._stale(s, dirty, region_calls)}
        return r.clamp_type(tr)

    def _stale(self, s, dirty, calls):
        for d in dirty:
            if d and re.search(r'(?<![\w>.])' + re.escape(d) + r'(?![\w])', s):
                return True
        fields = set(re.findall(r'(?:->|\.)(\w+)', s))
        if fields and self.eff is not None:
            for c in calls:
                cal = c.get('callee')
                names = [cal] if cal else list(self.prog.slot(*reversed(self.prog.indirect_callee_slot(self.fn, c) or (None, None)))) if self.prog.indirect_callee_slot(self.fn, c) else []
                for nm in names:
                    if nm in self.prog.fns:
                        w = {fl for (_, fl) in self.eff.trans_fields(nm)}
                        if fields & w:
                            return True
        elif fields and self.eff is None and calls:
            return True
        return False

    def _root_sources(self, R):
        """names a local pointer R may be derived from (through local definitions), including itself"""
        if not hasattr(self, '_rs_memo'):
            self._rs_memo = {}
            from .util import local_defs
            self._ldefs = local_defs(self.fn)
        if R not in self._rs_memo:
            from .util import flow_sources
            srcs = {R}
            for d in self._ldefs.get(R, []):
                if d is not None:
                    for x in flow_sources(self.fn, d, self._ldefs):
                        srcs.add(x.split('->')[0].split('.')[0].split('[')[0])
            self._rs_memo[R] = srcs
        return self._rs_memo[R]

    def _may_reach(self, c, X):
        """can the callee of call c reach the object X lives in?  Only through a pointer argument related to X's root
        variable (same variable, or one derived from / deriving the other), or if the root is not a local."""
        f = self.fn
        R = re.split(r'->|\.|\[', X)[0].lstrip('*&(')
        rn = None
        for n in f.walk():
            if n['k'] == 'DeclRefExpr' and n['n'] == R:
                rn = n
                break
        if rn is None or rn.get('dk') in ('global', 'static_local'):
            return True
        rs = self._root_sources(R)
        for a in f.args(c):
            t = a.get('t', '')
            if not (t.rstrip().endswith('*') or t.rstrip().endswith(']')):
                continue
            for x in f.walk(a):
                if x['k'] == 'DeclRefExpr' and x.get('dk') in ('local', 'param'):
                    if x['n'] in rs or R in self._root_sources(x['n']):
                        return True
        return False

    def _call_kills(self, c, X, is_member, leaf, addr, node):
        f = self.fn
        if addr or is_member:
            for a in f.args(c):
                a = f.unwrap(a)
                if a['k'] == 'UnaryOperator' and a['op'] == '&' and f.s(a['kids'][0]) == X:
                    return True
        if is_member:
            cal = c.get('callee')
            rec = node.get('rec') if node is not None and node.get('k') == 'MemberExpr' else None

            def writes(nm):
                for (r, fl) in self.eff.trans_fields(nm):
                    if fl == leaf and (rec is None or r is None or r == rec):
                        return True
                return False
            if self.eff is None:
                return (cal in self.prog.fns or cal is None) and self._may_reach(c, X)
            if cal:
                if cal in self.prog.fns:
                    return writes(cal) and self._may_reach(c, X)
                return False
            sl = self.prog.indirect_callee_slot(f, c)
            if sl:
                for nm in self.prog.slot(sl[1], sl[0]):
                    if writes(nm):
                        return self._may_reach(c, X)
                return False
            return self._may_reach(c, X)
        return False

    def _through_cast(self, b, ft, tt):
        """value of type ft stored into lvalue of type tt"""
        tr = type_range(tt)
        if tr is None:
            return b
        if b.lo is not None and b.hi is not None and b.lo >= tr[0] and b.hi <= tr[1]:
            return b
        fr = type_range(ft)
        if fr is not None and fr[0] >= tr[0] and fr[1] <= tr[1]:
            return b
        # may truncate / reinterpret: numeric info lost; symbolic facts kept only if source provably non-negative and fits
        return B().clamp_type(tr)

    # ---- expression evaluation ---------------------------------------------------------------
    def ev(self, n, point=None, depth=0):
        if depth == 0 and not self._inprog:
            return self._fix(n, point)
        return self._ev(n, point, depth)

    def _fix(self, n, point):
        """Kleene iteration from bottom over the loop cut points, widening after round 3"""
        self._assume = {}
        for it in range(10):
            self._memo = {}
            self._used = set()
            self._inprog = {'#top'}
            try:
                r = self._ev(n, point, 0)
            finally:
                self._inprog = set()
            stable = True
            nxt = dict(self._assume)
            for key, new in self._memo.items():
                old = self._assume.get(key)
                if old is not None and (old.key() == new.key() or _leq(new, old)):
                    continue   # assumption is a post-fixpoint for this key: the result computed under it is sound
                if key in self._used:
                    stable = False
                if it >= 3 and old is not None and not old.bot and not new.bot:
                    new = B(new.lo if new.lo == old.lo else None, new.hi if new.hi == old.hi else None,
                            new.ubs & old.ubs, new.lbs & old.lbs)
                nxt[key] = new
            for key in self._used:
                if key not in self._memo:
                    stable = stable and key in self._assume
            self._assume = nxt
            if stable:
                self._memo = {}
                return r
        self._memo = {}
        return B().clamp_type(type_range((self.fn.N[n] if isinstance(n, int) else n).get('t')))

    def _ev(self, n, point=None, depth=0):
        f = self.fn
        if isinstance(n, int):
            n = f.N[n]
        if self._arm_facts and n.get('k') in ('BinaryOperator', 'CallExpr'):
            af = self._arm_facts.get(f.s(n))
            if af is not None:
                saved = self._arm_facts
                self._arm_facts = {}
                try:
                    r0 = self._ev(n, point, depth)
                finally:
                    self._arm_facts = saved
                return meet(r0, af) if not r0.bot else r0
        if point is None:
            point = self.cfg.point(n)
        tr = type_range(n.get('t'))
        if 'v' in n and n['k'] != 'DeclRefExpr' or ('v' in n and n.get('dk') == 'enum'):
            return B.const(n['v'])
        if depth > MAXD:
            return B().clamp_type(tr)
        k = n['k']
        K = n['kids']
        if k in ('DeclRefExpr', 'MemberExpr') or (k == 'ArraySubscriptExpr') or (k == 'UnaryOperator' and n['op'] == '*'):
            if tr is None:
                return B()
            return self.var(f.s(n), n, point, depth)
        if k in ('ImplicitCastExpr', 'CStyleCastExpr'):
            sub = f.N[K[0]]
            sb = self._ev(sub, point, depth)
            if sb.bot:
                return sb
            if tr is None:
                return B()
            if sb.lo is not None and sb.hi is not None and sb.lo >= tr[0] and sb.hi <= tr[1]:
                return sb
            sr = type_range(sub.get('t'))
            if sr is not None and sr[0] >= tr[0] and sr[1] <= tr[1]:
                return sb.clamp_type(tr)
            if sb.lo is not None and sb.lo >= 0 and tr[1] >= (sr[1] if sr else 1 << 70):
                return sb.clamp_type(tr)
            return B().clamp_type(tr)
        if k == 'UnaryOperator':
            op = n['op']
            if op == '-':
                sb = self._ev(K[0], point, depth + 1)
                if sb.bot:
                    return sb
                return B(-sb.hi if sb.hi is not None else None, -sb.lo if sb.lo is not None else None).clamp_type(tr)
            if op == '!':
                return B(0, 1)
            if op in ('post++', 'post--'):
                return self._ev(K[0], point, depth + 1)
            if op == '+':
                return self._ev(K[0], point, depth + 1)
            return B().clamp_type(tr)
        if k == 'BinaryOperator':
            op = n['op']
            if op in CMP or op in ('&&', '||'):
                return B(0, 1)
            if op == ',':
                return self._ev(K[1], point, depth + 1)
            if op == '=':
                return self._ev(K[1], point, depth + 1)
            a = self._ev(K[0], point, depth + 1)
            b = self._ev(K[1], point, depth + 1)
            if a.bot or b.bot:
                return B(bot=True)
            r = B()
            if op == '+':
                r.lo = a.lo + b.lo if a.lo is not None and b.lo is not None else None
                r.hi = a.hi + b.hi if a.hi is not None and b.hi is not None else None
                # x + c  (c >= 0 const) keeps lower symbolic bounds, (c <= 0) keeps upper ones
                if b.lo is not None and b.lo >= 0:
                    r.lbs |= {('>=' if o == '>=' and b.lo == 0 else o, s) for (o, s) in a.lbs}
                if a.lo is not None and a.lo >= 0:
                    r.lbs |= b.lbs
                if b.hi is not None and b.hi <= 0:
                    r.ubs |= a.ubs
            elif op == '-':
                r.lo = a.lo - b.hi if a.lo is not None and b.hi is not None else None
                r.hi = a.hi - b.lo if a.hi is not None and b.lo is not None else None
                # y < x known symbolically  =>  x - y >= 1
                sa, sb2 = f.s(K[0]), f.s(K[1])
                if ('<', sa) in b.ubs or ('>', sb2) in a.lbs:
                    r.lo = 1 if r.lo is None else max(r.lo, 1)
                elif ('<=', sa) in b.ubs or ('>=', sb2) in a.lbs:
                    r.lo = 0 if r.lo is None else max(r.lo, 0)
                if b.lo is not None and b.lo >= 0:
                    r.ubs |= a.ubs
                    if b.lo > 0:
                        r.ubs |= {('<', s) for (o, s) in a.ubs}
                    if self._pure(f.N[K[0]]):
                        r.ubs.add(('<=' if b.lo == 0 else '<', f.s(K[0])))
            elif op == '*':
                if None not in (a.lo, a.hi, b.lo, b.hi):
                    ps = [a.lo * b.lo, a.lo * b.hi, a.hi * b.lo, a.hi * b.hi]
                    r.lo, r.hi = min(ps), max(ps)
                elif a.lo is not None and b.lo is not None and a.lo >= 0 and b.lo >= 0:
                    r.lo = a.lo * b.lo
            elif op == '/':
                if None not in (a.lo, a.hi, b.lo, b.hi) and (b.lo > 0 or b.hi < 0) and not (a.lo >= 0 and b.lo > 0):
                    # C division truncates towards zero and is monotone in each argument on a sign-constant divisor: the extremes are at the corners
                    def cdiv(x, y):
                        q = abs(x) // abs(y)
                        return q if (x >= 0) == (y > 0) else -q
                    ps = [cdiv(x, y) for x in (a.lo, a.hi) for y in (b.lo, b.hi)]
                    if a.lo < 0 < a.hi:
                        ps.append(0)
                    r.lo, r.hi = min(ps), max(ps)
                elif b.lo is not None and b.lo > 0 and a.lo is not None and a.lo >= 0:
                    r.lo = (a.lo // b.hi) if b.hi is not None else 0
                    r.hi = a.hi // b.lo if a.hi is not None else None
                    r.ubs |= {('<=', s) for (o, s) in a.ubs}
                    if self._pure(f.N[K[0]]):
                        r.ubs.add(('<=', f.s(K[0])))
            elif op == '%':
                if b.lo is not None and b.lo > 0:
                    if a.lo is not None and a.lo >= 0:
                        r.lo = 0
                        r.hi = b.hi - 1 if b.hi is not None else None
                        if a.hi is not None:
                            r.hi = a.hi if r.hi is None else min(r.hi, a.hi)
                        if self._pure(f.N[K[1]]):
                            r.ubs.add(('<', f.s(K[1])))
                            r.slo[f.s(K[1])] = b.lo
                    elif b.hi is not None:
                        r.lo, r.hi = -(b.hi - 1), b.hi - 1
                elif a.lo is not None and a.lo >= 0:
                    # C99: the result has the sign of the dividend and |a % b| <= a (b == 0 is undefined behaviour)
                    r.lo, r.hi = 0, a.hi
            elif op == '&':
                cands = [x.hi for x in (a, b) if x.lo is not None and x.lo >= 0 and x.hi is not None]
                if cands:
                    r.lo, r.hi = 0, min(cands)
            elif op == '|' or op == '^':
                if None not in (a.lo, a.hi, b.lo, b.hi) and a.lo >= 0 and b.lo >= 0:
                    r.lo, r.hi = 0, (1 << max(a.hi.bit_length(), b.hi.bit_length())) - 1
            elif op == '>>':
                if b.lo is not None and b.lo >= 0 and a.lo is not None and a.lo >= 0 and a.hi is not None:
                    r.lo, r.hi = 0, a.hi >> b.lo
                elif b.lo is not None and b.lo == b.hi and a.lo is not None and a.hi is not None:
                    r.lo, r.hi = a.lo >> b.lo, a.hi >> b.lo
            elif op == '<<':
                if None not in (a.lo, a.hi, b.lo, b.hi) and a.lo >= 0 and 0 <= b.lo and b.hi < 64:
                    r.lo, r.hi = a.lo << b.lo, a.hi << b.hi
            # wrap check
            if tr is not None:
                if r.lo is not None and r.hi is not None and (r.lo < tr[0] or r.hi > tr[1]):
                    return B().clamp_type(tr)
                if (r.lo is None) != (r.hi is None):
                    # one-sided: other side falls back to type range only when no wrap possible on the known side
                    pass
            return r.clamp_type(tr) if (r.lo is not None and r.hi is not None) else self._onesided(r, tr)
        if k == 'ConditionalOperator':
            c, x, y = K
            # facts the condition gives about compound sub-expressions (e.g. `(len - indx) > 512`) hold while the arm is evaluated
            def arm_eval(arm, pol):
                facts = {}
                for (l, op, r) in self.guard_facts(c, pol):
                    lu = f.unwrap(l) if isinstance(l, dict) else l
                    if r is not None and isinstance(lu, dict) and lu.get('k') in ('BinaryOperator', 'CallExpr') and self._pure(lu):
                        fb = self._fact_bounds(op, r, point, depth)
                        if not fb.bot:
                            facts[f.s(lu)] = fb
                saved = self._arm_facts
                self._arm_facts = dict(saved, **facts) if facts else saved
                try:
                    return self._ev(arm, point, depth + 1).copy()
                finally:
                    self._arm_facts = saved
            bx = arm_eval(x, True)
            by = arm_eval(y, False)
            # arms evaluated under the condition: min/max idioms
            for arm, pol, bb in ((x, True, bx), (y, False, by)):
                arm_s = self._lv_str(f.N[arm])
                for (l, op, r) in self.guard_facts(c, pol):
                    if r is not None and self._lv_str(l) == arm_s and self._pure(f.N[arm]):
                        fb = self._fact_bounds(op, r, point, depth)
                        nb = meet(bb, fb)
                        bb.lo, bb.hi, bb.ubs, bb.lbs = nb.lo, nb.hi, nb.ubs, nb.lbs
            # arm is a narrowing cast of a variable the condition bounds: (len > K) ? K : (int) len  -- apply the fact before the cast
            for arm, pol, bb in ((x, True, bx), (y, False, by)):
                an = f.N[arm]
                if an.get('k') in ('CStyleCastExpr', 'ImplicitCastExpr') and an.get('kids'):
                    inner = f.unwrap(an)
                    if inner.get('k') in ('DeclRefExpr', 'MemberExpr') and self._pure(inner):
                        vb = None
                        for (l, op, r) in self.guard_facts(c, pol):
                            if r is not None and self._lv_str(l) == self._lv_str(inner):
                                fb = self._fact_bounds(op, r, point, depth)
                                vb = meet(vb if vb is not None else self._ev(inner, point, depth + 1), fb)
                        if vb is not None and not vb.bot:
                            cb = self._through_cast(vb, inner.get('t'), an.get('t'))
                            nb = meet(bb, cb)
                            bb.lo, bb.hi, bb.ubs, bb.lbs = nb.lo, nb.hi, nb.ubs, nb.lbs
            # constant arm under a condition that bounds another expression from below: c ? K : e with c == (X > K2), K <= K2  =>  K <= X
            for arm, pol, bb in ((x, True, bx), (y, False, by)):
                cv = f.unwrap(f.N[arm]).get('v')
                if cv is None:
                    continue
                for (l, op, r) in self.guard_facts(c, pol):
                    if r is None or op not in ('>', '>='):
                        continue
                    rv = f.unwrap(r).get('v')
                    if rv is not None and self._pure(l) and (rv + (1 if op == '>' else 0)) >= cv:
                        bb.ubs.add(('<=', self._lv_str(l)))
            for arm, bb in ((x, bx), (y, by)):
                if self._pure(f.N[arm]):
                    s = f.s(arm)
                    bb.ubs.add(('<=', s))
                    bb.lbs.add(('>=', s))
            return join([bx, by])
        if k == 'CallExpr':
            cal = n.get('callee')
            inl = self._inline_call(n, point, depth)
            if inl is not None:
                return inl.clamp_type(tr)
            if cal in self.summaries:
                return self.summaries[cal](self, n, point, depth).clamp_type(tr)
            if cal in ('psf_fread', 'psf_fwrite', 'fread', 'fwrite'):
                # contract of the I/O primitives (C15 IO-RETURN decides it for psf_fread / psf_fwrite): 0 <= result <= items requested
                args_ = f.args(n)
                if len(args_) >= 3:
                    ib = self._ev(args_[2], point, depth + 1)
                    r_ = B(0, ib.hi if not ib.bot else None)
                    if self._pure(f.N[args_[2]] if isinstance(args_[2], int) else args_[2]):
                        r_.ubs.add(('<=', f.s(f.unwrap(args_[2]))))
                    return r_.clamp_type(tr)
            if cal in ('strlen',):
                return B(0, None).clamp_type(tr)
            if cal in ('abs', 'labs', 'llabs'):
                return B(0, None).clamp_type(tr)
            rr = self._ret_range(cal)
            if rr is not None:
                return B(rr[0], rr[1]).clamp_type(tr)
            return B().clamp_type(tr)
        if k == 'ParenExpr':
            return self._ev(K[0], point, depth)
        return B().clamp_type(tr)

    def _param_entry(self, X, depth):
        """numeric range of parameter X of a static function at entry: the join of what its callers pass (every caller is visible: the function is static and
        its address is never taken).  Symbolic bounds do not cross the call (other namespace).  None when X is no such parameter or nothing finite comes out."""
        f = self.fn
        if not f.static or depth > MAXD - 2:
            return None
        idx = [i for i, p_ in enumerate(f.params) if p_['n'] == X]
        if not idx:
            return None
        prog = self.prog
        cache = prog.__dict__.setdefault('_param_ranges', {})
        key = (f.name, f.file, X)
        if key in cache:
            return cache[key]
        cache[key] = None                      # recursion guard: a cycle contributes nothing
        sites = []
        for g in prog.all_fns():
            if g.file != f.file:
                continue
            for x in g.walk():
                if x['k'] == 'DeclRefExpr' and x.get('n') == f.name:
                    par = g.N[g.parent[x['id']]]
                    while par['k'] in ('ImplicitCastExpr', 'ParenExpr'):
                        x, par = par, g.N[g.parent[par['id']]]
                    if par['k'] != 'CallExpr' or par['kids'][0] != x['id']:
                        return None            # address taken: unknown callers
                    sites.append((g, par))
        if not sites:
            return None
        res = []
        for g, c in sites:
            a = g.args(c)
            if idx[0] >= len(a):
                return None
            pt = g.cfg.point(c)
            if pt is None:
                continue                       # unreachable call
            bd = self if g is f else Bounds(prog, g, self.eff if hasattr(self, 'eff') else None)
            b = bd.ev(g.N[a[idx[0]]] if isinstance(a[idx[0]], int) else a[idx[0]], pt)
            if b.bot or (b.lo is None and b.hi is None):
                return None
            res.append(B(b.lo, b.hi))
        if not res:
            return None
        r = join(res)
        cache[key] = r
        return r

    def _ret_range(self, cal):
        """numeric range of what a library function can return, whatever its arguments: join over its return statements, each evaluated
        in the callee with unknown parameters (clamp helpers, table look-ups, counters); None when nothing finite comes out"""
        prog = self.prog
        cache = prog.__dict__.setdefault('_ret_ranges', {})
        if cal in cache:
            return cache[cal]
        cache[cal] = None               # recursion guard
        gs = prog.fns.get(cal) or []
        if len(gs) != 1 or type_range(gs[0].ret) is None:
            return None
        g = gs[0]
        rets = [x for x in g.walk() if x['k'] == 'ReturnStmt' and x.get('kids')]
        if not rets or len(list(g.walk())) > 400:
            return None
        try:
            gb = Bounds(prog, g, self.eff)
            lo, hi = None, None
            for r_ in rets:
                pt = g.cfg.point(r_)
                if pt is None:
                    continue
                b = gb.ev_at(g.N[r_['kids'][0]], pt)
                if b.bot:
                    continue
                if b.lo is None or b.hi is None:
                    return None
                lo = b.lo if lo is None else min(lo, b.lo)
                hi = b.hi if hi is None else max(hi, b.hi)
        except Exception:
            return None
        tr = type_range(g.ret)
        if lo is None or (lo <= tr[0] and hi >= tr[1]):
            return None
        cache[cal] = (lo, hi)
        return cache[cal]

    def _inline_call(self, n, point, depth):
        """value of a call to a tiny pure helper whose body is `return <expr over one parameter>` (make_size_t, casts): bounds of the argument through the casts"""
        cal = n.get('callee')
        if not cal or cal not in self.prog.fns or depth > MAXD - 5:
            return None
        g = self.prog.fns[cal][0]
        body = g.N[g.body]
        ks = [x for x in g.kids(body) if x['k'] != 'NullStmt']
        if len(ks) != 1 or ks[0]['k'] != 'ReturnStmt' or not ks[0]['kids'] or len(g.params) != 1:
            return None
        e = g.unwrap(g.N[ks[0]['kids'][0]])
        if e['k'] == 'DeclRefExpr' and e['n'] == g.params[0]['n']:
            a = self.fn.args(n)[0]
            b = self._ev(a, point, depth + 1)
            if b.bot:
                return b
            # through the parameter type and the return type
            for t in (g.params[0]['t'], g.ret):
                trr = type_range(t)
                if trr is None:
                    return None
                if not (b.lo is not None and b.hi is not None and b.lo >= trr[0] and b.hi <= trr[1]):
                    return B().clamp_type(trr)
            return b
        return None

    def _field_invariant(self, node):
        """numeric range of a struct field from *all* its writers in the program, when every writer stores a value with constant bounds
        (flow-insensitive field invariant; calloc'd structs add 0)"""
        if node is None or node.get('k') != 'MemberExpr' or node.get('rec') in (None, 'sf_private_tag'):
            return None
        if str(node.get('rec')).upper().startswith('SF_'):
            return None         # public API types (SF_INFO, SF_FORMAT_INFO, SF_CHUNK_INFO ...): the caller writes them too
        key = (node.get('rec'), node['n'])
        cache = self.prog.__dict__.setdefault('_field_inv', {})
        if key in cache:
            return cache[key]
        cache[key] = None      # recursion guard
        lo, hi = 0, 0
        ok = True
        nw = 0
        for g in self.prog.all_fns():
            hits = [x for x in g.walk() if x['k'] in ('BinaryOperator', 'CompoundAssignOperator', 'UnaryOperator') and x.get('op') in ASSIGN_OPS | {'++', '--', 'post++', 'post--'}
                    and g.unwrap(g.N[x['kids'][0]])['k'] == 'MemberExpr' and (g.unwrap(g.N[x['kids'][0]]).get('rec'), g.unwrap(g.N[x['kids'][0]])['n']) == key]
            for x in hits:
                nw += 1
                if x['k'] != 'BinaryOperator' or x['op'] != '=':
                    ok = False
                    break
                gb = Bounds(self.prog, g, self.eff)
                gb._no_field_inv = True
                b = gb.ev(g.unwrap(g.N[x['kids'][1]]))
                if b.lo is None or b.hi is None or b.hi - b.lo > (1 << 24):
                    ok = False
                    break
                lo, hi = min(lo, b.lo), max(hi, b.hi)
            if not ok:
                break
        # address taken / memcpy into the struct would bypass the writers: require that the field is never the operand of &
        if ok and nw:
            for g in self.prog.all_fns():
                for x in g.walk():
                    if x['k'] == 'UnaryOperator' and x['op'] == '&':
                        y = g.unwrap(g.N[x['kids'][0]])
                        if y['k'] == 'MemberExpr' and (y.get('rec'), y['n']) == key:
                            ok = False
        cache[key] = B(lo, hi) if ok and nw else None
        return cache[key]

    def _onesided(self, r, tr):
        if tr is None:
            return r
        # a single known side is only trustworthy if the operation cannot wrap: we keep it for 64-bit and for
        # non-negative lower bounds; otherwise fall back to the type range
        return B(r.lo if r.lo is not None else tr[0], r.hi if r.hi is not None else tr[1], r.ubs, r.lbs)

    def ev_at(self, n, point):
        """bounds of (lvalue) node n as if it were read at `point`"""
        return self.ev(n, point)

    # ---- queries -----------------------------------------------------------------------------
    def le_const(self, n, c, point=None):
        b = self.ev(n, point)
        return b.hi is not None and b.hi <= c, b

    def ge_const(self, n, c, point=None):
        b = self.ev(n, point)
        return b.lo is not None and b.lo >= c, b

    def le_sym(self, n, s, strict=False, point=None):
        b = self.ev(n, point)
        if self.fn.s(n) == s and not strict:
            return True, b
        if ('<', s) in b.ubs or (not strict and ('<=', s) in b.ubs):
            return True, b
        return False, b

    # ---- reaching definitions ----------------------------------------------------------------
    def reaching_defs(self, X, point):
        """all definitions of lvalue string X that may reach `point`:
        list of ('def', op, rhs node id or None, assign node) | ('entry',) | ('call', call node)"""
        cfg = self.cfg
        f = self.fn
        is_member = ('->' in X or '.' in X)
        leaf = X.split('->')[-1].split('.')[-1].split('[')[0] if is_member else None
        addr = X in self.addr_taken
        out = []
        visited = set()
        work = [(point[0], point[1] - 1, True)]
        while work:
            b, start, first = work.pop()
            if not first:
                if b in visited:
                    continue
                visited.add(b)
            elems = cfg.blocks[b]['elems']
            if start is None:
                start = len(elems) - 1
            decided = False
            for j in range(min(start, len(elems) - 1), -1, -1):
                lst, calls = self.events[(b, j)]
                for (lv, n, op, rhs) in reversed(lst):
                    if lv == X:
                        out.append(('def', op, rhs, n))
                        decided = True
                        break
                if decided:
                    break
                for c in calls:
                    if self._call_kills(c, X, is_member, leaf, addr, None):
                        out.append(('call', c))
                        decided = True
                        break
                if decided:
                    break
            if decided:
                continue
            preds = cfg.preds.get(b, [])
            if b == cfg.entry or not preds:
                out.append(('entry',))
                continue
            for pb in preds:
                work.append((pb, None, False))
        return out
