"""UNION-INIT: a local union that is filled through a string / byte member and read through a scalar member is whole first.

`union { uint32_t marker ; char str [5] ; } u ; snprintf (u.str, sizeof (u.str), "%s", id) ; ... u.marker` reads all four
bytes of the scalar although a short id wrote fewer: the rest is whatever the stack held.  For every local union (not the
BUF_UNION staging buffers) one of whose array members is the destination of snprintf / strcpy / strncpy / memcpy /
psf_strlcpy and another, scalar, member of which is read afterwards: a full initialisation (`= { 0 }`, memset (&u, 0,
sizeof (u)), or an assignment to the scalar member) precedes the partial write on every path.
"""
from .util import assigned_lvalues

FILLERS = ('snprintf', 'strcpy', 'strncpy', 'memcpy', 'psf_strlcpy', 'sprintf')


def union_init(ctx, prog, rule='UNION-INIT'):
    n = 0
    for f in sorted(prog.lib_fns(), key=lambda f: (f.file, f.line)):
        for x in f.walk():
            if x['k'] != 'DeclStmt':
                continue
            for d in x.get('decls') or []:
                t = d.get('t') or ''
                if 'union' not in t or 'BUF_UNION' in t:
                    continue
                u = d['n']
                fills = [c for c in f.calls() if c.get('callee') in FILLERS and f.args(c) and f.s(f.unwrap(f.args(c)[0])).startswith(u + '.')]
                if not fills:
                    continue
                filled = {f.s(f.unwrap(f.args(c)[0])).split('[')[0] for c in fills}
                reads = [m for m in f.walk() if m['k'] == 'MemberExpr' and f.s(m).startswith(u + '.') and f.s(m) not in filled and '[' not in (m.get('t') or '')
                         and not any(f.unwrap(f.N[a['kids'][0]])['id'] == m['id'] for lv, a, r in assigned_lvalues(f) if lv == f.s(m))]
                if not reads:
                    continue
                n += 1
                whole = []
                if 'init' in d:
                    whole.append(x)
                for c in f.calls('memset'):
                    a0 = f.s(f.unwrap(f.args(c)[0])).replace(' ', '')
                    if a0 in ('&' + u, u):
                        whole.append(c)
                for lv, a, r in assigned_lvalues(f):
                    if lv.startswith(u + '.') and lv not in filled and '[' not in lv:
                        whole.append(a)
                first_fill = min(fills, key=lambda c: (c['l'], c['c']))
                ok = any(f.cfg.dominates(w, first_fill) for w in whole if f.cfg.point(w) is not None) or ('init' in d)
                ctx.ob(rule, '%s:%s' % (f.name, u), ok, f.loc(first_fill), 'union %s: %s writes %s, %s is read later; %s' % (u, first_fill['callee'], sorted(filled)[0], f.s(reads[0]),
                       'the union is initialised as a whole first' if ok else 'nothing initialises the union as a whole first: for a short string the remaining bytes of %s are stack residue (it ends up in the '
                       'file as part of a chunk id and decides whether a search by id matches)' % f.s(reads[0])), None)
    return n
