"""fixtures: tiny C files pushed through the same extractor; used as positive controls on every run"""
import collections, os
from .facts import extract_file, VERIF
from .model import Program

_cache = {}


def fixture_prog(name, flags=()):
    key = (name, tuple(flags))
    if key in _cache:
        return _cache[key]
    p = Program.__new__(Program)
    p.units = {}; p.fns = collections.defaultdict(list); p.records = {}; p.enums = {}; p.enum_groups = {}
    p.globals = []; p.protos = collections.defaultdict(list); p._slots = None; p._callers = None; p._src = {}
    p.info = {'units': 1, 'key': 'fixture'}
    p.add_unit(extract_file(os.path.join(VERIF, 'fixtures', name), flags))
    _cache[key] = p
    return p


def generic_fixture(ctx, checks):
    """positive controls for generic rules: run each (rule name, callable(fctx, prog)) on fixtures/generic_pos.c and require that exactly the
    bad_* function of that rule is reported (good_* stays silent).  Registers the outcome with ctx.fixture (a fixture that does not fire makes
    the whole check ANALYSIS-BROKEN)."""
    fp = fixture_prog('generic_pos.c')
    fp.lib_fns = fp.all_fns
    for rule, fn, want in checks:
        fctx = type(ctx)(ctx.pid, ctx.tier, fp)
        fctx.rule(rule, '')
        try:
            fn(fctx, fp)
            got = sorted({f['key'].split(':')[1] for f in fctx.findings if f['rule'] == rule})
        except Exception as e:      # noqa
            got = ['exception: %s' % e]
        ctx.fixture(rule, got == [want], 'fixtures/generic_pos.c: %s must be reported, its good_ twin must not (got %s)' % (want, got))

