"""fixtures: tiny C files pushed through the same extractor; used as positive controls on every run"""
import collections, os
from .facts import extract_file, VERIF
from .model import Program

_cache = {}


def fixture_prog(name, flags=()):
    key = (name, tuple(flags))
    if key in _cache:
        return _cache[key]
    p = Program.__new__(Program)
    p.units = {}; p.fns = collections.defaultdict(list); p.records = {}; p.enums = {}; p.enum_groups = {}
    p.globals = []; p.protos = collections.defaultdict(list); p._slots = None; p._callers = None; p._src = {}
    p.info = {'units': 1, 'key': 'fixture'}
    p.add_unit(extract_file(os.path.join(VERIF, 'fixtures', name), flags))
    _cache[key] = p
    return p
