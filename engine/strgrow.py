"""STR-GROW: the string storage of SF_PRIVATE is grown enough for what is copied into it.

psf_store_string copies str_len bytes to storage + storage_used.  When `storage_used + NEED > storage_len` it reallocates to
`newlen` and stores newlen into storage_len.  Obligation (linear arithmetic, no values): some lower bound L of newlen (an arm
of a max / conditional, or the assigned expression itself) satisfies  L - (storage_used + NEED) >= 0  for all non-negative
values of the variables, using the inductive invariant storage_used <= storage_len (old capacity)."""
from .bufacc import lin, ladd, lscale
from .util import assigned_lvalues


def _lower_bounds(f, n):
    """linear forms that are <= the value of expression n (max / conditional: each arm of `a > b ? a : b`; `x < c ? c : x`: x and c)"""
    n = f.unwrap(n)
    if n.get('k') == 'ConditionalOperator':
        c, a, b = [f.N[k] for k in n['kids']]
        cu = f.unwrap(c)
        sa, sb = f.s(f.unwrap(a)), f.s(f.unwrap(b))
        if cu.get('k') == 'BinaryOperator' and cu.get('op') in ('>', '>=', '<', '<='):
            l, r = f.s(f.unwrap(f.N[cu['kids'][0]])), f.s(f.unwrap(f.N[cu['kids'][1]]))
            ismax = (cu['op'] in ('>', '>=') and sa == l and sb == r) or (cu['op'] in ('<', '<=') and sa == r and sb == l)
            if ismax:
                return _lower_bounds(f, a) + _lower_bounds(f, b)
        return []          # a min or an unrelated conditional gives no usable lower bound
    try:
        return [lin(f, n)]
    except Exception:
        return []


def str_grow(ctx, prog, rule='STR-GROW'):
    f = prog.fn('psf_store_string', 'strings.c')
    USED, CAP = 'psf->strings.storage_used', 'psf->strings.storage_len'
    guard = None
    for n in f.walk():
        if n['k'] == 'IfStmt':
            cn = f.unwrap(f.N[n['cond']])
            if cn.get('k') == 'BinaryOperator' and cn.get('op') == '>' and f.s(f.unwrap(f.N[cn['kids'][1]])) == CAP and USED in f.s(cn['kids'][0]):
                guard = (n, lin(f, f.unwrap(f.N[cn['kids'][0]])))
    ctx.require(guard is not None, 'psf_store_string: growth guard `storage_used + ... > storage_len` not found')
    gnode, need = guard
    caps = [(a, r) for lv, a, r in assigned_lvalues(f, gnode['then']) if lv == CAP and r is not None]
    ctx.require(caps, 'psf_store_string: storage_len is not updated in the growth branch')
    newv = f.s(f.unwrap(caps[0][1]))
    # lower bounds of the new length: follow the assignments of the local (last assignment of the form `x = x < c ? c : x` keeps earlier bounds)
    LB = []
    for lv, a, r in assigned_lvalues(f, gnode['then']):
        if lv == newv and r is not None:
            lbs = _lower_bounds(f, r)
            lbs = [L for L in lbs if newv not in L] or LB      # self-reference (clamp from below): earlier bounds survive
            LB = lbs if lbs else LB
    for n in f.walk(gnode['then']):
        if n['k'] == 'DeclStmt':
            for d in n.get('decls', []):
                if d['n'] == newv and d.get('init') is not None and not LB:
                    LB = _lower_bounds(f, f.N[d['init']])
                elif d['n'] == newv and d.get('init') is not None:
                    first = _lower_bounds(f, f.N[d['init']])
                    if first and all(newv in str(L) for L in []):
                        pass
    # the declaration initialiser is the first definition
    for n in f.walk(gnode['then']):
        if n['k'] == 'DeclStmt':
            for d in n.get('decls', []):
                if d['n'] == newv and d.get('init') is not None:
                    LB = _lower_bounds(f, f.N[d['init']]) or LB
    # need with storage_used replaced by its upper bound storage_len (inductive invariant)
    target = dict(need)
    u = target.pop(USED, 0)
    target[CAP] = target.get(CAP, 0) + u
    ok = False
    why = []
    for L in LB:
        D = ladd(L, target, -1)
        neg = {k: v for k, v in D.items() if v < 0}
        why.append('%s - (%s) = %s' % (L, target, D))
        if not neg:
            ok = True
    ctx.ob(rule, 'psf_store_string:growth', ok, f.loc(gnode), 'new storage length has a lower bound that covers storage_used + needed for all sizes' if ok else
           'no lower bound of the new length covers storage_used + needed (tried: %s): the copy to storage + storage_used can run past the reallocated block' % '; '.join(why)[:300], None)
    # the copy itself goes to storage + storage_used with the length the guard accounted for
    cps = [c for c in f.calls('memcpy') if USED in f.s(f.args(c)[0])]
    ctx.ob(rule, 'psf_store_string:copy', bool(cps) and all(f.cfg.dominates(gnode, c) for c in cps), f.loc(cps[0]) if cps else f.loc(f.body), 'the copy into storage + storage_used comes after the growth step', None)
