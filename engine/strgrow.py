"""STR-GROW: the string storage of SF_PRIVATE is grown enough for what is copied into it.

psf_store_string copies str_len bytes to storage + storage_used.  When `storage_used + NEED > storage_len` it reallocates to
`newlen` and stores newlen into storage_len.  Obligation (linear arithmetic, no values): some lower bound L of newlen (an arm
of a max / conditional, or the assigned expression itself) satisfies  L - (storage_used + NEED) >= 0  for all non-negative
values of the variables, using the inductive invariant storage_used <= storage_len (old capacity)."""
from .bufacc import lin, ladd, lscale
from .util import assigned_lvalues


def _lower_bounds(f, n):
    """linear forms that are <= the value of expression n (max / conditional: each arm of `a > b ? a : b`; `x < c ? c : x`: x and c)"""
    n = f.unwrap(n)
    if n.get('k') == 'ConditionalOperator':
        c, a, b = [f.N[k] for k in n['kids']]
        cu = f.unwrap(c)
        sa, sb = f.s(f.unwrap(a)), f.s(f.unwrap(b))
        if cu.get('k') == 'BinaryOperator' and cu.get('op') in ('>', '>=', '<', '<='):
            l, r = f.s(f.unwrap(f.N[cu['kids'][0]])), f.s(f.unwrap(f.N[cu['kids'][1]]))
            ismax = (cu['op'] in ('>', '>=') and sa == l and sb == r) or (cu['op'] in ('<', '<=') and sa == r and sb == l)
            if ismax:
                return _lower_bounds(f, a) + _lower_bounds(f, b)
        return []          # a min or an unrelated conditional gives no usable lower bound
    try:
        return [lin(f, n)]
    except Exception:
        return []


def str_grow(ctx, prog, rule='STR-GROW'):
    pub = prog.fn('psf_store_string', 'strings.c')
    USED, CAP = 'psf->strings.storage_used', 'psf->strings.storage_len'
    # the growth step lives in psf_store_string or in a static helper of strings.c it calls: found by what it does (it stores a new storage_len)
    grp = [(pub, None)] + [(g, c) for c in pub.calls() for g in prog.fns.get(c.get('callee') or '', []) if g.static and g.file == pub.file]
    site = None
    for g, hc in grp:
        caps = [(a_, r_) for lv, a_, r_ in assigned_lvalues(g) if lv == CAP and r_ is not None]
        if caps:
            site = (g, hc, caps)
            break
    ctx.require(site is not None, 'psf_store_string: no store into strings.storage_len found (growth step)')
    f, hcall, caps = site
    # the comparison of storage_used + NEED with storage_len that sends control to the growth step: read off the CFG edges above the store,
    # so `if (need > cap) { grow }` and `if (need <= cap) return ; grow` are the same thing
    from .util import branch_facts
    guard = None
    for blk in f.cfg.blocks.values():
        if 'cond' not in blk:
            continue
        cn = f.unwrap(f.N[blk['cond']] if isinstance(blk['cond'], int) else blk['cond'])
        if cn.get('k') != 'BinaryOperator' or cn.get('op') not in ('>', '>=', '<', '<='):
            continue
        l_, r_ = f.unwrap(f.N[cn['kids'][0]]), f.unwrap(f.N[cn['kids'][1]])
        op = cn['op']
        if f.s(l_) == CAP and USED in f.s(r_):
            l_, r_, op = r_, l_, {'>': '<', '>=': '<=', '<': '>', '<=': '>='}[op]
        if f.s(r_) == CAP and USED in f.s(l_):
            # growth runs when need > cap (true edge of > / >=, false edge of <= / <): the store into storage_len is reachable over that edge only
            if len(blk['succs']) != 2:
                continue
            grow_si = 0 if op in ('>', '>=') else 1
            spt = f.cfg.point(caps[0][0])
            if spt is None:
                continue
            bid = blk['id']
            start = (bid, len(blk['elems']) - 1)
            via_grow = f.cfg.path_avoiding(start, {spt[0]}, set(), edge_ok=lambda b_, si_, _b=bid, _g=grow_si: not (b_ == _b and si_ != _g))
            via_other = f.cfg.path_avoiding(start, {spt[0]}, set(), edge_ok=lambda b_, si_, _b=bid, _g=grow_si: not (b_ == _b and si_ == _g))
            if via_grow is not None and via_other is None:
                guard = (f.N[blk['cond']] if isinstance(blk['cond'], int) else blk['cond'], lin(f, l_))
    ctx.require(guard is not None, 'psf_store_string: growth guard `storage_used + ... > storage_len` not found above the store into storage_len')
    gnode, need = guard
    newv = f.s(f.unwrap(caps[0][1]))
    # lower bounds of the new length: its definitions in source order up to the store (a clamp from below `x = x < c ? c : x` keeps earlier bounds)
    LB = []
    defs = []
    for n in f.walk():
        if n['k'] == 'DeclStmt':
            for d in n.get('decls', []):
                if d['n'] == newv and d.get('init') is not None and d['init'] >= 0:
                    defs.append(((n.get('l', 0), n.get('c', 0)), f.N[d['init']]))
    for lv, a_, r_ in assigned_lvalues(f):
        if lv == newv and r_ is not None and a_.get('op') == '=':
            defs.append(((a_.get('l', 0), a_.get('c', 0)), r_))
    stpos = (caps[0][0].get('l', 0), caps[0][0].get('c', 0))
    for pos, r_ in sorted(defs, key=lambda d_: d_[0]):
        if pos >= stpos:
            continue
        lbs = _lower_bounds(f, r_)
        if any(newv in L for L in lbs):
            # clamp from below `x = x < c ? c : x`: the new value is >= the old one, every earlier bound survives and c is one more
            LB = LB + [L for L in lbs if newv not in L]
        elif lbs:
            LB = lbs
        else:
            LB = []
    # need with storage_used replaced by its upper bound storage_len (inductive invariant)
    target = dict(need)
    u = target.pop(USED, 0)
    target[CAP] = target.get(CAP, 0) + u
    ok = False
    why = []
    for L in LB:
        D = ladd(L, target, -1)
        neg = {k: v for k, v in D.items() if v < 0}
        why.append('%s - (%s) = %s' % (L, target, D))
        if not neg:
            ok = True
    ctx.ob(rule, 'psf_store_string:growth', ok, f.loc(gnode), 'new storage length has a lower bound that covers storage_used + needed for all sizes' if ok else
           'no lower bound of the new length covers storage_used + needed (tried: %s): the copy to storage + storage_used can run past the reallocated block' % '; '.join(why)[:300], None)
    # the copy itself goes to storage + storage_used and comes after the growth step (after the call of the helper that holds it)
    cps = [c for c in pub.calls('memcpy') if USED in pub.s(pub.args(c)[0])]
    before = hcall if hcall is not None else gnode
    ctx.ob(rule, 'psf_store_string:copy', bool(cps) and all(pub.cfg.dominates(before, c) for c in cps), pub.loc(cps[0]) if cps else pub.loc(pub.body), 'the copy into storage + storage_used comes after the growth step', None)
