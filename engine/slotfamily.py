"""SLOT-FAMILY: the typed slots installed together come from one implementation family.

Wherever one straight-line group of statements (a switch arm, or a compound statement) assigns two or more of the typed
slots of one direction (read_short / read_int / read_float / read_double, or the write_ four), the functions installed
have the same stem: the name up to and including its last underscore (host_read_, replace_write_, pcm_read_, alac_write_).
A group that mixes stems pairs one sample type with another implementation (the fallback codec for float only, the
neighbouring codec's reader for int only): the file then holds / delivers a different encoding for that one type.
"""
from .util import assigned_lvalues

TYPED = {'read': ('read_short', 'read_int', 'read_float', 'read_double'), 'write': ('write_short', 'write_int', 'write_float', 'write_double')}


def _stem(name):
    return name[:name.rfind('_') + 1] if '_' in name else name


def slot_family(ctx, prog, rule='SLOT-FAMILY', directions=('read', 'write')):
    n = 0
    for f in sorted(prog.lib_fns(), key=lambda f: (f.file, f.line)):
        groups = {}
        for lv, a, r in assigned_lvalues(f):
            if r is None or a['k'] != 'BinaryOperator' or a.get('op') != '=':
                continue
            leaf = lv.split('->')[-1]
            d = next((d for d in directions if leaf in TYPED[d]), None)
            if d is None:
                continue
            tgt = f.unwrap(r)
            if tgt.get('k') != 'DeclRefExpr' or tgt.get('dk') != 'func':
                continue
            # the group: nearest enclosing compound statement / switch arm = the parent statement list
            par = f.parent.get(a['id'])
            while par is not None and f.N[par]['k'] not in ('CompoundStmt', 'CaseStmt', 'DefaultStmt'):
                par = f.parent.get(par)
            # statements of one switch arm hang below the switch body compound: split by the last case label above
            key = par
            if par is not None and f.N[par]['k'] == 'CompoundStmt':
                lab = None
                for st in f.kids(f.N[par]):
                    if st['k'] in ('CaseStmt', 'DefaultStmt'):
                        lab = st['id']
                    if st is a or f.within(a, st):
                        break
                key = (par, lab)
            groups.setdefault((d, key), []).append((leaf, tgt['n'], a))
        for (d, key), items in sorted(groups.items(), key=lambda kv: (kv[1][0][2]['l'], kv[1][0][2]['c'])):
            if len(items) < 2:
                continue
            n += 1
            stems = sorted(set(_stem(t) for _, t, _ in items))
            first = items[0][2]
            if len(stems) == 1:
                ctx.ob(rule, '%s@%d:%s' % (f.name, first['l'], d), True, f.loc(first), '%d %s slots from the family %s*' % (len(items), d, stems[0]), None)
            else:
                # name the odd one out
                cnt = {}
                for _, t, _ in items:
                    cnt[_stem(t)] = cnt.get(_stem(t), 0) + 1
                major = max(cnt, key=lambda s: cnt[s])
                odd = [(l, t, a) for l, t, a in items if _stem(t) != major]
                ctx.ob(rule, '%s@%d:%s' % (f.name, first['l'], d), False, f.loc(odd[0][2]), 'this group installs %s* in %s but %s in %s: one sample type is served by a different implementation than the others' % (
                    major, ', '.join(l for l, t, a in items if _stem(t) == major), odd[0][1], odd[0][0]), None)
    return n
