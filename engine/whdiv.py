"""WH-DIV: what a header writer divides by has been checked before any header writer can run.

A write-mode open calls the container's write_header before validate_sfinfo sees the caller's SF_INFO (that happens at the
end of psf_open_file).  Every integer division / modulo in a function installed in the write_header slot (or in a static
helper it calls) whose divisor is a caller-supplied SF_INFO field (psf->sf.samplerate, psf->sf.channels) therefore needs
that field to be refused when it is < 1 *before* the container is dispatched: in psf_open_file, on the branch taken for
SFM_WRITE (and SFM_RDWR on an empty file), a test that rejects `field < 1` - directly, or inside sf_format_check, whose
failure is turned into an error there - must lie on every path to the container's open call.
"""
from .util import assigned_lvalues

FIELDS = ('samplerate', 'channels')


def _rejects_lt1(f, cond_node, field, via=None):
    """does this condition, when true, include `...field < 1` (or <= 0) as a disjunct?"""
    cn = f.unwrap(cond_node)
    if cn.get('k') == 'BinaryOperator' and cn.get('op') == '||':
        return any(_rejects_lt1(f, f.N[k], field) for k in cn['kids'])
    if cn.get('k') == 'BinaryOperator' and cn.get('op') in ('<', '<='):
        l, r = f.unwrap(f.N[cn['kids'][0]]), f.unwrap(f.N[cn['kids'][1]])
        if l.get('k') == 'MemberExpr' and l['n'] == field and r.get('v') is not None:
            return (cn['op'] == '<' and r['v'] >= 1) or (cn['op'] == '<=' and r['v'] >= 0)
    return False


def wh_div(ctx, prog, rule='WH-DIV'):
    of = prog.fn('psf_open_file', 'sndfile.c')
    fc = prog.fn('sf_format_check', 'sndfile.c')
    # what sf_format_check refuses
    fc_rejects = set()
    for n in fc.walk():
        if n['k'] == 'IfStmt' and any(x['k'] == 'ReturnStmt' and x.get('kids') and fc.unwrap(fc.N[x['kids'][0]]).get('v') == 0 for x in fc.walk(fc.N[n['then']])):
            for fld in FIELDS:
                if _rejects_lt1(fc, fc.N[n['cond']], fld):
                    fc_rejects.add(fld)
    # the write-mode branch and the dispatch
    mode_if = None
    for n in of.walk():
        if n['k'] == 'IfStmt' and 'SFM_WRITE' in of.s(n['cond']) and 'filelength' in of.s(n['cond']):
            mode_if = n
            break
    ctx.require(mode_if is not None, 'psf_open_file: the branch for SFM_WRITE / SFM_RDWR on an empty file was not found')
    dispatch = [c for c in of.calls() if (c.get('callee') or '').endswith('_open') and any(a['k'] == 'SwitchStmt' for a in of.ancestors(c))]
    ctx.require(len(dispatch) >= 15, 'psf_open_file: only %d container open calls found' % len(dispatch))
    guards = {}
    for n in of.walk(of.N[mode_if['then']]):
        if n['k'] != 'IfStmt' or not any(x['k'] in ('GotoStmt', 'ReturnStmt') for x in of.walk(of.N[n['then']])):
            continue
        cs = of.s(n['cond'])
        for fld in FIELDS:
            if _rejects_lt1(of, of.N[n['cond']], fld):
                guards.setdefault(fld, n)
            elif 'sf_format_check' in cs and '== 0' in cs and fld in fc_rejects:
                guards.setdefault(fld, n)
    # divisions in the header writers
    tg = prog.slots.get(('sf_private_tag', 'write_header'), {})
    fns = []
    for name in sorted(tg):
        if name in ('NULL', '?') or name.startswith('@'):
            continue
        for f in prog.fns.get(name, []):
            fns.append(f)
            for c in f.calls():
                for g in prog.fns.get(c.get('callee') or '', []):
                    if g.static and g.file == f.file and g not in fns:
                        fns.append(g)
    n = 0
    for f in fns:
        k = 0
        for x in f.walk():
            if x['k'] not in ('BinaryOperator', 'CompoundAssignOperator') or x.get('op') not in ('/', '%', '/=', '%='):
                continue
            d = f.unwrap(f.N[x['kids'][1]])
            if d.get('k') != 'MemberExpr' or d['n'] not in FIELDS or not f.s(d).startswith('psf->sf.'):
                continue
            if 'double' in (f.N[x['kids'][0]].get('t') or '') or 'float' in (f.N[x['kids'][0]].get('t') or ''):
                continue            # floating division does not trap
            # a local test in the writer itself also discharges it
            local = any(a['k'] == 'IfStmt' and d['n'] in f.s(a['cond']) for a in f.ancestors(x))
            n += 1
            k += 1
            g = guards.get(d['n'])
            ok = local or g is not None
            ctx.ob(rule, '%s:%s#%d' % (f.name, d['n'], k), ok, f.loc(x), '`%s`: %s' % (f.s(x)[:50], ('tested in the writer itself' if local else 'psf_open_file refuses %s < 1 at %s before any container is opened for writing' % (d['n'], of.loc(g))) if ok else
                   'psf->sf.%s comes straight from the caller\'s SF_INFO: nothing on the write-open path refuses 0 before this header writer runs (validate_sfinfo only runs after it) - '
                   'sf_open (SFM_WRITE) with %s = 0 divides by zero' % (d['n'], d['n'])), None)
    return n
