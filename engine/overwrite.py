"""OWN-OVERWRITE: an owned pointer field is never overwritten by a fresh allocation while it may still hold one.

For every assignment `P->field = <fresh allocation>` (allocator closure of own.py) to a field of a heap object that is
released only at close (SF_PRIVATE and the codec / container private structs), every CFG path from the function entry to
the assignment must, since the last point where the field could be non-NULL, pass one of
    free (P->field)                 (or free of a local alias whose only definition is P->field)
    P->field = NULL
    a guard edge that implies P->field == NULL   (`if (x == NULL)`, the false edge of `if (x)`, `x == NULL && (x = ...)`)
or the function entry itself when the function runs at most once per handle before anything could have stored there:
it is not reachable from any public entry point other than the open functions, and the assignment is not inside a loop.
`x = realloc (x, ...)` replaces in place and is exempt.  Array-slot lvalues (`chunks [used].data`) and members of local
aggregates are other rules' business (ITER-BOUNDS / GROW-CAP, LOCAL-LEAK).
"""
from .bounds import Bounds
from .util import local_defs

# capacity-correlated tables: allocated under `count == 0`, the table pointer and its capacity are always set together
# (GROW-CAP / ITER-BOUNDS decide that pairing); NULL-ness of the pointer follows from the capacity test
CORRELATED = {('psf_store_read_chunk', 'pchk->chunks'): 'allocated under `pchk->count == 0`; count and chunks are only ever set together (C13 GROW-CAP)',
              ('psf_save_write_chunk', 'pchk->chunks'): 'allocated under `pchk->count == 0`; count and chunks are only ever set together (C13 GROW-CAP)'}


def _alts(f, node):
    """guard of `node` as a list of alternatives, each a dict {lvalue string: constant} of the equalities that must hold (DNF, equalities only)"""
    alts = [dict()]

    def cond_alts(cn, pol):
        cn = f.unwrap(cn)
        k = cn.get('k')
        if k == 'UnaryOperator' and cn.get('op') == '!':
            return cond_alts(f.N[cn['kids'][0]], not pol)
        if k == 'BinaryOperator' and cn.get('op') in ('&&', '||'):
            a, b = cond_alts(f.N[cn['kids'][0]], pol), cond_alts(f.N[cn['kids'][1]], pol)
            conj = (cn['op'] == '&&') == pol
            if conj:
                out = []
                for x in a:
                    for y in b:
                        if all(x.get(v, y[v]) == y[v] for v in y):
                            out.append(dict(x, **y))
                return out[:16] or [dict(X='#contradiction')]
            return (a + b)[:16]
        if k == 'BinaryOperator' and cn.get('op') in ('==', '!='):
            l, r = f.unwrap(f.N[cn['kids'][0]]), f.unwrap(f.N[cn['kids'][1]])
            if r.get('v') is not None and ((cn['op'] == '==') == pol):
                return [{f.s(l): r['v']}]
        return [dict()]
    cur = node
    for a in f.ancestors(node):
        if a['k'] == 'IfStmt':
            in_then = a.get('then') is not None and (f.within(cur, a['then']) or cur['id'] == a['then'])
            in_else = a.get('else') is not None and (f.within(cur, a['else']) or cur['id'] == a['else'])
            if in_then or in_else:
                ca = cond_alts(f.N[a['cond']], in_then)
                new = []
                for x in alts:
                    for y in ca:
                        if all(x.get(v, y[v]) == y[v] for v in y):
                            new.append(dict(x, **y))
                alts = new[:32]
    return alts


def _exclusive(f, a, b):
    A, Bb = _alts(f, a), _alts(f, b)
    if not A or not Bb:
        return True
    for x in A:
        for y in Bb:
            if not any(v in y and y[v] != x[v] for v in x):
                return False
    return True


def own_overwrite(ctx, prog, own, eff, rule='OWN-OVERWRITE'):
    api = [f.name for f in prog.lib_fns() if f.name.startswith('sf_') and f.name not in ('sf_open', 'sf_open_fd', 'sf_open_virtual') and f.file.endswith('/sndfile.c')]
    post_open = prog.reachable_from(api)
    # functions that can run more than once per open: called (transitively) from a call site that sits inside a loop
    in_loop_callees = set()
    for g in prog.lib_fns():
        for c in g.calls():
            if c.get('callee') and any(a['k'] in ('WhileStmt', 'ForStmt', 'DoStmt') for a in g.ancestors(c)):
                in_loop_callees.add(c['callee'])
    repeated = prog.reachable_from(sorted(in_loop_callees), resolve_slots=False) if in_loop_callees else set()
    n_inst = 0
    for (rec, fld), sites in sorted(own.owned_fields.items()):
        for (f, n, src) in sites:
            if n['k'] != 'BinaryOperator' or n.get('op') != '=':
                continue
            lhs = f.unwrap(f.N[n['kids'][0]])
            lv = f.s(lhs)
            if '[' in lv:
                continue
            if lhs['k'] == 'MemberExpr' and not lhs.get('arrow'):
                base = f.unwrap(f.N[lhs['kids'][0]])
                if base['k'] == 'DeclRefExpr' and base.get('dk') in ('var', 'local', None) and base['n'] not in [q['n'] for q in f.params]:
                    continue            # member of a local aggregate
            n_inst += 1
            key = '%s:%s' % (f.name, lv)
            if 'realloc' in (src or '') or any(c.get('callee') == 'realloc' for c in f.calls(root=n)):
                ctx.ob(rule, key + ':realloc', True, f.loc(n), '%s replaced in place by realloc' % lv, None)
                continue
            if (f.name, lv) in CORRELATED:
                # the written argument covers the allocation under `count == 0` only: every guard alternative of this store must contain that equality
                alts_ = _alts(f, n)
                if alts_ and all(any(k_.endswith('->count') and v_ == 0 for k_, v_ in a_.items()) for a_ in alts_):
                    ctx.ob(rule, key, True, f.loc(n), 'frozen: %s' % CORRELATED[(f.name, lv)], None)
                    continue
            bd = Bounds(prog, f, eff)
            defs = local_defs(f)
            aliases = {lv}
            for name, ds in defs.items():
                def keeps(d):
                    # the local still equals the field after this definition: `p = X->fld` or the chain `p = X->fld = ...`
                    if d is None:
                        return False
                    u = f.unwrap(d)
                    if f.s(u) == lv:
                        return True
                    return u.get('k') == 'BinaryOperator' and u.get('op') == '=' and f.s(f.unwrap(f.N[u['kids'][0]])) == lv
                if ds and all(keeps(d) for d in ds):
                    aliases.add(name)
            # also `a = lv = alloc` chains: the lhs local of an enclosing assignment is an alias after the site, not before
            cfg = f.cfg
            site = cfg.point(n)
            in_loop = any(a['k'] in ('WhileStmt', 'ForStmt', 'DoStmt') for a in f.ancestors(n))
            once = f.name not in post_open and not in_loop and f.name not in repeated
            prior = None
            if once:
                # a callee invoked earlier in this very function may already have stored an allocation into the field (e.g. the header reader,
                # before the defaults of the open function are applied): then "runs once" proves nothing, unless the two are mutually exclusive
                for c_ in f.calls():
                    if c_ is n or f.within(c_, n) or not (c_.get('callee') or prog.indirect_callee_slot(f, c_)):
                        continue
                    pc_ = cfg.point(c_)
                    if pc_ is None or not eff.call_may_write_field(f, c_, lhs.get('rec'), fld):
                        continue
                    reach = (pc_[0] == site[0] and pc_[1] < site[1]) or (pc_[0] != site[0] and cfg.path_avoiding(pc_, {site[0]}, set()) is not None)
                    if reach and not _exclusive(f, c_, n):
                        prior = c_
                        break
                if prior is not None:
                    once = False

            def elem_safe(eid):
                x = f.N[eid]
                for c in f.calls(root=x):
                    if c.get('callee') == 'free' and f.s(f.unwrap(f.args(c)[0])) in aliases:
                        return True
                for y in f.walk(x):
                    if y['k'] == 'BinaryOperator' and y.get('op') == '=' and f.s(f.unwrap(f.N[y['kids'][0]])) == lv and y is not n:
                        r = f.unwrap(f.N[y['kids'][1]])
                        if r.get('v') == 0:
                            return True
                return False

            def edge_null(pb, b):
                blk = cfg.blocks[pb]
                if 'cond' not in blk or len(blk['succs']) != 2 or blk.get('tk') == 'SwitchStmt' or blk['succs'][0] == blk['succs'][1]:
                    return False
                pol = blk['succs'][0] == b
                cn = f.N[blk['cond']]
                if f.unwrap(cn).get('op') in ('&&', '||') and blk['elems']:
                    cn = f.N[blk['elems'][-1]]
                for (l, op, r) in bd.guard_facts(cn, pol):
                    ls = bd._lv_str(l) if isinstance(l, dict) else None
                    if ls in aliases and op == '==' and (r is None or f.unwrap(r).get('v') == 0):
                        return True
                return False

            # backward search for an unsafe path to the entry
            seen = set()
            work = [(site[0], site[1] - 1)]
            unsafe = None
            while work and unsafe is None:
                b, start = work.pop()
                elems = cfg.blocks[b]['elems']
                hit = False
                for j in range(min(start, len(elems) - 1), -1, -1):
                    if elem_safe(elems[j]):
                        hit = True
                        break
                if hit:
                    continue
                preds = cfg.preds.get(b, [])
                if b == cfg.entry or not preds:
                    if not once:
                        unsafe = b
                    continue
                for pb in preds:
                    if edge_null(pb, b):
                        continue
                    if (pb, b) in seen:
                        continue
                    seen.add((pb, b))
                    work.append((pb, len(cfg.blocks[pb]['elems']) - 1))
            ok = unsafe is None
            ctx.ob(rule, key, ok, f.loc(n), '%s = %s: %s' % (lv, src, ('every path frees the old value, knows the field is NULL, or the function runs once per handle (%s)' % ('open path only, not in a loop' if once else 'guards found'))
                                                            if ok else 'a path reaches this assignment with a possibly live old allocation that is neither freed nor known to be NULL: the old block is lost (%s)' % (
                                                                'function reachable after open from the public API' if f.name in post_open else ('the earlier call %s in the same function may already have stored an allocation there' % (prior.get('callee') or 'through a hook') if prior is not None else 'inside a loop of the open path, or called from one'))), None)
    ctx.require(n_inst >= 30, 'only %d allocation stores into owned fields found' % n_inst)
