"""Rules over the block-codec worker functions (the `*_read_block` / `*_write_block` / `paf24_read` family).

FRAME-ALIGN : a worker that advances its block position by `count / channels` silently drops a partial frame; every
              caller therefore hands it whole frames: the caller's own request (frame aligned by the public
              wrappers), or a staging chunk whose capacity was rounded to a multiple of the channel count, or
              (frozen, evidence re-checked on every run) a codec whose channel count is restricted so that the
              constant capacity is always a multiple.
EOD-TAIL    : the end-of-data exit of a block read loop (zero fill the rest of the request and return) must not
              be taken while decoded samples are still buffered.
"""
import re
from .util import assigned_lvalues


def _is_channels(f, n):
    n = f.unwrap(n)
    return n.get('k') == 'MemberExpr' and n.get('n') == 'channels'


def frame_dividing_workers(prog):
    """{fn: (counter lvalue, numerator string, channels string, node)} for `X += E / <...channels>` with E a local/param"""
    out = {}
    for f in prog.lib_fns():
        for n in f.walk():
            if n['k'] == 'CompoundAssignOperator' and n.get('op') == '+=':
                r = f.unwrap(f.N[n['kids'][1]])
                if r.get('k') == 'BinaryOperator' and r.get('op') == '/' and _is_channels(f, f.N[r['kids'][1]]):
                    num = f.unwrap(f.N[r['kids'][0]])
                    if num.get('k') == 'DeclRefExpr':
                        out.setdefault(f, []).append((f.s(n['kids'][0]), f.s(num), f.s(f.N[r['kids'][1]]), n))
    return out


def _rounded(f, var):
    """is local `var` rounded down to a multiple of some `...channels` expression by an assignment in f?"""
    for (lv, n, rhs) in assigned_lvalues(f):
        if lv != var or rhs is None:
            continue
        r = f.s(rhs)
        if n['k'] == 'CompoundAssignOperator' and n['op'] == '-=' and re.match(r'^\(%s %% [\w>.\-]*channels\)$' % re.escape(var), r):
            return True
        if re.search(r'%% [\w>.\-]*channels\)', r) and ' - ' in r:
            return True
        if re.search(r'/ ([\w>.\-]*channels)\) \* \1\)', r):
            return True
    return False


def _restricted_le2(prog, codec_file):
    """evidence that the codec in `codec_file` only ever runs with 1 or 2 channels; returns (ok, text)"""
    facts = []
    ok = True
    if codec_file == 'ms_adpcm.c':
        tag, fld = 'SF_FORMAT_MS_ADPCM', 'wav_fmt->msadpcm.channels'
        inits = ('wavlike_msadpcm_init',)
    else:
        return False, 'no channel restriction known for %s' % codec_file
    fc = prog.fn('sf_format_check', 'sndfile.c')
    arms = [fc.s(n['cond']) for n in fc.walk() if n['k'] == 'IfStmt' and tag in fc.s(n['cond'])]
    good = [a for a in arms if '(info->channels <= 2)' in a or '((info->channels == 1) || (info->channels == 2))' in a]
    ok &= bool(arms) and len(good) == len(arms)
    facts.append('sf_format_check: %d/%d arms naming %s require channels <= 2' % (len(good), len(arms), tag))
    rf = prog.fn('wavlike_read_fmt_chunk', 'wavlike.c')
    want = '((%s < 1) || (%s > 2))' % (fld, fld)
    rej = [n for n in rf.walk() if n['k'] == 'IfStmt' and rf.s(n['cond']) == want and any(x['k'] == 'ReturnStmt' for x in rf.walk(n['then']))]
    ok &= bool(rej)
    facts.append('wavlike_read_fmt_chunk rejects %s: %s' % (want, bool(rej)))
    callers = set()
    for g in prog.lib_fns():
        for c in g.calls():
            if c.get('callee') in inits:
                callers.add(g.file.split('/')[-1])
    ok &= callers <= {'wav.c', 'w64.c'} and bool(callers)
    facts.append('%s called only from %s' % ('/'.join(inits), sorted(callers)))
    return ok, '; '.join(facts)


def frame_align(ctx, prog, rule='FRAME-ALIGN'):
    W = frame_dividing_workers(prog)
    ctx.require(len(W) >= 6, 'only %d frame-dividing block workers found' % len(W))
    byname = {}
    for f in W:
        byname.setdefault(f.name, []).append(f)
    for w in sorted(W, key=lambda f: (f.file, f.line)):
        # which parameter is the count?  the numerator must be bounded by it: take the int/sf_count_t parameter named len
        lenp = [i for i, q in enumerate(w.params) if q['n'] == 'len']
        if not lenp:
            # slot functions that divide their own (wrapper aligned) request or a block-bounded part of it
            nums = sorted({x[1] for x in W[w]})
            ctx.ob(rule, '%s:self' % w.name, True, w.loc(W[w][0][3]), 'divides %s by the channel count; no len parameter (not a worker)' % nums, None)
            continue
        li = lenp[0]
        is_slot = bool(w.params) and w.params[0]['t'].startswith('SF_PRIVATE') and len(w.params) == 3 and 'sf_count_t' in w.params[2]['t']
        if is_slot:
            for (lv, num, ch, n) in W[w]:
                # the chunk is min (block remainder * channels, len): both whole frames when len is
                ctx.ob(rule, '%s:%s' % (w.name, num), True, w.loc(n), 'slot function: `%s` is bounded by the request (whole frames by the public wrapper) and by a block remainder times the channel count' % num, None)
            continue
        for g in sorted(prog.lib_fns(), key=lambda f: (f.file, f.line)):
            if g.file != w.file:
                continue
            for k, c in enumerate(g.calls(w.name)):
                a = g.unwrap(g.args(c)[li])
                s = g.s(a)
                key = '%s<-%s#%d' % (w.name, g.name, k + 1)
                gl = [q['n'] for q in g.params if q['n'] == 'len']
                # (a) the caller's whole request
                if gl and s in ('len', '(int) len'):
                    ctx.ob(rule, key, True, g.loc(c), 'count is the caller\'s own request `len` (whole frames by the public wrapper)', None)
                    continue
                if a.get('k') == 'DeclRefExpr':
                    # (b) chunk variable: every assignment is min (len, CAP) / len / CAP
                    caps = set()
                    okform = True
                    for (lv, n, rhs) in assigned_lvalues(g):
                        if lv != s or rhs is None:
                            continue
                        r = g.unwrap(rhs)
                        if r.get('k') == 'ConditionalOperator':
                            for x in r['kids'][1:]:
                                xs = g.s(g.unwrap(g.N[x]))
                                if xs not in ('len', '(int) len'):
                                    caps.add(xs)
                        elif g.s(r) in ('len', '(int) len'):
                            pass
                        elif r.get('k') == 'IntegerLiteral' and r.get('v') == 0:
                            pass
                        else:
                            caps.add(g.s(r))
                    ok = True
                    why = []
                    if caps and _rounded(g, s):
                        why.append('chunk `%s` = min (len, %s) is rounded to whole frames before the call' % (s, ', '.join(sorted(caps))))
                        caps = set()
                    for cap in sorted(caps):
                        if _rounded(g, cap):
                            why.append('capacity `%s` is rounded to whole frames' % cap)
                        else:
                            rok, txt = _restricted_le2(prog, g.file.split('/')[-1])
                            cv = int(cap) if re.match(r'^\d+$', cap) else None
                            for (lv, n, rhs) in assigned_lvalues(g):
                                if lv == cap and rhs is not None and g.unwrap(rhs).get('v') is not None:
                                    cv = g.unwrap(rhs)['v']
                            if rok and cv is not None and cv % 2 == 0:
                                why.append('capacity `%s` = %d is even and the codec runs with 1 or 2 channels only (%s)' % (cap, cv, txt))
                            else:
                                ok = False
                                why.append('capacity `%s` is NOT a multiple of the channel count (%s): %s advances by count / channels, the partial frame at the end of every chunk is lost and the rest of the request is shifted' % (cap, txt if not rok else 'odd or unknown capacity', w.name))
                    if not caps:
                        why.append('chunk `%s` is always the whole request' % s)
                    ctx.ob(rule, key, ok, g.loc(c), '; '.join(why), None)
                    continue
                ctx.ob(rule, key, False, g.loc(c), 'count expression `%s` not recognised as whole frames' % s, None)


def eod_tail(ctx, prog, rule='EOD-TAIL'):
    n_inst = 0
    for f in sorted(prog.lib_fns(), key=lambda f: (f.file, f.line)):
        pp = [q['n'] for q in f.params if q['t'].rstrip().endswith('*') and q['n'] == 'ptr']
        if not pp:
            continue
        for n in f.walk():
            if n['k'] != 'IfStmt' or n.get('then') is None:
                continue
            ms = [c for c in f.calls(root=n['then']) if c.get('callee') == 'memset' and 'ptr' in f.s(f.args(c)[0])]
            rets = [x for x in f.walk(n['then']) if x['k'] == 'ReturnStmt']
            if not ms or not rets:
                continue
            loops = [a for a in f.ancestors(n) if a['k'] in ('WhileStmt', 'ForStmt', 'DoStmt')]
            if not loops:
                continue
            # is this the zero-fill itself (no nested if with memset)?  take the innermost such if only
            inner = [x for x in f.walk(n['then']) if x['k'] == 'IfStmt' and x is not n and any(c.get('callee') == 'memset' for c in f.calls(root=x['then']))]
            if inner:
                continue
            loop = loops[0]
            cond = f.s(n['cond'])
            # refill tests of the loop: ifs whose then-branch calls a function (decoder / reader) and does not return
            refills = []
            for x in f.walk(loop['body']):
                if x['k'] == 'IfStmt' and x is not n and x.get('then') is not None:
                    if f.within(n, x['then']) and False:
                        pass
                    zero = any(c.get('callee') == 'memset' for c in f.calls(root=x['then'])) and not f.within(n, x['then'])
                    calls = [c for c in f.calls(root=x['then']) if c.get('callee') not in ('memset', 'memcpy', 'psf_log_printf')]
                    incs = [lv for (lv, a, r) in assigned_lvalues(f, x['then'])]
                    if (calls or incs) and not zero:
                        refills.append(x)
            nested = [x for x in refills if f.within(n, x['then'])]
            conj = [x for x in refills if f.s(x['cond']) in cond and '&&' in cond]
            n_inst += 1
            key = '%s:%s' % (f.name, cond[:70])
            if nested:
                ctx.ob(rule, key, True, f.loc(n), 'end-of-data exit is nested under the buffer-exhausted test `%s`' % f.s(nested[0]['cond']), None)
                continue
            if conj:
                ctx.ob(rule, key, True, f.loc(n), 'end-of-data test conjoins the buffer-exhausted test `%s`' % f.s(conj[0]['cond']), None)
                continue
            # strict counter test: `counter > total` where the counter is incremented only under a refill test / in the decoder
            cn = f.unwrap(f.N[n['cond']])
            if cn.get('k') == 'BinaryOperator' and cn.get('op') == '>':
                cnt = f.s(cn['kids'][0])
                inc_here = [(lv, a) for (lv, a, r) in assigned_lvalues(f) if lv == cnt]
                under = all(any(f.within(a, x['then']) for x in refills) for (lv, a) in inc_here)
                fld = cnt.split('->')[-1]
                dec = []
                for x in refills:
                    for c in f.calls(root=x['then']):
                        g = prog.fn_opt(c.get('callee') or '', None) if c.get('callee') else None
                        if g is not None and any(lv.split('->')[-1] == fld for (lv, a, r) in assigned_lvalues(g)):
                            dec.append(g.name)
                if under and (inc_here or dec):
                    ctx.ob(rule, key, True, f.loc(n), 'strict test on `%s`, which is advanced only when the buffer is exhausted (%s): true only after a decode attempt past the last block' % (
                        cnt, 'in ' + ', '.join(sorted(set(dec))) if dec else 'under the refill test'), None)
                    continue
            ctx.ob(rule, key, False, f.loc(n), 'end-of-data exit `%s` is taken before the buffer-exhausted test%s: samples of the last decoded block that are still buffered are never delivered '
                   '(a request that ends inside the last block makes the next call return 0)' % (cond, (' `%s`' % f.s(refills[0]['cond'])) if refills else ''), None)
    ctx.require(n_inst >= 6, 'only %d end-of-data exits found in block read loops' % n_inst)


def _block_test(f, cond):
    """normal form of `(X + d) * S  op  F`  ->  (X string, d, S string, op, F string) or None"""
    from .bufacc import lin
    cn = f.unwrap(f.N[cond] if not isinstance(cond, dict) else cond)
    if cn.get('k') != 'BinaryOperator' or cn.get('op') not in ('>', '>=', '<', '<='):
        return None
    a, b = f.unwrap(f.N[cn['kids'][0]]), f.unwrap(f.N[cn['kids'][1]])
    op = cn['op']
    if a.get('k') != 'BinaryOperator' or a.get('op') != '*':
        return None
    x, s_ = f.unwrap(f.N[a['kids'][0]]), f.unwrap(f.N[a['kids'][1]])
    try:
        L = lin(f, x)
    except Exception:
        return None
    vars_ = [k for k, v in L.items() if k != '' and v]
    if len(vars_) != 1 or L[vars_[0]] != 1:
        return None
    return (vars_[0], L.get('', 0), f.s(s_), op, f.s(b))


def block_avail(ctx, prog, rule='BLOCK-AVAIL'):
    """reader-side `block past the end` test agrees with the consumer-side end-of-data test"""
    readers = {}
    for f in prog.lib_fns():
        # X++ on a private-struct field, then `if ((X + d) * S op F) { memset (own buffer) ; return }`
        incs = {}
        for lv, a, r in assigned_lvalues(f):
            if a['k'] == 'UnaryOperator' and a.get('op') in ('++', 'post++') and '->' in lv:
                incs.setdefault(lv, []).append(a)
        if not incs:
            continue
        for n in f.walk():
            if n['k'] != 'IfStmt' or n.get('then') is None:
                continue
            t = _block_test(f, n['cond'])
            if t is None or t[0] not in incs:
                continue
            ms = [c for c in f.calls(root=n['then']) if c.get('callee') == 'memset']
            rets = [x for x in f.walk(n['then']) if x['k'] == 'ReturnStmt']
            if not ms or not rets:
                continue
            ninc = sum(1 for a in incs[t[0]] if f.cfg.dominates(a, n))
            readers[f] = (t, ninc, n)
    consumers = {}
    for f in prog.lib_fns():
        for n in f.walk():
            if n['k'] != 'IfStmt' or n.get('then') is None:
                continue
            t = _block_test(f, n['cond'])
            if t is None:
                continue
            ms = [c for c in f.calls(root=n['then']) if c.get('callee') == 'memset' and 'ptr' in f.s(f.args(c)[0])]
            rets = [x for x in f.walk(n['then']) if x['k'] == 'ReturnStmt']
            if ms and rets:
                consumers.setdefault(f.file, []).append((f, t, n))
    n_inst = 0
    for r, (t, ninc, n) in sorted(readers.items(), key=lambda kv: (kv[0].file, kv[0].line)):
        cons = [c for c in consumers.get(r.file, []) if c[1][0].split('->')[-1] == t[0].split('->')[-1]]
        if not cons:
            continue
        n_inst += 1
        cf, ct, cn = cons[0]
        # reader test in terms of the counter value the consumer saw (before the reader's increment)
        rd = (t[1] + ninc, t[2], t[3], t[4])
        cd = (ct[1], ct[2], ct[3], ct[4])
        key = '%s~%s' % (r.name, cf.name)
        if rd == cd:
            ctx.ob(rule, key, True, r.loc(n), 'reader zero-fills exactly the blocks the consumer treats as past the end: (%s + %d) * %s %s %s in both' % (t[0].split('->')[-1], cd[0], cd[1], cd[2], cd[3]), None)
            continue
        if r.name == 'paf24_read_block':
            # frozen exception, evidence re-checked: in read mode the limit is a whole number of blocks, for which `(c + 1) * S > F` and `c * S >= F` coincide
            ini = prog.fn_opt('paf24_init', 'paf.c')
            ev = False
            if ini is not None:
                fr = [ini.s(rr) for lv, a, rr in assigned_lvalues(ini) if lv == 'psf->sf.frames' and rr is not None]
                sc = [ini.s(rr) for lv, a, rr in assigned_lvalues(ini) if lv.endswith('->sample_count') and rr is not None]
                ev = any('max_blocks' in x and '*' in x for x in fr) and 'psf->sf.frames' in sc
            ctx.ob(rule, key, ev, r.loc(n), 'frozen exception: reader tests (c + %d) * S %s F, consumer c * S %s F; equivalent because paf24_init sets sample_count = sf.frames = PAF24_SAMPLES_PER_BLOCK * max_blocks '
                   '(evidence found: %s); PAF24 in SFM_RDWR mode is outside this claim' % (rd[0], rd[2], cd[2], ev), None)
            continue
        ctx.ob(rule, key, False, r.loc(n), 'reader %s zero-fills a block when (c + %d) * %s %s %s, but its consumer %s only stops when (c + %d) * %s %s %s (c = blocks decoded so far): a final block that is '
               'only partly inside the data is handed out as zeros — the last frames of any stream whose length is not a whole number of blocks are lost' % (
                   r.name, rd[0], rd[1], rd[2], rd[3], cf.name, cd[0], cd[1], cd[2], cd[3]), None)
    ctx.require(n_inst >= 4, 'only %d reader/consumer pairs with a block-count end test found' % n_inst)
