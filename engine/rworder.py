"""RW-ORDER: a record that is serialised field by field is parsed in the same field order.

For each psf_binheader_writef call whose value arguments include two or more fields of one record type (other than
SF_PRIVATE), and each psf_binheader_readf call that fills the same set of fields of that record type - directly (&rec.f) or
through locals that the function then stores into the fields (rec.f = local) - the two field sequences are equal (writer and reader of one container: same source file, or one of them in wavlike.c).
Two fields of the same width written in one order and read in the other come back exchanged; nothing else notices.
"""
from collections import defaultdict
from .util import assigned_lvalues


def _field_of(f, u):
    while u.get('k') == 'UnaryOperator' and u.get('op') == '&':
        u = f.unwrap(f.N[u['kids'][0]])
    if u.get('k') == 'MemberExpr' and u.get('rec') not in (None, 'sf_private_tag'):
        return (u['rec'], u['n'])
    return None


def rw_order(ctx, prog, rule='RW-ORDER'):
    W, R = defaultdict(list), defaultdict(list)
    for f in sorted(prog.lib_fns(), key=lambda f: (f.file, f.line)):
        local2field = None
        for c in f.calls():
            cal = c.get('callee')
            if cal not in ('psf_binheader_writef', 'psf_binheader_readf'):
                continue
            seq = []
            for a in f.args(c)[2:]:
                u = f.unwrap(a)
                fo = _field_of(f, u)
                if fo is None and cal.endswith('readf'):
                    v = u
                    while v.get('k') == 'UnaryOperator' and v.get('op') == '&':
                        v = f.unwrap(f.N[v['kids'][0]])
                    if v.get('k') == 'DeclRefExpr':
                        if local2field is None:
                            local2field = defaultdict(set)
                            for lv, asg, r in assigned_lvalues(f):
                                if r is None or asg.get('op') != '=':
                                    continue
                                ru = f.unwrap(r)
                                lu = f.unwrap(f.N[asg['kids'][0]])
                                if ru.get('k') == 'DeclRefExpr' and lu.get('k') == 'MemberExpr' and lu.get('rec') not in (None, 'sf_private_tag'):
                                    local2field[ru['n']].add((lu['rec'], lu['n']))
                        tgt = local2field.get(v.get('n'), set())
                        if len(tgt) == 1:
                            fo = next(iter(tgt))
                seq.append(fo)
            for rec in {x[0] for x in seq if x}:
                s = tuple(x[1] for x in seq if x and x[0] == rec)
                if len(s) >= 2:
                    (W if cal.endswith('writef') else R)[rec].append((f, c, s))
    n = 0
    for rec in sorted(set(W) & set(R)):
        for (wf, wc, ws) in W[rec]:
            for (rf, rc, rs) in R[rec]:
                if set(ws) != set(rs) or len(ws) != len(rs):
                    continue
                if wf.file != rf.file and not (wf.file.endswith('wavlike.c') or rf.file.endswith('wavlike.c')):
                    continue            # another container's layout
                n += 1
                ok = ws == rs
                ctx.ob(rule, '%s:%s@%d~%s@%d' % (rec, wf.name, wc['l'], rf.name, rc['l']), ok, wf.loc(wc), '%s written as (%s) at %s, parsed as (%s) at %s%s' % (
                    rec, ', '.join(ws), wf.loc(wc), ', '.join(rs), rf.loc(rc), '' if ok else ': the order differs - fields of equal width come back exchanged'), None)
    return n
