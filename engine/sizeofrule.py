"""SIZEOF-MATCH: a bounded copy whose size argument is `sizeof (object)` names the object it writes to.

`snprintf (psf->file.dir, sizeof (psf->file.name), ...)` type-checks and is in bounds whenever name is the smaller of the
two, but it bounds the wrong object: silently truncating (or, the other way round, overflowing).  For every call of a sized
copy primitive whose size argument contains `sizeof (E)` with E an expression (not a type): E and the destination argument
designate the same object (array indices are ignored: `a[i].name` vs `a[].name`; a local pointer whose only definition is
the array counts as the array)."""
import re
from .util import local_defs

SIZED = {'snprintf': (0, 1), 'vsnprintf': (0, 1), 'psf_strlcpy': (0, 1), 'psf_strlcat': (0, 1), 'strncpy': (0, 2), 'strncat': (0, 2), 'memcpy': (0, 2),
         'memmove': (0, 2), 'memset': (0, 2), 'memcmp': (0, 2)}


def _norm(s):
    s = s.strip().replace(' ', '')
    while s.startswith('(') and s.endswith(')'):
        s = s[1:-1]
    s = re.sub(r'\[[^\]]*\]', '[]', s)
    return s.lstrip('&')


def sizeof_match(ctx, prog, rule='SIZEOF-MATCH', minimum=60):
    n = 0
    for f in sorted(prog.lib_fns(), key=lambda f: (f.file, f.line)):
        defs = None
        cnt = {}
        for c in f.calls():
            cal = c.get('callee')
            if cal not in SIZED:
                continue
            di, si = SIZED[cal]
            args = f.args(c)
            if si >= len(args):
                continue
            szs = [x for x in f.walk(f.unwrap(args[si])) if x['k'] == 'UnaryExprOrTypeTraitExpr' and x.get('ue') == 'sizeof' and x.get('ae')]
            if not szs:
                continue
            dn = f.unwrap(args[di])
            # destination `object + offset` bounded by `sizeof (object) - offset`: the object is the pointer operand
            while dn['k'] == 'BinaryOperator' and dn.get('op') == '+' and dn.get('t', '').rstrip().endswith('*'):
                a0, a1 = f.unwrap(f.N[dn['kids'][0]]), f.unwrap(f.N[dn['kids'][1]])
                dn = a0 if (a0.get('t', '').rstrip().endswith(('*', ']'))) else a1
            d = _norm(f.s(dn))
            cands = {d}
            if dn['k'] == 'DeclRefExpr':
                if defs is None:
                    defs = local_defs(f)
                ds = defs.get(dn['n'], [])
                if ds and all(x is not None for x in ds):
                    cands |= {_norm(f.s(f.unwrap(x))) for x in ds}
            # members of one union object share their storage: compare the union object instead
            unions = {r for r, v in prog.records.items() if v.get('union')} if hasattr(prog, 'records') else set()

            def un(x, fn=f):
                for nn in fn.walk():
                    if nn['k'] == 'MemberExpr' and nn.get('rec') in unions and _norm(fn.s(nn)) == x:
                        return _norm(fn.s(fn.N[nn['kids'][0]]))
                return x
            cands = cands | {un(x) for x in cands}
            for z in szs:
                ae = _norm(z['ae'])
                ae = un(ae)
                ok = any(ae == x or ae == '*' + x or ae == x + '[]' or (x.endswith('[]') and ae == x[:-2]) for x in cands)
                n += 1
                k = '%s:%s:%s' % (f.name, cal, d[:40])
                cnt[k] = cnt.get(k, 0) + 1
                ctx.ob(rule, '%s#%d' % (k, cnt[k]), ok, f.loc(c), '%s (%s, ... sizeof (%s))%s' % (cal, f.s(dn)[:50], z['ae'][:50], '' if ok else
                       ': the size bounds a different object than the destination (%d bytes) — truncation or overflow of the destination' % (z.get('v') or 0)), None)
    ctx.require(n >= minimum, 'only %d sized copies with sizeof (object) found' % n)
