"""A-OWN: allocation / ownership facts.  Allocator closure, owned struct fields, release sites, local leak paths,
guarded-release no-skip rule."""
from collections import defaultdict
from .util import local_defs, assigned_lvalues, null_edge_pruner

ALLOC = {'malloc', 'calloc', 'realloc', 'strdup', 'psf_memdup', 'fopen', 'psf_open_tmpfile', 'gsm_create'}
RELEASE = {'free': 0, 'fclose': 0, 'gsm_destroy': 0, 'psf_close': 0, 'realloc': 0}


def _alloc_src(f, rhs, retalloc, defs):
    """name of the allocator an rhs expression obtains its value from (through one local), or None"""
    r = f.unwrap(rhs)
    if r['k'] == 'BinaryOperator' and r['op'] == '=':
        r = f.unwrap(f.N[r['kids'][1]])
    if r['k'] == 'CallExpr' and r.get('callee') in retalloc:
        return r['callee'], r
    if r['k'] == 'DeclRefExpr' and r['dk'] == 'local':
        for d in defs.get(r['n'], []):
            if d is None:
                continue
            du = f.unwrap(d)
            if du['k'] == 'BinaryOperator' and du['op'] == '=':
                du = f.unwrap(f.N[du['kids'][1]])
            if du['k'] == 'CallExpr' and du.get('callee') in retalloc:
                return du['callee'], du
    return None, None


class Own:
    def __init__(self, prog):
        self.prog = prog
        self.retalloc = self._retalloc()
        self._owned = None

    def _retalloc(self):
        prog = self.prog
        ra = set(ALLOC)
        changed = True
        while changed:
            changed = False
            for f in prog.all_fns():
                if f.name in ra or not f.ret.rstrip().endswith('*'):
                    continue
                defs = local_defs(f)
                for r in f.cfg.returns():
                    if not r['kids']:
                        continue
                    src, _ = _alloc_src(f, f.N[r['kids'][0]], ra, defs)
                    if src:
                        ra.add(f.name)
                        changed = True
                        break
        return ra

    @property
    def owned_fields(self):
        """(rec, field) -> [(fn, assign node, allocator)] for struct fields that receive fresh allocations"""
        if self._owned is None:
            o = defaultdict(list)
            for f in self.prog.all_fns():
                defs = None
                for lv, n, rhs in assigned_lvalues(f):
                    if rhs is None or n['k'] != 'BinaryOperator' or n['op'] != '=':
                        continue
                    l = f.unwrap(f.N[n['kids'][0]])
                    if l['k'] != 'MemberExpr' or not l['t'].rstrip().endswith('*'):
                        continue
                    if defs is None:
                        defs = local_defs(f)
                    src, _ = _alloc_src(f, rhs, self.retalloc, defs)
                    if src:
                        o[(l.get('rec'), l['n'])].append((f, n, src))
            self._owned = o
        return self._owned

    def releases_in(self, f):
        """[(call node, (rec, field) or None, arg string)] for release calls in f"""
        out = []
        for c in f.calls():
            cal = c.get('callee')
            if cal in ('free', 'fclose', 'gsm_destroy', 'remove', 'close', 'psf_close_fd', 'psf_fclose'):
                args = f.args(c)
                if not args:
                    continue
                a = f.unwrap(args[0])
                key = None
                t = a
                while t['k'] == 'ArraySubscriptExpr':
                    t = f.unwrap(f.N[t['kids'][0]])
                if t['k'] == 'MemberExpr':
                    key = (t.get('rec'), t['n'])
                out.append((c, key, f.s(a)))
        return out

    # ---- local leaks -------------------------------------------------------------------------
    def local_leaks(self, f, sinks_extra=()):
        """allocations held by a local that may reach function exit unreleased.
        returns [(alloc call node, var name, witness blocks)]"""
        res = []
        defs = local_defs(f)
        # which locals hold allocations
        holders = []
        for n in f.walk():
            if n['k'] == 'DeclStmt':
                for d in n.get('decls', []):
                    if 'init' in d and d['init'] >= 0:
                        src, call = _alloc_src(f, f.N[d['init']], self.retalloc, {})
                        if src and f.unwrap(f.N[d['init']])['k'] in ('CallExpr', 'BinaryOperator'):
                            holders.append((d['n'], call, n))
            elif n['k'] == 'BinaryOperator' and n['op'] == '=':
                l = f.unwrap(f.N[n['kids'][0]])
                if l['k'] == 'DeclRefExpr' and l['dk'] == 'local':
                    r = f.unwrap(f.N[n['kids'][1]])
                    if r['k'] == 'CallExpr' and r.get('callee') in self.retalloc:
                        holders.append((l['n'], r, n))
        for var, call, at in holders:
            if call.get('callee') == 'realloc':
                continue  # handled by GROW-CAP style rules (old pointer kept on failure)
            # aliases: fields of *local aggregates* that receive the same pointer (chunk_info.data = var = malloc ())
            names = {var}
            for n in f.walk():
                if n['k'] == 'BinaryOperator' and n['op'] == '=':
                    l = f.unwrap(f.N[n['kids'][0]])
                    r = f.unwrap(f.N[n['kids'][1]])
                    if r['k'] == 'BinaryOperator' and r['op'] == '=':
                        r = f.unwrap(f.N[r['kids'][0]])
                    if r['k'] == 'DeclRefExpr' and r['n'] == var and l['k'] == 'MemberExpr' and not l['arrow']:
                        b = f.unwrap(f.N[l['kids'][0]])
                        if b['k'] == 'DeclRefExpr' and b['dk'] == 'local':
                            names.add(f.s(l))
            sinks = []
            for n in f.walk():
                k = n['k']
                if k == 'ReturnStmt' and n['kids']:
                    if any(x['k'] in ('DeclRefExpr', 'MemberExpr') and f.s(x) in names for x in f.walk(n['kids'][0])):
                        sinks.append(n)
                elif k == 'BinaryOperator' and n['op'] == '=':
                    l = f.unwrap(f.N[n['kids'][0]])
                    r = f.unwrap(f.N[n['kids'][1]])
                    if r['k'] in ('DeclRefExpr', 'MemberExpr') and f.s(r) in names and f.s(l) not in names:
                        sinks.append(n)   # stored elsewhere: ownership transferred (or aliased by another local)
                elif k == 'CallExpr':
                    cal = n.get('callee')
                    for ai, a in enumerate(f.args(n)):
                        au = f.unwrap(a)
                        if au['k'] in ('DeclRefExpr', 'MemberExpr') and f.s(au) in names:
                            if cal in RELEASE or cal in sinks_extra or self._captures(cal, ai):
                                sinks.append(n)
                        elif au['k'] == 'UnaryOperator' and au['op'] == '&' and f.s(au['kids'][0]) in names:
                            sinks.append(n)
            ok, w = f.cfg.must_pass(at, sinks, edge_ok=null_edge_pruner(f, names))
            if not ok:
                res.append((call, var, w))
        return res

    def _captures(self, cal, idx, _seen=None):
        """does callee store its idx-th parameter into a struct field / global, release it, or return it?"""
        _seen = _seen if _seen is not None else set()
        if (cal, idx) in _seen or cal not in self.prog.fns:
            return False
        _seen.add((cal, idx))
        for g in self.prog.fns[cal]:
            if idx >= len(g.params):
                continue
            pn = g.params[idx]['n']
            for n in g.walk():
                if n['k'] == 'BinaryOperator' and n['op'] == '=':
                    l = g.unwrap(g.N[n['kids'][0]])
                    r = g.unwrap(g.N[n['kids'][1]])
                    if r['k'] == 'DeclRefExpr' and r['n'] == pn and l['k'] != 'DeclRefExpr':
                        return True
                elif n['k'] == 'CallExpr':
                    for ai, a in enumerate(g.args(n)):
                        au = g.unwrap(a)
                        if au['k'] == 'DeclRefExpr' and au['n'] == pn:
                            if n.get('callee') in RELEASE or self._captures(n.get('callee'), ai, _seen):
                                return True
                elif n['k'] == 'ReturnStmt' and n['kids']:
                    r = g.unwrap(g.N[n['kids'][0]])
                    if r['k'] == 'DeclRefExpr' and r['n'] == pn:
                        return True
        return False

    # ---- guarded release no-skip -----------------------------------------------------------------
    def control_edges(self, f, blk, removed=frozenset()):
        """transitive control-dependence edges of block blk: set of (b, succ_index); `removed` = edges (b, si) ignored"""
        cfg = f.cfg

        def succ(b):
            return [s for si, s in enumerate(cfg.blocks[b]['succs']) if s is not None and (b, si) not in removed]

        preds = defaultdict(list)
        for b in cfg.blocks:
            for s in succ(b):
                preds[s].append(b)
        pdom = cfg._dominators(cfg.exit, lambda b: preds[b], succ)
        out = set()
        work = [blk]
        seen = set()
        while work:
            x = work.pop()
            if x in seen:
                continue
            seen.add(x)
            for b, bl in cfg.blocks.items():
                ss = [(si, s) for si, s in enumerate(bl['succs']) if s is not None and (b, si) not in removed]
                if len(ss) < 2:
                    continue
                for si, s in ss:
                    if s not in pdom:
                        continue
                    if (x == s or x in pdom.get(s, ())) and not (x != b and x in pdom.get(b, ())):
                        if b == x:
                            continue
                        if (b, si) not in out:
                            out.add((b, si))
                            work.append(b)
        return out

    def release_skippable(self, f, call):
        """Is there a path entry->exit that takes every *guard* edge of the release and still avoids the release?
        Guards = control-dependence edges computed on the CFG with early-exit edges removed (an early-exit branch is one whose two
        successors never rejoin before the function exit), plus early-exit branches evaluated before all of them (entry guards).
        Returns a witness block list or None."""
        cfg = f.cfg
        p = cfg.point(call)
        if p is None:
            return None

        def reach(b0):
            seen = set()
            st = [b0]
            while st:
                x = st.pop()
                if x in seen:
                    continue
                seen.add(x)
                st.extend(cfg.succs(x))
            return seen

        removed = set()
        early_cont = {}
        after = reach(p[0])
        for b, bl in cfg.blocks.items():
            ss = [(si, x) for si, x in enumerate(bl['succs']) if x is not None]
            if len(ss) != 2 or bl.get('tk') == 'SwitchStmt':
                continue
            r0, r1 = reach(ss[0][1]), reach(ss[1][1])
            # edge b->s is an early exit w.r.t. the release R iff R is unreachable from s, reachable from the other
            # successor, and nothing that follows R is reachable from s (s never rejoins R's continuation)
            if p[0] in r0 and p[0] not in r1 and (r1 & after) <= {cfg.exit}:
                removed.add((b, ss[1][0]))
                early_cont[b] = ss[0][0]
            elif p[0] in r1 and p[0] not in r0 and (r0 & after) <= {cfg.exit}:
                removed.add((b, ss[0][0]))
                early_cont[b] = ss[1][0]
        G = self.control_edges(f, p[0], frozenset(removed))
        sblocks = {b for (b, si) in G}
        dom = cfg.dom
        entry_guards = {(b, si) for b, si in early_cont.items() if b in dom.get(p[0], ()) and all(b in dom.get(sb, ()) for sb in sblocks)}
        need = frozenset(G | entry_guards)
        start = (cfg.entry, frozenset())
        prev = {start: None}
        work = [start]
        while work:
            st = work.pop()
            b, got = st
            if b == cfg.exit:
                if got == need:
                    path = []
                    x = st
                    while x is not None:
                        path.append(x[0])
                        x = prev[x]
                    return path[::-1]
                continue
            if b == p[0]:
                continue
            for si, s in enumerate(cfg.blocks[b]['succs']):
                if s is None:
                    continue
                g2 = got | {(b, si)} if (b, si) in need else got
                ns = (s, g2)
                if ns not in prev:
                    prev[ns] = st
                    work.append(ns)
        return None
