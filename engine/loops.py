"""LOOP-IO: every loop that reads must have an exit that depends on read progress, or a monotone bounded counter."""
from .bounds import Bounds, type_range
from .effects import ASSIGN_OPS

READS = {'psf_fread', 'psf_binheader_readf', 'psf_fgets', 'fread', 'read', 'header_read', 'header_gets', 'psf_fseek', 'psf_ftell'}
READ_DATA = {'psf_fread', 'psf_binheader_readf', 'psf_fgets', 'fread', 'read', 'header_read', 'header_gets'}


def loops_with_reads(prog, f, deep=None):
    """[(loop node, [read call nodes directly in the loop subtree])]; deep: set of library function names that (transitively) read"""
    out = []
    for n in f.walk():
        if n['k'] in ('WhileStmt', 'ForStmt', 'DoStmt'):
            calls = [c for c in f.calls(root=n) if c.get('callee') in READ_DATA or (deep and c.get('callee') in deep)]
            if calls:
                out.append((n, calls))
    return out


def exits_of(f, loop):
    """conditions that can leave the loop: the loop condition, and the conditions of ifs whose branch contains break/return/goto"""
    conds = []
    if 'cond' in loop:
        conds.append(f.N[loop['cond']])
    for n in f.walk(loop['body']):
        if n['k'] == 'IfStmt':
            leaves = False
            for br in ('then', 'else'):
                if br in n:
                    for x in f.walk(n[br]):
                        if x['k'] in ('BreakStmt', 'ReturnStmt', 'GotoStmt'):
                            # a break inside a nested loop/switch of the branch does not leave *this* loop; approximation: accept
                            leaves = True
            if leaves:
                conds.append(f.N[n['cond']])
    return conds


def _names(f, n):
    out = {f.s(x) for x in f.walk(n) if x['k'] in ('DeclRefExpr', 'MemberExpr')}
    if any(x['k'] == 'CallExpr' and x.get('callee') == 'psf_ftell' for x in f.walk(n)):
        out.add('#position')
    return out


def check_loop(prog, f, loop, reads, bd):
    """(ok, reason)"""
    # progress variables: results of reads, variables the read primitive overwrites (psf_binheader_readf zeroes numeric targets before
    # reading; explicit `v = 0` before psf_fread (&v ...)), and the stream position
    progress = {'#position'}
    for c in reads:
        p = f.parent.get(c['id'])
        node = c
        while p is not None and f.N[p]['k'] in ('CStyleCastExpr', 'ImplicitCastExpr', 'ParenExpr'):
            node = f.N[p]
            p = f.parent.get(p)
        if p is not None:
            pn = f.N[p]
            if pn['k'] == 'BinaryOperator' and pn['op'] == '=' and pn['kids'][1] == node['id']:
                progress.add(f.s(pn['kids'][0]))
            elif pn['k'] == 'BinaryOperator' and pn['op'] in ('<', '<=', '>', '>=', '==', '!='):
                progress.add('#direct:%d' % pn['id'])
            if pn['k'] == 'DeclStmt':
                for d in pn.get('decls', []):
                    if d.get('init') == node['id']:
                        progress.add(d['n'])
        for a in f.args(c):
            au = f.unwrap(a)
            if au['k'] == 'UnaryOperator' and au['op'] == '&':
                v = f.s(au['kids'][0])
                if c.get('callee') == 'psf_binheader_readf':
                    progress.add(v)
                else:
                    for n in f.walk(loop['body']):
                        if n['k'] == 'BinaryOperator' and n['op'] == '=' and f.s(n['kids'][0]) == v and f.unwrap(f.N[n['kids'][1]]).get('v') == 0 and f.cfg.dominates(n, c):
                            progress.add(v)
            elif au.get('t', '').rstrip().endswith(']') and c.get('callee') in ('psf_binheader_readf', 'psf_fgets', 'header_gets'):
                progress.add(f.s(au))
    condnames = _names(f, loop['cond']) if 'cond' in loop else set()
    if 'cond' in loop:
        for x in f.walk(loop['cond']):
            if x['k'] == 'CallExpr' and x.get('callee') in READ_DATA:
                return True, 'loop condition tests the result of %s directly' % x['callee']
    if condnames & progress:
        return True, 'loop condition tests read progress %s' % sorted(condnames & progress)
    # a body that ends in an unconditional break/return iterates only through `continue`: every continue must be controlled by read progress
    bk = f.kids(f.N[loop['body']]) if f.N[loop['body']]['k'] == 'CompoundStmt' else []
    if bk and bk[-1]['k'] in ('BreakStmt', 'ReturnStmt'):
        conts = [n for n in f.walk(loop['body']) if n['k'] == 'ContinueStmt']
        okc = True
        for n in conts:
            ctrl = set()
            for a in f.ancestors(n):
                if a['id'] == loop['id']:
                    break
                if a['k'] == 'IfStmt':
                    ctrl |= _names(f, a['cond'])
                if a['k'] == 'SwitchStmt':
                    ctrl |= _names(f, a['cond'])
            if not (ctrl & progress):
                okc = False
        if okc:
            return True, 'body ends in an unconditional %s; all %d continue statement(s) are controlled by read progress' % (bk[-1]['k'], len(conts))
    # leaving events: break / return / goto, and assignments to a local named in the loop condition
    body = loop['body']
    for n in f.walk(body):
        leaving = n['k'] in ('BreakStmt', 'ReturnStmt', 'GotoStmt')
        if n['k'] == 'BinaryOperator' and n['op'] == '=' and f.s(n['kids'][0]) in condnames:
            leaving = True
        if not leaving:
            continue
        ctrl = set()
        direct = False
        inner_loop = False
        for a in f.ancestors(n):
            if a['id'] == loop['id']:
                break
            if a['k'] in ('WhileStmt', 'ForStmt', 'DoStmt') and n['k'] == 'BreakStmt':
                inner_loop = True
            if a['k'] == 'SwitchStmt' and n['k'] == 'BreakStmt' and not any(b['k'] in ('WhileStmt', 'ForStmt', 'DoStmt') for b in []):
                # a break directly inside a switch leaves the switch, not the loop
                sw_break = True
                for b in f.ancestors(n):
                    if b['id'] == a['id']:
                        break
                    if b['k'] in ('WhileStmt', 'ForStmt', 'DoStmt'):
                        sw_break = False
                if sw_break:
                    inner_loop = True
            if a['k'] == 'IfStmt':
                ctrl |= _names(f, a['cond'])
                for x in f.walk(a['cond']):
                    if x['k'] == 'CallExpr' and x.get('callee') in READ_DATA:
                        direct = True
            if a['k'] == 'SwitchStmt':
                ctrl |= _names(f, a['cond'])
        if inner_loop:
            continue
        if direct or (ctrl & progress):
            return True, '%s at line %s is controlled by read progress %s' % (n['k'], n.get('l'), sorted(ctrl & progress) or 'read result')
    # monotone counter: loop condition compares a variable that every iteration moves by at least 1 towards the bound, without wrap
    conjuncts = []
    if 'cond' in loop:
        st = [f.unwrap(f.N[loop['cond']])]
        while st:
            x = st.pop()
            if x['k'] == 'BinaryOperator' and x['op'] == '&&':
                st += [f.unwrap(f.N[x['kids'][0]]), f.unwrap(f.N[x['kids'][1]])]
            else:
                conjuncts.append(x)
    for cn in conjuncts:
        cands = []
        if cn['k'] == 'BinaryOperator' and cn['op'] in ('<', '<=', '>', '>=', '!='):
            cands = [(f.unwrap(f.N[cn['kids'][0]]), f.unwrap(f.N[cn['kids'][1]]), cn['op']), (f.unwrap(f.N[cn['kids'][1]]), f.unwrap(f.N[cn['kids'][0]]), {'<': '>', '<=': '>=', '>': '<', '>=': '<=', '!=': '!='}[cn['op']])]
        elif cn['k'] in ('DeclRefExpr', 'MemberExpr'):
            cands = [(cn, None, '>')]
        elif cn['k'] == 'UnaryOperator' and cn['op'] in ('--', 'post--'):
            return True, 'loop condition decrements its own counter'
        for (v, bound, op) in cands:
            if v['k'] == 'BinaryOperator' and v.get('op') == '-':
                # `cursor - base < n` : the cursor is the counter when the base stands still in the loop (pointer iteration)
                a_, b_ = f.unwrap(f.N[v['kids'][0]]), f.unwrap(f.N[v['kids'][1]])
                if a_['k'] == 'DeclRefExpr' and b_['k'] == 'DeclRefExpr' and '*' in (a_.get('t') or '') and '*' in (b_.get('t') or '') and not any(
                        (x['k'] in ('BinaryOperator', 'CompoundAssignOperator') and x.get('op', '').endswith('=') and x.get('op') not in ('==', '!=', '<=', '>=') and f.s(x['kids'][0]) == f.s(b_)) or
                        (x['k'] == 'UnaryOperator' and x.get('op') in ('++', '--', 'post++', 'post--') and f.s(x['kids'][0]) == f.s(b_)) for x in f.walk(loop['id'])):
                    v = a_
            if v['k'] not in ('DeclRefExpr', 'MemberExpr'):
                continue
            vs = f.s(v)
            steps = []
            root = loop['body'] if loop['k'] != 'ForStmt' else loop['id']
            for n in f.walk(root):
                if n['k'] in ('CompoundAssignOperator',) and n['op'] in ('+=', '-=') and f.s(n['kids'][0]) == vs:
                    steps.append((n, n['op'], f.N[n['kids'][1]]))
                elif n['k'] == 'UnaryOperator' and n['op'] in ('++', '--', 'post++', 'post--') and f.s(n['kids'][0]) == vs:
                    steps.append((n, '+=' if '+' in n['op'] else '-=', None))
                elif n['k'] == 'BinaryOperator' and n['op'] == '=' and f.s(n['kids'][0]) == vs and loop['k'] == 'ForStmt' and f.within(n, loop.get('init', -1)):
                    continue
                elif n['k'] == 'BinaryOperator' and n['op'] == '=' and f.s(n['kids'][0]) == vs:
                    steps.append((n, '=', f.N[n['kids'][1]]))
            if not steps or any(s[1] == '=' for s in steps):
                continue
            want = '+=' if op in ('<', '<=', '!=') else '-='
            if any(s[1] != want for s in steps) and op != '!=':
                continue
            # at least one step is executed on every iteration (dominates the back edge): the for-increment, or a statement at top level of the body
            uncond = False
            amounts_ok = True
            for (n, sop, amt) in steps:
                top = f.parent.get(n['id']) == loop['body'] or (loop['k'] == 'ForStmt' and loop.get('inc') is not None and f.within(n, loop['inc']))
                pn = f.N[f.parent[n['id']]] if n['id'] in f.parent else None
                if pn is not None and pn['k'] == 'CompoundStmt' and pn['id'] == loop['body']:
                    top = True
                if amt is None:
                    lo = 1
                else:
                    b = bd.ev(f.unwrap(amt))
                    lo = b.lo
                if lo is None or lo < 0:
                    amounts_ok = False
                if top and lo is not None and lo >= 1:
                    uncond = True
            if not amounts_ok or not uncond:
                continue
            # no wrap before the bound: the counter type must be at least as wide as the bound's type (or the bound numerically small)
            vr = type_range(v.get('t'))
            if bound is not None and vr is not None:
                bb = bd.ev(bound)
                if bb.hi is None or bb.hi > vr[1]:
                    br = type_range(bound.get('t'))
                    if br is None or br[1] > vr[1]:
                        return False, 'counter %s (%s) is advanced every iteration but is narrower than its bound %s (%s): it can wrap before the loop ends' % (vs, v.get('t'), f.s(bound), bound.get('t'))
            return True, 'monotone counter %s with step >= 1' % vs
    return False, 'no exit depends on read progress and no monotone bounded counter found'
