"""Positive controls of the thorough tier.

For property P the controls are
  * controls/<commit>/   the reverse patch of every `fix:` commit recorded for P (the defect comes back), and
  * seeded/<P>-<n>/      the confirmed seeded changes written against P by the sub-agents,
each applied to a scratch copy of /repo's CURRENT src/ + include/ (outside /repo and /verif, removed afterwards) and
analysed by P's own quick check (same extractor, same rules, VERIF_REPO pointing at the copy).

expected = 'report'  (default)   the check must print a VIOLATION on the copy
expected = 'miss'    (EXPECT.json next to the patch, with the reason)  a documented blind spot: run, result recorded only

A control whose patch no longer applies to the working tree (because /repo changed there) is skipped and recorded.
A control that applies, is expected to be reported and is NOT reported means the checker lost power: the thorough
check then ends ANALYSIS-BROKEN (exit 2) unless the deciding step already found a violation on /repo itself.
Controls never produce a VIOLATION line: they test the checker, not /repo.
"""
import json, os, re, shutil, subprocess, tempfile
from concurrent.futures import ThreadPoolExecutor
from .facts import VERIF, REPO


def list_controls(pid):
    out = []
    for sub in ('controls', 'seeded'):
        root = os.path.join(VERIF, sub)
        if not os.path.isdir(root):
            continue
        for d in sorted(os.listdir(root)):
            dd = os.path.join(root, d)
            mp = os.path.join(dd, 'meta.json')
            if not os.path.exists(os.path.join(dd, 'patch.diff')) or not os.path.exists(mp):
                continue
            if os.path.exists(os.path.join(dd, 'OBSOLETE.json')):
                continue
            try:
                m = json.load(open(mp))
            except Exception:
                continue
            prop = m.get('property') or m.get('breaks_property')
            if sub == 'seeded':
                prop = d.split('-')[0]
            if prop != pid:
                continue
            exp = 'report'
            why = ''
            ep = os.path.join(dd, 'EXPECT.json')
            if os.path.exists(ep):
                e = json.load(open(ep))
                exp = e.get('expected', 'report')
                why = e.get('reason', '')
            out.append({'name': '%s/%s' % (sub, d), 'dir': dd, 'expected': exp, 'reason': why})
    return out


def run_one(pid, c):
    sc = tempfile.mkdtemp(prefix='sfverif-ctl-')
    try:
        for sub in ('src', 'include'):
            shutil.copytree(os.path.join(REPO, sub), os.path.join(sc, sub), symlinks=True)
        r = subprocess.run(['git', 'apply', os.path.join(c['dir'], 'patch.diff')], capture_output=True, text=True, cwd=sc)
        if r.returncode != 0:
            return dict(c, result='skipped', detail='patch does not apply to the current working tree')
        env = dict(os.environ)
        env.update({'VERIF_REPO': sc, 'VERIF_COMPDB_FROM': REPO, 'VERIF_CACHE': os.path.join(sc, '.cache'), 'VERIF_EVID': os.path.join(sc, 'evid'),
                    'VERIF_TIER': 'quick'})
        o = subprocess.run(['python3', '-m', 'engine.run', pid, '--tier', 'quick'], capture_output=True, text=True, cwd=VERIF, env=env)
        rules = re.findall(r'^  rule (\S+) at (\S+):', o.stdout, flags=re.M)
        if o.returncode == 1 and 'VIOLATION' in o.stdout:
            return dict(c, result='reported', detail='%s at %s' % rules[0] if rules else 'violation')
        if o.returncode == 2:
            return dict(c, result='broken', detail=o.stdout.strip()[:200])
        return dict(c, result='missed', detail='')
    finally:
        shutil.rmtree(sc, ignore_errors=True)


def run_controls(pid, jobs=6):
    cs = list_controls(pid)
    with ThreadPoolExecutor(max_workers=jobs) as ex:
        res = list(ex.map(lambda c: run_one(pid, c), cs))
    lost = [r for r in res if r['expected'] == 'report' and r['result'] in ('missed', 'broken')]
    return res, lost
