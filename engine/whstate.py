"""WH-STATE: a header writer changes nothing but the file geometry.

write_header hooks run an unpredictable number of times (open, every SFC_UPDATE_HEADER_NOW, every write in auto mode,
close).  A store into any other persistent state (a peak edit counter, a codec predictor, a string table) makes the bytes of
the finished file depend on how often the header was rewritten.  Every store / increment in a function installed in the
write_header slot goes to a local, to the header cache, to one of the geometry fields every writer recomputes from the
current file, or to one of the per-container fields listed below with the reason.
"""
from .util import assigned_lvalues

GEOMETRY = ('psf->datalength', 'psf->dataoffset', 'psf->filelength', 'psf->sf.frames', 'psf->dataend', 'psf->error', 'psf->endian', 'psf->rwf_endian', 'psf->bytewidth', 'psf->blockwidth')
LISTED = {
    'aiff_write_header': {'paiff->comm_offset': 'offset of the COMM chunk inside the header just written', 'paiff->ssnd_offset': 'offset of the SSND chunk inside the header just written'},
    'sds_write_header': {'psds->bitwidth': 'recomputed from the subformat each time', 'psds->write_count': 'restored to the value saved on entry after the pending block was flushed',
                         'psds->write_block': 'restored to the value saved on entry after the pending block was flushed'},
    'wav_write_header': {'psf->instrument->loop_count': 'clamped to what the smpl chunk can hold (idempotent)'},
    'xi_write_header': {'pxi->loop_begin': 'constant 0 written into the sample header', 'pxi->loop_end': 'constant 0 written into the sample header'},
}


def wh_state(ctx, prog, rule='WH-STATE'):
    n = 0
    tg = prog.slots.get(('sf_private_tag', 'write_header'), {})
    for name in sorted(tg):
        if name in ('NULL', '?') or name.startswith('@'):
            continue
        for f in prog.fns.get(name, []):
            locs = set(f.decls) if hasattr(f, 'decls') and isinstance(f.decls, dict) else set()
            bad = []
            k = 0
            for lv, a, r in assigned_lvalues(f):
                if '->' not in lv and '.' not in lv.split('[')[0] and not lv.startswith('*'):
                    continue            # local scalar
                base = lv.split('->')[0].split('.')[0].split('[')[0].lstrip('*(')
                if base not in [p_['n'] for p_ in f.params] and '->' not in lv:
                    continue            # member of a local aggregate
                k += 1
                if lv.startswith('psf->header.') or lv in GEOMETRY or lv in LISTED.get(name, {}):
                    continue
                bad.append((lv, a))
            n += 1
            if bad:
                for lv, a in bad:
                    ctx.ob(rule, '%s:%s' % (name, lv), False, f.loc(a), 'the header writer stores into `%s` (`%s`): that is not file geometry and not one of the listed per-container header fields - '
                           'the state now depends on how many times the header was written (every SFC_UPDATE_HEADER_NOW, every write in auto mode, close)' % (lv, f.s(a)[:60]), None)
            else:
                ctx.ob(rule, name, True, f.loc(f.body), '%d store(s) through pointers, all into the header cache, geometry fields or listed header fields' % k, None)
    return n
