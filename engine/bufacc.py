"""GUARDED-ACCESS: every access through a caller-supplied buffer (pointer, size) is covered by facts about the size.

For one function and one (pointer variable, size variable | entry facts) pair the module enumerates all accesses made
through the pointer (dereferences, member accesses, subscripts, libc copy primitives, calls that pass the pair on),
computes the byte extent each one needs as a linear form, and asks the A-PENT engine (bounds.py) whether the size is
known to be at least that extent at that program point, and whether the pointer is known non-NULL.
"""
import re
from .bounds import Bounds, B, meet
from .util import local_defs


# ---- linear forms: dict atom -> coef, '' -> constant ---------------------------------------------------
def ladd(a, b, k=1):
    r = dict(a)
    for x, c in b.items():
        r[x] = r.get(x, 0) + k * c
        if r[x] == 0 and x != '':
            del r[x]
    return r


def lscale(a, k):
    return {x: c * k for x, c in a.items() if c * k != 0 or x == ''}


def lconst(a):
    return a.get('', 0) if all(x == '' for x in a) else None


def lin(f, n):
    """linear form of integer expression node n (casts ignored); non-linear subtrees become atoms"""
    n = f.unwrap(n)
    if 'v' in n and not (n['k'] == 'DeclRefExpr' and n.get('dk') != 'enum'):
        return {'': n['v']}
    k = n['k']
    if k == 'BinaryOperator':
        op = n['op']
        a, b = n['kids']
        if op == '+':
            return ladd(lin(f, a), lin(f, b))
        if op == '-':
            return ladd(lin(f, a), lin(f, b), -1)
        if op == '*':
            la, lb = lin(f, a), lin(f, b)
            ca, cb = lconst(la), lconst(lb)
            if ca is not None:
                return lscale(lb, ca)
            if cb is not None:
                return lscale(la, cb)
    if k == 'ParenExpr':
        return lin(f, n['kids'][0])
    if k == 'DeclRefExpr' and n.get('dk') in ('local', 'var', None):
        # a local that only ever holds one folded constant (`const size_t fixed_size = offsetof (...)`) is that constant
        cv = _const_local(f, n['n'])
        if cv is not None:
            return {'': cv}
    return {f.s(n): 1}


def _const_local(f, name):
    cache = f.__dict__.setdefault('_const_locals', None)
    if cache is None:
        from .util import local_defs, assigned_lvalues
        cache = {}
        written = {lv for lv, a, r in assigned_lvalues(f)}
        taken = {f.s(f.unwrap(f.N[x['kids'][0]])) for x in f.walk() if x['k'] == 'UnaryOperator' and x.get('op') == '&'}
        params = {p_['n'] for p_ in f.params}
        for nm, ds in local_defs(f).items():
            if nm in params or nm in taken or len(ds) != 1 or ds[0] is None:
                continue
            d = f.unwrap(ds[0]) if isinstance(ds[0], dict) else f.unwrap(f.N[ds[0]])
            v = d.get('v')
            if v is None and isinstance(ds[0], dict):
                v = ds[0].get('v')
            # exactly one definition, and it is the initialiser (no later assignment)
            if v is not None and sum(1 for lv in written if lv == nm) == 0:
                cache[nm] = v
        f.__dict__['_const_locals'] = cache
    return cache.get(name)


_tok = re.compile(r'\s*(->|[()+\-*/]|[^()+\-*/\s]+)')


def lin_str(s):
    """parse a canonical expression string (as produced by Fn.s) into a linear form; unknown shapes become one atom"""
    s = s.strip()
    try:
        v = int(s)
        return {'': v}
    except ValueError:
        pass
    if s.startswith('(') and s.endswith(')'):
        # split top-level binary operator
        depth = 0
        inner = s[1:-1]
        for i, ch in enumerate(inner):
            if ch == '(':
                depth += 1
            elif ch == ')':
                depth -= 1
            elif depth == 0 and ch in '+-*/' and i > 0 and inner[i - 1] == ' ' and i + 1 < len(inner) and inner[i + 1] == ' ':
                l, r = inner[:i - 1], inner[i + 2:]
                if ch == '+':
                    return ladd(lin_str(l), lin_str(r))
                if ch == '-':
                    return ladd(lin_str(l), lin_str(r), -1)
                if ch == '*':
                    la, lb = lin_str(l), lin_str(r)
                    ca, cb = lconst(la), lconst(lb)
                    if ca is not None:
                        return lscale(lb, ca)
                    if cb is not None:
                        return lscale(la, cb)
                return {s: 1}
    return {s: 1}


def div_form(s):
    """'((S - a) / b)' or '(S / b)' -> (lin(S), a, b) else None"""
    s = s.strip()
    if not (s.startswith('(') and s.endswith(')')):
        return None
    inner = s[1:-1]
    depth = 0
    for i in range(len(inner) - 1, -1, -1):
        ch = inner[i]
        if ch == ')':
            depth += 1
        elif ch == '(':
            depth -= 1
        elif depth == 0 and ch == '/' and inner[i - 1] == ' ':
            num, den = inner[:i - 1], inner[i + 2:]
            try:
                b = int(den)
            except ValueError:
                return None
            ln = lin_str(num)
            return ln, b
    return None


class Access:
    def __init__(self, node, kind, extent, ptr_root, what):
        self.node, self.kind, self.extent, self.ptr_root, self.what = node, kind, extent, ptr_root, what


class BufAnalysis:
    """accesses through pointer variable `buf` (and its aliases) in function f"""

    def __init__(self, prog, f, buf, eff=None):
        self.prog, self.f, self.buf, self.eff = prog, f, buf, eff
        self.roots = {buf}
        defs = local_defs(f)
        # aliases: locals whose only definitions are (casts of) buf
        changed = True
        while changed:
            changed = False
            for name, ds in defs.items():
                if name in self.roots or not ds:
                    continue
                if all(d is not None and f.unwrap(d)['k'] == 'DeclRefExpr' and f.unwrap(d)['n'] in self.roots for d in ds):
                    self.roots.add(name)
                    changed = True
        # walking aliases: p = buf ; ... p++  (pointer walks) are treated separately
        self.walkers = set()
        for name, ds in defs.items():
            if name in self.roots:
                continue
            if ds and any(d is not None and f.unwrap(d)['k'] == 'DeclRefExpr' and f.unwrap(d)['n'] in self.roots for d in ds):
                self.walkers.add(name)

    def ptr_off(self, n):
        """(root name, byte offset linear form) if n is a pointer derived from buf, else None"""
        f = self.f
        n = f.unwrap(n)
        k = n['k']
        if k == 'DeclRefExpr':
            if n['n'] in self.roots:
                return n['n'], {'': 0}
            return None
        if k == 'BinaryOperator' and n['op'] in ('+', '-') and n.get('t', '').rstrip().endswith('*'):
            a, b = f.N[n['kids'][0]], f.N[n['kids'][1]]
            pa = self.ptr_off(a)
            if pa is not None:
                esz = n.get('psz', 1)
                return pa[0], ladd(pa[1], lscale(lin(f, b), esz), 1 if n['op'] == '+' else -1)
            pb = self.ptr_off(b)
            if pb is not None and n['op'] == '+':
                esz = n.get('psz', 1)
                return pb[0], ladd(pb[1], lscale(lin(f, a), esz))
            return None
        if k == 'MemberExpr' and n.get('t', '').rstrip().endswith(']'):
            if n['arrow']:
                pa = self.ptr_off(f.N[n['kids'][0]])
                if pa is not None:
                    return pa[0], ladd(pa[1], {'': n.get('off', 0)})
            return None
        if k == 'UnaryOperator' and n['op'] == '&':
            sub = f.unwrap(f.N[n['kids'][0]])
            if sub['k'] == 'MemberExpr' and sub['arrow']:
                pa = self.ptr_off(f.N[sub['kids'][0]])
                if pa is not None:
                    return pa[0], ladd(pa[1], {'': sub.get('off', 0)})
            if sub['k'] == 'UnaryOperator' and sub['op'] == '*':
                return self.ptr_off(f.N[sub['kids'][0]])
            if sub['k'] == 'ArraySubscriptExpr':
                pa = self.ptr_off(f.N[sub['kids'][0]])
                if pa is not None:
                    return pa[0], ladd(pa[1], lscale(lin(f, f.N[sub['kids'][1]]), sub.get('sz', 1)))
            return None
        return None

    def accesses(self):
        """list of Access; also 'calls' that pass the pointer on: (call node, arg index, offset)"""
        f = self.f
        out = []
        passes = []
        handled = set()
        for n in f.walk():
            k = n['k']
            if k == 'UnaryOperator' and n['op'] == '*':
                po = self.ptr_off(f.N[n['kids'][0]])
                if po is not None:
                    out.append(Access(n, 'deref', ladd(po[1], {'': n.get('sz', 1)}), po[0], f.s(n)))
                else:
                    sub = f.unwrap(f.N[n['kids'][0]])
                    if sub['k'] == 'DeclRefExpr' and sub['n'] in self.walkers:
                        out.append(Access(n, 'walk', {'#walk:' + sub['n']: 1, '': 0}, sub['n'], f.s(n)))
            elif k == 'MemberExpr' and n['arrow'] and not n.get('t', '').rstrip().endswith(']'):
                po = self.ptr_off(f.N[n['kids'][0]])
                if po is not None:
                    out.append(Access(n, 'member', ladd(po[1], {'': n.get('off', 0) + n.get('sz', 0)}), po[0], f.s(n)))
            elif k == 'ArraySubscriptExpr':
                po = self.ptr_off(f.N[n['kids'][0]])
                if po is not None:
                    idx = lin(f, f.N[n['kids'][1]])
                    out.append(Access(n, 'index', ladd(po[1], lscale(ladd(idx, {'': 1}), n.get('sz', 1))), po[0], f.s(n)))
            elif k == 'CallExpr':
                args = f.args(n)
                cal = n.get('callee')
                for ai, a in enumerate(args):
                    po = self.ptr_off(a)
                    if po is None:
                        continue
                    passes.append((n, ai, po))
        return out, passes


LEN_ARG = {  # callee -> {pointer arg index: length arg index}
    'memcpy': {0: 2, 1: 2}, 'memmove': {0: 2, 1: 2}, 'memcmp': {0: 2, 1: 2}, 'memset': {0: 2}, 'snprintf': {0: 1}, 'vsnprintf': {0: 1},
    'strncpy': {0: 2, 1: 2}, 'psf_strlcpy_crlf': {0: 2, 1: 3}, 'psf_strlcpy': {0: 1}, 'psf_strlcat': {0: 1}, 'strncmp': {0: 2, 1: 2},
    'psf_fread': None, 'psf_fwrite': None,
}
STRING_READERS = {'strlen': (0,), 'strcpy': (1,), 'strcmp': (0, 1), 'strstr': (0, 1), 'psf_log_printf': None, 'printf': None, 'strdup': (0,)}


class SizeFacts:
    """what is known about the size of the buffer at a program point"""

    def __init__(self, lo=None, eqs=(), lbs=()):
        self.lo = lo
        self.forms = []   # linear forms F with size >= F
        for s in list(eqs) + list(lbs):
            self.forms.append(lin_str(s))

    def covers(self, E, size_name):
        c = lconst(E)
        if c is not None:
            if c <= 0:
                return True
            if self.lo is not None and self.lo >= c:
                return True
            for F in self.forms:
                fc = lconst(F)
                if fc is not None and fc >= c:
                    return True
            return False
        # E == size + const<=0
        if size_name is not None:
            D = ladd(E, {size_name: 1}, -1)
            dc = lconst(D)
            if dc is not None and dc <= 0:
                return True
        for F in self.forms:
            D = ladd(E, F, -1)
            dc = lconst(D)
            if dc is not None and dc <= 0:
                return True
        return False


def check_buffer(prog, f, buf, size_name, eff, entry=None, depth=0, report=None, seen=None, entry_size=None, ctxname='', unit=1, rule='DATASIZE-DOM', nullrule='NULL-DOM', follow_slots=True):
    """check all accesses through `buf` in f.  size_name: variable holding the size in f (or None),
    entry: dict lvalue -> B facts holding at function entry (from the caller), entry_size: SizeFacts at entry when the size is not passed.
    report(kind, ok, fn, node, msg)"""
    seen = seen if seen is not None else set()
    key = (f.name, buf, size_name)
    if key in seen or depth > 4:
        return
    seen.add(key)
    bd = Bounds(prog, f, eff)
    bd.entry_facts = entry or {}
    ba = BufAnalysis(prog, f, buf, eff)
    accs, passes = ba.accesses()
    size_node = None
    buf_node = None
    for n in f.walk():
        if n['k'] == 'DeclRefExpr':
            if size_name and n['n'] == size_name and size_node is None:
                size_node = n
            if n['n'] == buf and buf_node is None:
                buf_node = n

    def size_facts(point):
        if size_name and size_node is not None:
            b = bd.ev_at(size_node, point)
            eqs = [s for (o, s) in b.lbs if o in ('>=',)]
            gts = [s for (o, s) in b.lbs if o == '>']
            sf = SizeFacts(b.lo, eqs, [])
            for s in gts:
                sf.forms.append(ladd(lin_str(s), {'': 1}))
            return sf, b
        return entry_size or SizeFacts(), None

    def nonnull(point, root):
        rn = None
        for n in f.walk():
            if n['k'] == 'DeclRefExpr' and n['n'] == root:
                rn = n
                break
        if rn is None:
            return False
        b = bd.ev_at(rn, point)
        return b.lo is not None and b.lo >= 1

    # "remaining request" idiom: the size variable is decremented by x wherever a running offset T is advanced by the same x
    # (len -= n ; total += n).  Offsets are then measured from ptr + T and compared with the *remaining* size.
    co_base = None
    if size_name:
        from .util import assigned_lvalues as _al
        decs = [(f.s(r) if r is not None else None) for (lv, n_, r) in _al(f) if lv == size_name and n_['k'] == 'CompoundAssignOperator' and n_['op'] == '-=']
        if decs:
            cands = {}
            for (lv, n_, r) in _al(f):
                if n_['k'] == 'CompoundAssignOperator' and n_['op'] == '+=' and r is not None and lv != size_name:
                    cands.setdefault(lv, []).append(f.s(r))
            from .util import local_defs as _ld
            _defs = _ld(f)

            def le_req(x, y):
                # x == y, or x is the result of a call that was asked for y items (callee contract: returns <= requested)
                if x == y:
                    return True
                for d in _defs.get(x, []):
                    if d is not None:
                        du = f.unwrap(d)
                        if du['k'] == 'CallExpr' and any(f.s(f.unwrap(a2)) == y for a2 in f.args(du)):
                            return True
                return False
            for lv, incs in cands.items():
                ds = [d for d in decs if d is not None]
                if len(incs) == len(ds) and all(any(le_req(x, y) for y in ds) for x in incs):
                    co_base = lv
            if co_base is None:
                co_base = '#size-variable-modified-without-matching-offset'

    if size_name and co_base is not None and not co_base.startswith('#') and entry and size_name in entry and entry[size_name].lo is not None and entry[size_name].lo >= 0:
        # remaining-request invariant: size >= 0 on entry, and every decrement d of the size variable is matched by an advance x of the
        # running offset with x == d or x the result of a call asked for d items (le_req above).  With chunk <= size proved below from
        # this very invariant (induction over the loop), the remaining request never becomes negative.
        bd.invariants = {size_name: B(0, None)}
        bd._memo.clear()

    if co_base == buf:
        co_base = None      # the caller pointer itself is advanced together with the remaining size: offsets are relative to it

    def scaled(E):
        if co_base is not None:
            E = dict(E)
            if co_base.startswith('#'):
                E[co_base] = 1
            else:
                cb = E.pop(co_base, 0)
                if cb != unit:
                    # the size variable holds the *remaining* request: an access that is not relative to ptr + T would need T == 0
                    E['#offset-not-measured-from-' + co_base] = 1
        if unit == 1:
            return E
        if any(c % unit for c in E.values()):
            return {'#not-a-multiple-of-the-element-size': 1}
        return {x: c // unit for x, c in E.items()}

    def substitute(E, point):
        E = scaled(E)
        """replace variable atoms of E by their upper bounds (numeric, symbolic, or division form) -> list of candidate forms"""
        cands = [E]
        for atom, coef in list(E.items()):
            if atom == '' or coef <= 0 or atom == size_name:
                continue
            # find a node for this atom
            an = None
            for n in f.walk():
                if n.get('t') and f.s(n) == atom and n['k'] in ('DeclRefExpr', 'MemberExpr', 'ArraySubscriptExpr', 'UnaryOperator'):
                    an = n
                    break
            if an is None:
                continue
            b = bd.ev_at(an, point)
            new = []
            for C in cands:
                if atom not in C:
                    new.append(C)
                    continue
                rest = {x: c for x, c in C.items() if x != atom}
                if b.hi is not None:
                    new.append(ladd(rest, {'': b.hi * coef}))
                for (o, s) in b.ubs:
                    df = div_form(s)
                    if df is not None and df[1] > 0 and coef <= df[1] and coef == df[1]:
                        # coef * atom <= coef * floor(num / b) <= num   when coef == b
                        new.append(ladd(rest, df[0]))
                    else:
                        new.append(ladd(rest, lscale(ladd(lin_str(s), {'': -1 if o == '<' else 0}), coef)))
                new.append(C)
            cands = new
        return cands

    for a in accs:
        point = f.cfg.point(a.node)
        sf, sb = size_facts(point)
        if a.kind == 'walk':
            # *p with p < (T*) buf + N  => extent N * sizeof (*p)
            pn = f.unwrap(f.N[a.node['kids'][0]])
            b = bd.ev_at(pn, point)
            ok = False
            for (o, s) in b.ubs:
                if o == '<':
                    F = lin_str(s)
                    for r in ba.roots:
                        if F.get(r) == 1:
                            ext = lscale({x: c for x, c in F.items() if x != r}, pn.get('psz', 1))
                            if sf.covers(ext, size_name):
                                ok = True
            report(rule, ok, f, a.node, 'pointer walk %s %s' % (a.what, 'bounded by the checked size' if ok else 'not bounded by the size facts (%r)' % b))
            continue
        ok = any(sf.covers(C, size_name) for C in substitute(a.extent, point))
        report(rule, ok, f, a.node, 'access %s needs %s byte(s); size facts: %s' % (a.what, fmt(a.extent), fmt_sf(sf, sb)))
        report(nullrule, nonnull(point, a.ptr_root), f, a.node, 'access %s: %s %s' % (a.what, a.ptr_root, 'proved non-NULL' if nonnull(point, a.ptr_root) else 'NOT proved non-NULL here'))

    for (c, ai, po) in passes:
        cal = c.get('callee')
        point = f.cfg.point(c)
        sf, sb = size_facts(point)
        args = f.args(c)
        if cal in LEN_ARG and LEN_ARG[cal] is not None and ai in LEN_ARG[cal]:
            ln = args[LEN_ARG[cal][ai]]
            E = ladd(po[1], lin(f, ln))
            ok = any(sf.covers(C, size_name) for C in substitute(E, point))
            report(rule, ok, f, c, '%s through %s needs %s byte(s); size facts: %s' % (cal, f.s(args[ai]), fmt(E), fmt_sf(sf, sb)))
            report(nullrule, nonnull(point, po[0]), f, c, '%s: %s %s' % (cal, po[0], 'proved non-NULL' if nonnull(point, po[0]) else 'NOT proved non-NULL here'))
            continue
        if cal in STRING_READERS and (STRING_READERS[cal] is None or ai in STRING_READERS[cal]):
            # NUL-terminated read: requires a dominating bounded terminating write (snprintf with size >= 1) to the same pointer
            ok = False
            for c2 in f.calls(('snprintf',)):
                a2 = f.args(c2)
                p2 = ba.ptr_off(a2[0])
                if p2 is not None and p2[1] == po[1] and f.cfg.dominates(c2, c) and c2['id'] != c['id']:
                    E1 = ladd(po[1], {'': 1})
                    if any(sf.covers(C, size_name) for C in substitute(E1, point)):
                        ok = True
            report('STR-TERM', ok, f, c, '%s (%s) reads a NUL-terminated string from the caller buffer: %s' % (
                cal, f.s(args[ai]), 'terminated by a dominating snprintf and size >= 1 known' if ok else 'no proof that size >= 1 (snprintf writes nothing for size 0) — reads beyond the size'))
            continue
        if cal in prog.fns and not follow_slots:
            # block mode: every (ptr, len) function is its own instance; a call passing ptr + off with the callee's `len` bound to n
            # is an access of off + n items
            callee = prog.fns[cal][0]
            li = [k2 for k2, q in enumerate(callee.params) if q['n'] in ('len', 'count', 'bufferlen', 'readcount', 'writecount')]
            if ai < len(callee.params) and li and li[0] < len(args):
                E = ladd(po[1], lscale(lin(f, args[li[0]]), unit))
                ok = any(sf.covers(C, size_name) for C in substitute(E, point))
                report(rule, ok, f, c, 'call %s with %s items at offset %s needs %s; size facts: %s' % (cal, f.s(args[li[0]]), fmt(po[1]), fmt(E), fmt_sf(sf, sb)))
            else:
                report(rule, False, f, c, 'caller buffer passed to %s without a recognisable length argument' % cal)
            continue
        if cal in prog.fns:
            callee = prog.fns[cal][0]
            if ai >= len(callee.params):
                report(rule, False, f, c, 'pointer passed to variadic position of %s' % cal)
                continue
            pbuf = callee.params[ai]['n']
            # which parameter receives the size?
            psize = None
            for aj, a in enumerate(args):
                if aj != ai and size_name and f.s(f.unwrap(a)) == size_name and aj < len(callee.params):
                    psize = callee.params[aj]['n']
            ent = {k2: v2 for k2, v2 in (entry or {}).items() if k2.startswith('psf->')}
            es = None
            if psize:
                b = sb if sb is not None else B()
                ent[psize] = b
            else:
                es = sf
            rn = [n for n in f.walk() if n['k'] == 'DeclRefExpr' and n['n'] == po[0]]
            if rn:
                ent[pbuf] = bd.ev_at(rn[0], point)
            if lconst(po[1]) != 0:
                report(rule, False, f, c, 'pointer with offset %s passed to %s: not analysed' % (fmt(po[1]), cal))
                continue
            check_buffer(prog, callee, pbuf, psize, eff, ent, depth + 1, report, seen, es, ctxname, unit, rule, nullrule, follow_slots)
            continue
        if cal is None and not follow_slots:
            continue
        if cal is None:
            # indirect call (container command hook): analyse every function in the slot
            sl = prog.indirect_callee_slot(f, c)
            if sl:
                for nm in sorted(prog.slot(sl[1], sl[0])):
                    callee = prog.fns[nm][0]
                    if ai < len(callee.params):
                        psize = None
                        for aj, a in enumerate(args):
                            if aj != ai and size_name and f.s(f.unwrap(a)) == size_name and aj < len(callee.params):
                                psize = callee.params[aj]['n']
                        check_buffer(prog, callee, callee.params[ai]['n'], psize, eff, {}, depth + 1, report, seen, None, ctxname, unit, rule, nullrule, follow_slots)
                continue
        report(rule, False, f, c, 'caller buffer passed to %s which is not modelled' % cal)


def fmt(E):
    parts = []
    for x, c in sorted(E.items()):
        if x == '':
            if c or len(E) == 1:
                parts.append(str(c))
        elif c == 1:
            parts.append(x)
        else:
            parts.append('%d*%s' % (c, x))
    return ' + '.join(parts) if parts else '0'


def fmt_sf(sf, b):
    return 'size >= %s%s' % (sf.lo, ''.join(' ; size >= %s' % fmt(F) for F in sf.forms[:3]))
