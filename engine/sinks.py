"""BOUNDED-SINK: every copy of a run-time length into fixed storage is bounded by the capacity of the destination."""
from .bounds import Bounds

ARGS = {'m': 1, 'h': 1, '1': 1, '2': 1, '3': 1, '4': 1, '8': 1, 'f': 1, 'd': 1, 's': 1, 'b': 2, 'G': 2, 'z': 1, 'p': 1, 'j': 1}


def readf_pairs(f, c):
    """[(dest node, count node)] for 'b' / 'G' specs of a psf_binheader_readf call"""
    args = f.args(c)
    if len(args) < 2:
        return []
    fmt = f.unwrap(args[1])
    if fmt['k'] != 'StringLiteral':
        return None
    out = []
    i = 2
    for ch in fmt.get('s', ''):
        n = ARGS.get(ch, 0)
        if ch in ('b', 'G') and i + 1 < len(args):
            out.append((args[i], args[i + 1]))
        i += n
    return out


def capacity(prog, f, dest):
    """(bytes, description) of the storage a destination expression points to, or (None, why)"""
    d = f.unwrap(dest)
    off = 0
    # &x, x (array), x + k, &x[k]
    for _ in range(6):
        k = d['k']
        if k == 'UnaryOperator' and d['op'] == '&':
            d = f.unwrap(f.N[d['kids'][0]])
            if d['k'] == 'ArraySubscriptExpr':
                idx = f.unwrap(f.N[d['kids'][1]])
                base = f.unwrap(f.N[d['kids'][0]])
                if 'v' in idx and 'alen' not in base:
                    pass
                if 'v' in idx:
                    off += idx['v'] * d.get('sz', 1)
                    d = base
                    continue
                return None, 'subscripted destination with non-constant index'
            continue
        if k == 'BinaryOperator' and d['op'] == '+' and d.get('t', '').rstrip().endswith('*'):
            b = f.unwrap(f.N[d['kids'][1]])
            if 'v' in b:
                off += b['v'] * d.get('psz', 1)
                d = f.unwrap(f.N[d['kids'][0]])
                continue
            return None, 'pointer arithmetic with non-constant offset'
        break
    t = d.get('t', '')
    if t.rstrip().endswith(']') and 'sz' in d:
        return d['sz'] - off, f.s(d)
    if d['k'] in ('DeclRefExpr', 'MemberExpr') and not t.rstrip().endswith('*') and 'sz' in d:
        return d['sz'] - off, f.s(d)
    return None, 'destination %s is a pointer (capacity not visible here)' % f.s(d)


def check_sinks(ctx, prog, eff, rule, fns, skip=()):
    n = 0
    for f in fns:
        sinks = []
        for c in f.calls():
            cal = c.get('callee')
            args = f.args(c)
            if cal == 'psf_binheader_readf':
                pr = readf_pairs(f, c)
                for (d, cnt) in (pr or []):
                    sinks.append((c, d, cnt, 1, 'header bytes'))
            elif cal in ('psf_fread', 'fread') and len(args) >= 3:
                sinks.append((c, args[0], args[2], f.unwrap(args[1]).get('v'), 'read'))
            elif cal in ('memcpy', 'memmove', 'memset', 'strncpy') and len(args) >= 3:
                sinks.append((c, args[0], args[2], 1, cal))
            elif cal in ('snprintf', 'vsnprintf') and len(args) >= 2:
                sinks.append((c, args[0], args[1], 1, cal))
            elif cal == 'psf_fgets' and len(args) >= 2:
                sinks.append((c, args[0], args[1], 1, cal))
        if not sinks:
            continue
        bd = Bounds(prog, f, eff)
        k = 0
        for (c, d, cnt, esz, what) in sinks:
            cap, desc = capacity(prog, f, d)
            if cap is None:
                continue      # destination is a pointer: handled by the guarded-access rules of the owning property
            k += 1
            n += 1
            key = '%s:%s@%d' % (f.name, what.replace(' ', '_'), k)
            if key in skip:
                continue
            cu = f.unwrap(cnt)
            b = bd.ev(cu)
            if esz is None:
                esz = 1
            ok = b.hi is not None and b.hi * esz <= cap and (b.lo is None or b.lo >= 0 or True)
            ctx.ob(rule, key, ok, f.loc(c), '%s of %s x %d byte(s) into %s (%d bytes): count %s' % (what, f.s(cu), esz, desc, cap, 'bounded by %s' % b.hi if ok else 'NOT bounded (%r)' % b), None)
    return n
