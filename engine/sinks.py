"""BOUNDED-SINK: every copy of a run-time length into fixed storage is bounded by the capacity of the destination."""
from .bounds import Bounds

ARGS = {'m': 1, 'h': 1, '1': 1, '2': 1, '3': 1, '4': 1, '8': 1, 'f': 1, 'd': 1, 's': 1, 'b': 2, 'G': 2, 'z': 1, 'p': 1, 'j': 1}


def readf_pairs(f, c):
    """[(dest node, count node)] for 'b' / 'G' specs of a psf_binheader_readf call"""
    args = f.args(c)
    if len(args) < 2:
        return []
    fmt = f.unwrap(args[1])
    if fmt['k'] != 'StringLiteral':
        return None
    out = []
    i = 2
    for ch in fmt.get('s', ''):
        n = ARGS.get(ch, 0)
        if ch in ('b', 'G') and i + 1 < len(args):
            out.append((args[i], args[i + 1]))
        i += n
    return out


def capacity(prog, f, dest):
    """(bytes, description) of the storage a destination expression points to, or (None, why)"""
    d = f.unwrap(dest)
    off = 0
    # &x, x (array), x + k, &x[k]
    for _ in range(6):
        k = d['k']
        if k == 'UnaryOperator' and d['op'] == '&':
            d = f.unwrap(f.N[d['kids'][0]])
            if d['k'] == 'ArraySubscriptExpr':
                idx = f.unwrap(f.N[d['kids'][1]])
                base = f.unwrap(f.N[d['kids'][0]])
                if 'v' in idx and 'alen' not in base:
                    pass
                if 'v' in idx:
                    off += idx['v'] * d.get('sz', 1)
                    d = base
                    continue
                return None, 'subscripted destination with non-constant index'
            continue
        if k == 'BinaryOperator' and d['op'] == '+' and d.get('t', '').rstrip().endswith('*'):
            b = f.unwrap(f.N[d['kids'][1]])
            if 'v' in b:
                off += b['v'] * d.get('psz', 1)
                d = f.unwrap(f.N[d['kids'][0]])
                continue
            return None, 'pointer arithmetic with non-constant offset'
        break
    t = d.get('t', '')
    if t.rstrip().endswith(']') and 'sz' in d:
        return d['sz'] - off, f.s(d)
    if d['k'] in ('DeclRefExpr', 'MemberExpr') and not t.rstrip().endswith('*') and 'sz' in d:
        return d['sz'] - off, f.s(d)
    return None, 'destination %s is a pointer (capacity not visible here)' % f.s(d)


def _linear_extent(prog, f, dest, cnt, esz, bd):
    """dest = ARRAY + off  or  &ARRAY[off]: returns (ok, capacity, description, form string, bound) or None"""
    from .bufacc import lin, ladd, lscale
    d = f.unwrap(dest)
    if d['k'] == 'UnaryOperator' and d.get('op') == '&':
        sub = f.unwrap(f.N[d['kids'][0]])
        if sub['k'] != 'ArraySubscriptExpr':
            return None
        base, offn, psz = f.unwrap(f.N[sub['kids'][0]]), f.N[sub['kids'][1]], sub.get('sz', 1)
    elif d['k'] == 'BinaryOperator' and d.get('op') == '+':
        a, b = f.unwrap(f.N[d['kids'][0]]), f.unwrap(f.N[d['kids'][1]])
        if a.get('t', '').rstrip().endswith((']', '*')):
            base, offn = a, f.N[d['kids'][1]]
        else:
            base, offn = b, f.N[d['kids'][0]]
        psz = d.get('psz', 1)
    else:
        return None
    t = base.get('t', '')
    if not (t.rstrip().endswith(']') and 'sz' in base):
        return None
    cap = base['sz']
    try:
        E = ladd(lscale(lin(f, offn), psz), lscale(lin(f, f.unwrap(cnt)), esz))
    except Exception:
        return None
    from .bufacc import lin_str
    pt = f.cfg.point(dest)

    def node_of(atom):
        for x in f.walk():
            if x.get('t') and x['k'] in ('DeclRefExpr', 'MemberExpr') and f.s(x) == atom:
                return x
        return None

    from .bounds import type_range

    def bound(F, depth):
        """smallest provable numeric upper bound of linear form F, or None (every atom is tried as the next one to eliminate)"""
        atoms = [(a, c) for a, c in F.items() if a != '' and c != 0]
        if not atoms:
            return F.get('', 0)
        if depth > 5:
            return None
        best = None
        for a, c in atoms:
            an = node_of(a)
            if an is None:
                continue
            b = bd.ev_at(an, pt) if pt else bd.ev(an)
            tr = type_range(an.get('t'))
            rest = {k_: v_ for k_, v_ in F.items() if k_ != a}
            cands = []
            if c > 0:
                if b.hi is not None and not (tr and b.hi >= tr[1]):
                    cands.append(ladd(rest, {'': c * b.hi}))
                for (o, s_) in b.ubs:
                    try:
                        L = lin_str(s_)
                    except Exception:
                        continue
                    if a in L or any(k_.startswith('#') for k_ in L):
                        continue
                    cands.append(ladd(rest, lscale(ladd(L, {'': -1 if o == '<' else 0}), c)))
            else:
                if b.lo is not None and not (tr and b.lo <= tr[0]):
                    cands.append(ladd(rest, {'': c * b.lo}))
            for C in cands:
                v = bound({k_: v_ for k_, v_ in C.items() if v_ != 0 or k_ == ''}, depth + 1)
                if v is not None and (best is None or v < best):
                    best = v
        return best
    total = bound(E, 0)
    form = ' + '.join('%d*%s' % (c, a) for a, c in E.items() if a and c) + (' + %d' % E.get('', 0) if E.get('', 0) else '')
    if total is None:
        return ('unknown', cap, f.s(base), form or '0', 'no upper bound provable')
    return (total <= cap, cap, f.s(base), form or '0', total)


def check_sinks(ctx, prog, eff, rule, fns, skip=()):
    n = 0
    for f in fns:
        sinks = []
        for c in f.calls():
            cal = c.get('callee')
            args = f.args(c)
            if cal == 'psf_binheader_readf':
                pr = readf_pairs(f, c)
                for (d, cnt) in (pr or []):
                    sinks.append((c, d, cnt, 1, 'header bytes'))
            elif cal in ('psf_fread', 'fread') and len(args) >= 3:
                sinks.append((c, args[0], args[2], f.unwrap(args[1]).get('v'), 'read'))
            elif cal in ('memcpy', 'memmove', 'memset', 'strncpy') and len(args) >= 3:
                sinks.append((c, args[0], args[2], 1, cal))
            elif cal in ('snprintf', 'vsnprintf') and len(args) >= 2:
                sinks.append((c, args[0], args[1], 1, cal))
            elif cal == 'psf_fgets' and len(args) >= 2:
                sinks.append((c, args[0], args[1], 1, cal))
        if not sinks:
            continue
        bd = Bounds(prog, f, eff)
        # the request of a typed read / write function is positive: the public wrappers refuse len <= 0 before they dispatch (C09 WRAPPER / GUARD-ERR)
        if getattr(prog, '_typed_slot_names', None) is None:
            try:
                prog._typed_slot_names = {(g_.name, g_.file) for fld_ in ('read_short', 'read_int', 'read_float', 'read_double', 'write_short', 'write_int', 'write_float', 'write_double')
                                          for g_ in prog.slot_fns(fld_)}
            except Exception:
                prog._typed_slot_names = set()
        if (f.name, f.file) in prog._typed_slot_names and len(f.params) >= 3:
            from .bounds import B as _B
            bd.entry_facts = {f.params[2]['n']: _B(1, None)}
        k = 0
        for (c, d, cnt, esz, what) in sinks:
            cap, desc = capacity(prog, f, d)
            if cap is None and desc in ('pointer arithmetic with non-constant offset', 'subscripted destination with non-constant index'):
                # destination = array + variable offset: extent = offset * element size + count * item size as ONE linear form, so that
                # `block + k` with count `n - k` is seen as n (interval arithmetic on the two terms separately would lose the correlation)
                r_ = _linear_extent(prog, f, d, cnt, esz or 1, bd)
                if r_ is not None and r_[0] == 'unknown':
                    ctx.notes.append('BOUNDED-SINK not decided (no provable bound for the linear extent %s into %s, %d bytes) at %s' % (r_[3], r_[2], r_[1], f.loc(c)))
                    continue
                if r_ is not None:
                    k += 1
                    n += 1
                    key = '%s:%s:%s@%d' % (f.name, what.replace(' ', '_'), r_[2], k)      # the destination object is part of the identity
                    if key in skip:
                        continue
                    ok_, cap_, desc_, form_, hi_ = r_
                    ctx.ob(rule, key, ok_, f.loc(c), '%s into %s (%d bytes) at a variable offset: offset + length = %s <= %s%s' % (what, desc_, cap_, form_, hi_, '' if ok_ else
                           ' — NOT within the %d bytes of the destination' % cap_), None)
                continue
            if cap is None:
                continue      # destination is a pointer: handled by the guarded-access rules of the owning property
            k += 1
            n += 1
            key = '%s:%s@%d' % (f.name, what.replace(' ', '_'), k)
            if key in skip:
                continue
            cu = f.unwrap(cnt)
            b = bd.ev(cu)
            if esz is None:
                esz = 1
            # a signed count that can be negative arrives at the primitive as a huge size_t: the upper bound alone proves nothing then
            from .model import int_type as _it_s
            ct_ = _it_s(cu.get('t'))
            # (not in the typed read / write functions: their request is positive by the wrapper contract and their chunk counts are minima of it and a buffer length;
            #  the obligation is about counts that come out of a file)
            neg_ = bool(ct_) and ct_[1] and (b.lo is None or b.lo < 0) and not (ct_[0] <= 16) and (f.name, f.file) not in (getattr(prog, '_typed_slot_names', None) or ())
            ok = b.hi is not None and b.hi * esz <= cap and not neg_
            ctx.ob(rule, key, ok, f.loc(c), '%s of %s x %d byte(s) into %s (%d bytes): count %s' % (what, f.s(cu), esz, desc, cap, 'bounded by %s' % b.hi if ok else ('NOT bounded (%r)' % b if not (b.hi is not None and b.hi * esz <= cap) else 'bounded above by %s but NOT proved non-negative (%r): a negative %s becomes a huge size_t' % (b.hi, b, cu.get('t')))), None)
    return n
