"""Program model over the extracted facts: functions (AST nodes + CFG), records, enums, globals,
function-pointer slots and the call graph."""
import json, os, re
from collections import defaultdict
from .facts import AnalysisBroken, REPO

INT_TYPES = {
    'char': (8, True), 'signed char': (8, True), 'unsigned char': (8, False), 'short': (16, True),
    'unsigned short': (16, False), 'int': (32, True), 'unsigned int': (32, False), 'long': (64, True),
    'unsigned long': (64, False), 'long long': (64, True), 'unsigned long long': (64, False), '_Bool': (1, False),
}


def int_type(t):
    t = t.replace('const ', '').replace('volatile ', '').strip()
    if t.startswith('enum '):
        return (32, False)
    return INT_TYPES.get(t)


class Fn:
    def __init__(self, d, unit):
        self.d = d
        self.unit = unit
        self.name = d['name']
        self.file = d['file']
        self.line = d['line']
        self.endline = d.get('endline', d['line'])
        self.static = d['static']
        self.params = d['params']
        self.ret = d['ret']
        nodes = d['nodes']
        mx = max(n['id'] for n in nodes) if nodes else -1
        self.N = [None] * (mx + 1)
        for n in nodes:
            self.N[n['id']] = n
        self.body = d['body']
        self._parent = None
        self._cfg = None
        self._strs = {}

    @property
    def rel(self):
        return os.path.relpath(self.file, REPO)

    def loc(self, n):
        if isinstance(n, int):
            n = self.N[n]
        return '%s:%s' % (self.rel, n.get('l', self.line))

    def __repr__(self):
        return '<Fn %s %s:%d>' % (self.name, self.rel, self.line)

    # ---- tree
    @property
    def parent(self):
        if self._parent is None:
            p = {}
            for n in self.N:
                if n is None:
                    continue
                for k in n['kids']:
                    if k >= 0 and k not in p:
                        p[k] = n['id']
            self._parent = p
        return self._parent

    def kids(self, n):
        if isinstance(n, int):
            n = self.N[n]
        return [self.N[k] for k in n['kids'] if k >= 0]

    def walk(self, n=None):
        """pre-order over the subtree rooted at n (node or id); default whole body"""
        if n is None:
            n = self.body
        if isinstance(n, dict):
            n = n['id']
        stack = [n]
        N = self.N
        while stack:
            i = stack.pop()
            nd = N[i]
            if nd is None:
                continue
            yield nd
            ks = nd['kids']
            for k in reversed(ks):
                if k >= 0:
                    stack.append(k)

    def ancestors(self, n):
        if isinstance(n, dict):
            n = n['id']
        p = self.parent
        while n in p:
            n = p[n]
            yield self.N[n]

    def within(self, n, root):
        """is node n inside subtree root"""
        if isinstance(n, dict):
            n = n['id']
        if isinstance(root, dict):
            root = root['id']
        if n == root:
            return True
        p = self.parent
        while n in p:
            n = p[n]
            if n == root:
                return True
        return False

    def calls(self, name=None, root=None):
        for n in self.walk(root):
            if n['k'] == 'CallExpr' and (name is None or n.get('callee') == name or
                                         (isinstance(name, (set, frozenset, tuple, list)) and n.get('callee') in name)):
                yield n

    def args(self, call):
        return [self.N[k] for k in call['kids'][1:]]

    def unwrap(self, n, casts=True):
        """strip explicit/implicit casts"""
        if isinstance(n, int):
            n = self.N[n]
        while casts and n['k'] in ('ImplicitCastExpr', 'CStyleCastExpr') and n['kids']:
            n = self.N[n['kids'][0]]
        return n

    # ---- canonical expression string (casts dropped)
    def s(self, n):
        if isinstance(n, dict):
            n = n['id']
        if n in self._strs:
            return self._strs[n]
        r = self._s(self.N[n])
        self._strs[n] = r
        return r

    def _s(self, n):
        k = n['k']
        K = n['kids']
        if k == 'DeclRefExpr':
            return n['n']
        # constant sub-expressions print as their folded value (sizeof, offsetof, arithmetic on constants) so that
        # strings of equal-valued expressions compare equal; enum constants keep their names (handled above)
        if 'v' in n and k not in ('IntegerLiteral', 'CharacterLiteral'):
            kk = n
            while kk['k'] in ('ImplicitCastExpr', 'CStyleCastExpr') and kk['kids']:
                kk = self.N[kk['kids'][0]]
            if not (kk['k'] == 'DeclRefExpr'):
                return str(n['v'])
        if k == 'MemberExpr':
            return self.s(K[0]) + ('->' if n['arrow'] else '.') + n['n']
        if k in ('ImplicitCastExpr', 'CStyleCastExpr'):
            return self.s(K[0])
        if k in ('IntegerLiteral', 'CharacterLiteral'):
            return str(n.get('v'))
        if k == 'FloatingLiteral':
            return repr(n.get('fv'))
        if k == 'StringLiteral':
            return json.dumps(n.get('s', ''))
        if k == 'ArraySubscriptExpr':
            return '%s[%s]' % (self.s(K[0]), self.s(K[1]))
        if k in ('BinaryOperator', 'CompoundAssignOperator'):
            return '(%s %s %s)' % (self.s(K[0]), n['op'], self.s(K[1]))
        if k == 'UnaryOperator':
            op = n['op']
            if op.startswith('post'):
                return '%s%s' % (self.s(K[0]), op[4:])
            return '%s%s' % (op, self.s(K[0]))
        if k == 'CallExpr':
            return '%s(%s)' % (self.s(K[0]), ', '.join(self.s(a) for a in K[1:]))
        if k == 'ConditionalOperator':
            return '(%s ? %s : %s)' % (self.s(K[0]), self.s(K[1]), self.s(K[2]))
        if k == 'UnaryExprOrTypeTraitExpr':
            return 'sizeof(%s)' % (n.get('ae') or n.get('at'))
        if k == 'ParenExpr':
            return self.s(K[0])
        return '<%s>' % k

    # ---- CFG
    @property
    def cfg(self):
        if self._cfg is None:
            from .cfg import CFG
            self._cfg = CFG(self)
        return self._cfg


class Program:
    def __init__(self, facts_dir, units=None):
        self.facts_dir = facts_dir
        self.units = {}
        self.fns = defaultdict(list)
        self.records = {}
        self.enums = {}
        self.enum_groups = {}
        self.globals = []
        self.protos = defaultdict(list)
        seen_fn = set()
        seen_gl = set()
        for f in sorted(os.listdir(facts_dir)):
            if not f.endswith('.json') or f == 'compile_commands.json':
                continue
            u = json.load(open(os.path.join(facts_dir, f)))
            self.add_unit(u, seen_fn, seen_gl)
        self._slots = None
        self._callers = None
        self._src = {}

    def add_unit(self, u, seen_fn=None, seen_gl=None):
        seen_fn = seen_fn if seen_fn is not None else set()
        seen_gl = seen_gl if seen_gl is not None else set()
        self.units[u['file']] = u
        for fd in u['functions']:
            key = (fd['name'], fd['file'], fd['line'])
            if key in seen_fn:
                continue
            seen_fn.add(key)
            fn_ = Fn(fd, u['file'])
            fn_.prog = self
            self.fns[fd['name']].append(fn_)
        for p in u.get('protos', []):
            self.protos[p['name']].append(p)
        for r in u['records']:
            self.records.setdefault(r['name'], r)
        for e in u['enums']:
            for name, val in e['consts']:
                self.enums[name] = val
            self.enum_groups.setdefault(e['name'] or ('anon@%s:%s' % (e['file'], e['line'])), e)
        for g in u['globals']:
            key = (g['name'], g['file'], g['line'], g.get('owner'))
            if not g.get('def', True) and 'init' not in g:
                # pure extern declaration: keep only if no definition seen (handled by key on def site)
                key = key + ('decl',)
            if key in seen_gl:
                continue
            seen_gl.add(key)
            g['unit'] = u['file']
            self.globals.append(g)

    # ---- lookup
    def all_fns(self):
        for l in self.fns.values():
            for f in l:
                yield f

    def lib_fns(self):
        """functions defined in .c files (not header inlines)"""
        for f in self.all_fns():
            if f.file.endswith('.c'):
                yield f

    def fn(self, name, file=None):
        l = self.fns.get(name, [])
        if file:
            l = [f for f in l if f.file.endswith(file)]
        if not l:
            raise AnalysisBroken('anchor vanished: function %s%s not found' % (name, ' in ' + file if file else ''))
        if len(l) > 1:
            raise AnalysisBroken('ambiguous function %s (%s)' % (name, ', '.join(f.rel for f in l)))
        return l[0]

    def fn_opt(self, name, file=None):
        try:
            return self.fn(name, file)
        except AnalysisBroken:
            return None

    def global_(self, name, owner=None):
        l = [g for g in self.globals if g['name'] == name and (owner is None or g.get('owner') == owner) and g.get('def', True)]
        if not l:
            raise AnalysisBroken('anchor vanished: global %s not found' % name)
        return l[0]

    def record(self, name):
        if name not in self.records:
            raise AnalysisBroken('anchor vanished: record %s not found' % name)
        return self.records[name]

    def field(self, rec, name):
        for f in self.record(rec)['fields']:
            if f['n'] == name:
                return f
        raise AnalysisBroken('anchor vanished: field %s.%s not found' % (rec, name))

    def src_line(self, file, line):
        if file not in self._src:
            try:
                self._src[file] = open(file, errors='replace').read().split('\n')
            except OSError:
                self._src[file] = []
        L = self._src[file]
        return L[line - 1].strip() if 0 < line <= len(L) else ''

    # ---- function pointer slots
    @property
    def slots(self):
        """(record, field) -> {function name: [(Fn, node)] sites that assign it}"""
        if self._slots is None:
            sl = defaultdict(lambda: defaultdict(list))
            for f in self.all_fns():
                for n in f.walk():
                    if n['k'] == 'BinaryOperator' and n['op'] == '=':
                        lhs = f.N[n['kids'][0]]
                        if lhs['k'] != 'MemberExpr' or '(*)' not in lhs['t']:
                            continue
                        for tgt in self._fn_targets(f, f.N[n['kids'][1]]):
                            sl[(lhs.get('rec'), lhs['n'])][tgt].append((f, n))
            self._slots = sl
        return self._slots

    def _fn_targets(self, f, n):
        n = f.unwrap(n)
        if n['k'] == 'DeclRefExpr' and n['dk'] == 'func':
            return [n['n']]
        if n['k'] == 'ConditionalOperator':
            return self._fn_targets(f, f.N[n['kids'][1]]) + self._fn_targets(f, f.N[n['kids'][2]])
        if n['k'] == 'UnaryOperator' and n['op'] == '&':
            return self._fn_targets(f, f.N[n['kids'][0]])
        if n.get('v') == 0 or n['k'] == 'IntegerLiteral':
            return ['NULL']
        if n['k'] == 'MemberExpr' and '(*)' in n['t']:
            return ['@slot:%s.%s' % (n.get('rec'), n['n'])]
        return ['?']

    def slot(self, field, rec='sf_private_tag', _seen=None):
        """names of real functions ever assigned to rec.field"""
        _seen = _seen if _seen is not None else set()
        if (rec, field) in _seen:
            return set()
        _seen.add((rec, field))
        d = self.slots.get((rec, field), {})
        out = set()
        for k in d:
            if k in ('NULL', '?'):
                continue
            if k.startswith('@slot:'):
                r, fl = k[6:].split('.', 1)
                if (r, fl) != (rec, field):
                    out |= self.slot(fl, r, _seen)
                continue
            out.add(k)
        return out

    def slot_fns(self, field, rec='sf_private_tag'):
        out = []
        for n in sorted(self.slot(field, rec)):
            for f in self.fns.get(n, []):
                out.append(f)
        return out

    def callees(self, f, resolve_slots=True):
        """set of callee function names of f (direct + slot-resolved indirect)"""
        out = set()
        for c in f.calls():
            if 'callee' in c:
                out.add(c['callee'])
            elif resolve_slots:
                cal = f.unwrap(f.N[c['kids'][0]])
                if cal['k'] == 'UnaryOperator' and cal['op'] == '*':
                    cal = f.unwrap(f.N[cal['kids'][0]])
                if cal['k'] == 'MemberExpr':
                    out |= self.slot(cal['n'], cal.get('rec'))
        return out

    def indirect_callee_slot(self, f, c):
        if 'callee' in c:
            return None
        cal = f.unwrap(f.N[c['kids'][0]])
        if cal['k'] == 'UnaryOperator' and cal['op'] == '*':
            cal = f.unwrap(f.N[cal['kids'][0]])
        if cal['k'] == 'MemberExpr':
            return (cal.get('rec'), cal['n'])
        return None

    def reachable_from(self, names, resolve_slots=True, stop=()):
        """transitive closure of callees starting at function names"""
        seen = set()
        work = list(names)
        while work:
            n = work.pop()
            if n in seen or n in stop:
                continue
            seen.add(n)
            for f in self.fns.get(n, []):
                for c in self.callees(f, resolve_slots):
                    if c not in seen:
                        work.append(c)
        return seen

    @property
    def callers(self):
        if self._callers is None:
            cs = defaultdict(set)
            for f in self.all_fns():
                for c in self.callees(f):
                    cs[c].add(f.name)
            self._callers = cs
        return self._callers


def load_program(repo=None, extra_args=(), tag='base', overlay=None):
    from .facts import extract
    fdir, info = extract(repo, extra_args, tag, overlay=overlay)
    p = Program(fdir)
    p.info = info
    return p
