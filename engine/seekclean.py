"""SEEK-CLEAN: a codec seek that refuses a request has not touched anything yet, and never calls a hook the handle does not have.

(a) in every function installed in the seek slot, a rejecting return (PSF_SEEK_ERROR) that is decided by the request or the handle alone - none of the
    conditions it runs under contains a call - is not reachable from a psf_fseek or from a store into the codec's private state: the call fails
    cleanly, later writes / reads go where they would have gone without it (a failure detected by an I/O call made after the repositioning is exempt:
    that is a fault, not an invalid request);
(b) a call through a function pointer kept in the codec's private struct is dominated by a test of that pointer, unless every function that
    allocates the struct assigns the pointer (a handle opened for writing has no decoder hook).
"""
from .util import assigned_lvalues, branch_facts


def seek_clean(ctx, prog, rule='SEEK-CLEAN'):
    n = 0
    fns = sorted(prog.slot_fns('seek'), key=lambda f: (f.file, f.line))
    # which functions allocate which record, and which function-pointer fields they assign
    alloc = {}
    for g in prog.lib_fns():
        for lv, a, r in assigned_lvalues(g):
            if r is None:
                continue
            ru = g.unwrap(r)
            if ru.get('k') == 'CallExpr' and ru.get('callee') in ('calloc', 'malloc'):
                t = (g.unwrap(g.N[a['kids'][0]]).get('t') or '')
                alloc.setdefault(t.replace('struct ', '').replace('*', '').strip(), []).append(g)
    for f in fns:
        cfg = f.cfg
        # (a)
        muts = []
        for c in f.calls('psf_fseek'):
            if cfg.point(c) is not None:
                muts.append(c)
        for lv, a, r in assigned_lvalues(f):
            if '->' in lv and not lv.startswith('psf->') and cfg.point(a) is not None:
                muts.append(a)
        for rt in cfg.returns():
            if not rt.get('kids'):
                continue
            e = f.unwrap(f.N[rt['kids'][0]])
            if e.get('v') != -1:
                continue
            facts = branch_facts(f, rt)
            if not facts:
                continue
            pure = True
            for blk in cfg.blocks.values():
                pass
            # conditions as nodes: recompute along single-predecessor edges
            pt = cfg.point(rt)
            b = pt[0] if pt else None
            seen = set()
            while b is not None and b not in seen:
                seen.add(b)
                preds = cfg.preds.get(b, [])
                if len(preds) != 1:
                    break
                pb = cfg.blocks[preds[0]]
                if 'cond' in pb and len(pb['succs']) == 2:
                    cn = f.N[pb['cond']] if isinstance(pb['cond'], int) else pb['cond']
                    if any(x['k'] == 'CallExpr' for x in f.walk(cn)):
                        pure = False
                b = preds[0]
            if not pure:
                continue
            n += 1
            bad = [m for m in muts if pt is not None and cfg.point(m) is not None and (
                (cfg.point(m)[0] == pt[0] and cfg.point(m)[1] < pt[1]) or (cfg.point(m)[0] != pt[0] and cfg.path_avoiding(cfg.point(m), {pt[0]}, set()) is not None))]
            ctx.ob(rule, '%s:reject@%s' % (f.name, rt.get('l')), not bad, f.loc(rt), 'refusal under %s comes before any repositioning or state change' % [c_ for c_, p_ in facts][:2] if not bad else
                   'the request is refused under %s only after `%s` (line %s) has run: the call fails, but the file position / codec state has already changed - what is written or read next goes '
                   'somewhere else' % ([c_ for c_, p_ in facts][:2], f.s(bad[0])[:50], bad[0].get('l')), None)
        # (b)
        for c in f.calls():
            callee = f.unwrap(f.N[c['kids'][0]])
            if callee.get('k') != 'MemberExpr' or f.s(callee).startswith('psf->') or '(*)' not in (callee.get('t') or ''):
                continue
            n += 1
            hook = f.s(callee)
            fld, rec = callee.get('n'), callee.get('rec')
            tested = any(pol is not None and hook.replace(' ', '') in c_ for c_, pol in branch_facts(f, c))
            if not tested:
                # dominated by an `if (hook == NULL) return` earlier: the false edge of that test
                for blk in cfg.blocks.values():
                    if 'cond' in blk and hook in f.s(blk['cond']) and cfg.dominates((blk['id'], len(blk['elems'])), c):
                        tested = True
            allocs = [g for t_, gs in alloc.items() if rec and (rec in t_ or t_ in rec) for g in gs] if rec else []
            def assigns(g):
                # in the allocating function or in anything it calls (the init the open function hands the struct to)
                names = set(prog.reachable_from([g.name])) | {g.name}
                return any(lv.endswith('->' + fld) for nm in names for h in prog.fns.get(nm, []) if h.file == g.file for lv, a, r in assigned_lvalues(h))
            always = bool(allocs) and all(assigns(g) for g in allocs)
            ok = tested or always
            ctx.ob(rule, '%s:hook:%s' % (f.name, hook.replace(' ', '')), ok, f.loc(c), 'call through %s %s' % (hook, 'after a test of the pointer' if tested else 'which every allocator of the struct assigns') if ok else
                   'call through %s without a test of the pointer, and %s allocate(s) the struct without assigning it: a handle of that kind (opened for writing) makes sf_seek call a NULL pointer' % (
                       hook, sorted({g.name for g in allocs if not assigns(g)}) or 'some init'), None)
    return n
