"""Check driver: runs the rule module of one property, filters known findings, writes evidence + replay files."""
import importlib, json, os, sys, time, traceback
from .facts import AnalysisBroken, VERIF, REPO

EVID = os.environ.get('VERIF_EVID') or os.path.join(VERIF, 'evidence')
KNOWN = os.path.join(VERIF, 'known_findings.txt')


class Ctx:
    def __init__(self, pid, tier, prog):
        self.pid = pid
        self.tier = tier
        self.prog = prog
        self.rules = {}          # rule -> dict(text, instances=[...])
        self.order = []
        self.findings = []
        self.notes = []
        self.assumptions = []
        self.not_decided = []

    # -- registration
    def rule(self, name, text, floor=0):
        if name not in self.rules:
            self.rules[name] = {'text': text, 'floor': floor, 'inst': [], 'fixture': None}
            self.order.append(name)
        self._touch(name)
        return name

    def _touch(self, name):
        t = self.__dict__.setdefault('_touched', [])
        if not t or t[-1] != name:
            t.append(name)

    def ob(self, rule, key, ok, where, msg, fact=None):
        """one obligation (rule instance).  key: stable identity (no line numbers)."""
        if rule not in self.rules:
            self.rules[rule] = {'text': '', 'floor': 0, 'inst': [], 'fixture': None}
        self.rules[rule]['inst'].append({'key': key, 'ok': bool(ok), 'where': where, 'msg': msg, 'fact': fact})
        self._touch(rule)
        if not ok:
            self.findings.append({'rule': rule, 'key': '%s:%s' % (rule, key), 'where': where, 'msg': msg, 'fact': fact})

    def fixture(self, rule, fired, what):
        """positive control: the rule must fire on a tiny broken example on every run"""
        self.rules[rule]['fixture'] = (bool(fired), what)

    def broken(self, msg):
        raise AnalysisBroken(msg)

    def require(self, cond, msg):
        if not cond:
            raise AnalysisBroken(msg)


_BORROW = {}


def borrow(ctx, pid, rules, note):
    """Run property `pid`'s rule module on the same program (once per process) and take over the named rules, with their
    obligations and findings, into ctx: a rule that decides a clause of two properties is written once and reported by both."""
    # a lender lends its OWN rules only: while it runs as a lender its own borrow () calls are skipped, so the borrow graph has depth one and cannot have cycles
    if ctx.__dict__.get('_as_lender'):
        return
    key = (pid, id(ctx.prog), ctx.tier)
    if key not in _BORROW:
        mod = importlib.import_module('rules.' + pid)
        c2 = Ctx(pid, ctx.tier, ctx.prog)
        c2._as_lender = True
        try:
            mod.run(c2)
        except AnalysisBroken as e:
            # the lender lost an anchor somewhere: the rules it had finished before that point are still good; the ones it was working on
            # (the last two it touched) and the ones it never reached are not
            c2._broken = str(e)
            c2._unfinished = set(c2.__dict__.get('_touched', [])[-2:]) | {r_ for r_, R_ in c2.rules.items() if not R_['inst']}
        _BORROW[key] = c2
    c2 = _BORROW[key]
    for r in rules:
        if r not in c2.rules or r in c2.__dict__.get('_unfinished', ()):
            raise AnalysisBroken('borrowed rule %s not available from %s%s' % (r, pid, (': ' + c2._broken) if c2.__dict__.get('_broken') else ' (not registered)'))
        R = c2.rules[r]
        ctx.rule(r, '[shared with %s: %s] %s' % (pid, note, R['text']), floor=R['floor'])
        ctx.rules[r]['inst'].extend(R['inst'])
        ctx.rules[r]['fixture'] = R['fixture']
        for f in c2.findings:
            if f['rule'] == r:
                ctx.findings.append(dict(f))


def load_known(pid):
    out = {}
    if os.path.exists(KNOWN):
        for line in open(KNOWN):
            line = line.strip()
            if not line.startswith('finding:'):
                continue
            # finding: property=C05 key=<key, may contain spaces> :: <text>
            import re as _re
            m = _re.match(r'finding:\s+property=(\S+)\s+key=(.*?)\s+::\s+(.*)$', line)
            if not m:
                continue
            if m.group(1) == pid:
                out[m.group(2)] = m.group(3)
    return out


def run_check(pid, tier='quick', prog=None, out=sys.stdout, write=True):
    t0 = time.time()
    seed = int(os.environ.get('VERIF_SEED', '0') or 0)
    evfile = os.path.join(EVID, pid + '.json')
    os.makedirs(os.path.join(EVID, 'replay'), exist_ok=True)
    try:
        if prog is None:
            from .model import load_program
            prog = load_program()
        mod = importlib.import_module('rules.' + pid)
        ctx = Ctx(pid, tier, prog)
        mod.run(ctx)
        overlay_notes = []
        if tier == 'thorough' and not os.environ.get('VERIF_NO_OVERLAYS'):
            from .run_thorough import run_overlays
            overlay_notes = run_overlays(pid, mod, Ctx, tier, ctx, out)
        # floors and fixtures
        ctx.order = [r for r in ctx.order if r in ctx.rules]
        for r in ctx.order:
            R = ctx.rules[r]
            if len(R['inst']) < R['floor']:
                raise AnalysisBroken('rule %s matched %d instance(s), floor is %d (rule would pass vacuously)' % (r, len(R['inst']), R['floor']))
            if R['fixture'] is not None and not R['fixture'][0]:
                raise AnalysisBroken('rule %s: positive fixture did not fire (%s)' % (r, R['fixture'][1]))
    except AnalysisBroken as e:
        print('ANALYSIS-BROKEN property=%s %s' % (pid, e), file=out)
        if write and os.path.exists(evfile):
            os.remove(evfile)
        return 2
    except Exception:
        print('ANALYSIS-BROKEN property=%s internal error\n%s' % (pid, traceback.format_exc()), file=out)
        if write and os.path.exists(evfile):
            os.remove(evfile)
        return 2

    known = load_known(pid)
    viol = []
    for f in ctx.findings:
        if f['key'] in known:
            print('KNOWN-FINDING: property=%s %s %s — %s' % (pid, f['key'], f['where'], known[f['key']] or f['msg']), file=out)
        else:
            viol.append(f)
    rc = 0
    for i, f in enumerate(viol):
        rp = os.path.join(EVID, 'replay', '%s-%d.json' % (pid, i + 1))
        if write:
            json.dump({'property': pid, 'rule': f['rule'], 'rule_text': ctx.rules[f['rule']]['text'], 'key': f['key'],
                       'where': f['where'], 'message': f['msg'], 'fact': f['fact'], 'tier': tier}, open(rp, 'w'), indent=1, default=str)
        print('VIOLATION property=%s replay=%s' % (pid, rp), file=out)
        print('  rule %s at %s: %s' % (f['rule'], f['where'], f['msg']), file=out)
        rc = 1

    # thorough tier: positive controls (they test the checker, not /repo; never a VIOLATION)
    control_res = []
    if tier == 'thorough' and not os.environ.get('VERIF_NO_CONTROLS'):
        from .controls import run_controls
        control_res, lost = run_controls(pid)
        for c in control_res:
            print('CONTROL %-24s expected=%-6s %s %s' % (c['name'], c['expected'], c['result'], c['detail'][:120]), file=out)
        if lost and rc == 0:
            print('ANALYSIS-BROKEN property=%s %d positive control(s) that must be reported were not: %s' % (pid, len(lost), ', '.join(c['name'] for c in lost)), file=out)
            if write and os.path.exists(evfile):
                os.remove(evfile)
            return 2

    # evidence
    n_inst = sum(len(ctx.rules[r]['inst']) for r in ctx.order)
    sites = set()
    samples = []
    rules_out = []
    for r in ctx.order:
        R = ctx.rules[r]
        for it in R['inst']:
            sites.add((r, it['key']))
        for it in R['inst'][:3]:
            samples.append({'rule': r, 'instance': it['key'], 'where': it['where'], 'holds': it['ok'], 'fact': it['fact'] if it['fact'] is not None else it['msg']})
        rules_out.append({'rule': r, 'text': R['text'], 'instances': len(R['inst']), 'held': sum(1 for i in R['inst'] if i['ok']),
                          'floor': R['floor'], 'fixture_fired': (R['fixture'][0] if R['fixture'] else None),
                          'fixture': (R['fixture'][1] if R['fixture'] else None)})
    fns = sum(1 for _ in prog.lib_fns())
    ev = {
        'property_id': pid, 'tier': tier, 'seed': seed, 'level': 'other',
        'coverage': {
            'explanation': getattr(mod, 'EXPLANATION', '') + ' | analysed: %d library units, %d functions of /repo working tree (facts key %s); technique: static analysis over type-checked AST + clang CFG; nothing executed.' % (
                prog.info.get('units', 0), fns, prog.info.get('key')),
            'evaluations': n_inst,
            'distinct_nontrivial': len(sites),
            'rule': 'one evaluation = one rule instance (obligation) at one source site; distinct = distinct (rule, site key); all instances found in the parsed program are evaluated, none sampled',
            'samples': samples[:40],
            'obligations': n_inst,
            'discharged': sum(1 for r in ctx.order for i in ctx.rules[r]['inst'] if i['ok']),
            'checker_cmd': './check %s --tier %s' % (pid, tier),
            'trusted_base': ['clang 14 front end (AST, CFG, constant folding)', 'sfx extractor', 'engine/*.py', 'rules/%s.py' % pid, 'compile flags from ninja compdb of /repo/_build'],
            'rules': rules_out,
            'exhaustive': True,
            'known_findings': sorted(k for k in known if any(f['key'] == k for f in ctx.findings)),
            'not_decided': ctx.not_decided or getattr(mod, 'NOT_DECIDED', []),
            'notes': ctx.notes,
            'overlays': overlay_notes,
            'controls': [{k: c[k] for k in ('name', 'expected', 'result', 'detail')} for c in control_res],
        },
        'assumptions': ctx.assumptions + getattr(mod, 'ASSUMPTIONS', []),
        'wall_s': round(time.time() - t0, 2),
        'violations': len(viol),
    }
    if write:
        json.dump(ev, open(evfile, 'w'), indent=1, default=str)
    print('%s: %d rule(s), %d obligation(s), %d held, %d known finding(s), %d violation(s) [%.1fs]' % (
        pid, len(ctx.order), n_inst, ev['coverage']['discharged'], len(ctx.findings) - len(viol), len(viol), time.time() - t0), file=out)
    return rc


def main(argv):
    import argparse
    ap = argparse.ArgumentParser()
    ap.add_argument('what')
    ap.add_argument('arg', nargs='?')
    ap.add_argument('--tier', default=os.environ.get('VERIF_TIER', 'quick'))
    a = ap.parse_args(argv)
    if a.what == 'explain':
        r = json.load(open(a.arg))
        print(json.dumps(r, indent=1))
        print('--- re-running %s on the current tree' % r['property'])
        return run_check(r['property'], r.get('tier', 'quick'), write=False)
    if a.what == 'all':
        from .model import load_program
        try:
            prog = load_program()
        except AnalysisBroken as e:
            print('ANALYSIS-BROKEN', e)
            return 2
        rc = 0
        man = json.load(open(os.path.join(VERIF, 'MANIFEST.json')))
        skip = set(filter(None, os.environ.get('VERIF_SKIP', '').split(',')))
        for c in man['checks']:
            if c['property_id'] in skip:
                continue
            rc = max(rc, run_check(c['property_id'], a.tier, prog))
        return rc
    return run_check(a.what, a.tier)


if __name__ == '__main__':
    sys.exit(main(sys.argv[1:]))
