"""CHUNK-VAR: inside a chunk loop, the clamped chunk length is what everything else uses.

A loop that works through a caller's request in pieces computes the size of the piece as  W = (len >= B) ? B : len
(B the staging capacity, len what is left of the request).  After that statement the capacity B must not be used in
the loop body again: a call that is handed B instead of W converts / copies a full buffer although fewer items are left -
it reads past the end of the caller's data on a write path, or stores past the request on a read path.
"""
from .util import assigned_lvalues

LOOPS = ('WhileStmt', 'ForStmt', 'DoStmt')


def chunk_var(ctx, prog, rule='CHUNK-VAR', slot_only=True):
    n = 0
    for f in sorted(prog.lib_fns(), key=lambda f: (f.file, f.line)):
        if any(v in f.file for v in ('/GSM610/', '/G72x/', '/ALAC/')):
            continue
        params = [q['n'] for q in f.params]
        for lp in [x for x in f.walk() if x['k'] in LOOPS and x.get('body') is not None]:
            for lv, a, r in assigned_lvalues(f, lp['body']):
                if r is None or a.get('op') != '=' or not lv.isidentifier():
                    continue
                ru = f.unwrap(r)
                if ru.get('k') != 'ConditionalOperator':
                    continue
                c, x, y = [f.unwrap(f.N[k]) for k in ru['kids']]
                if c.get('k') != 'BinaryOperator' or c.get('op') not in ('>=', '>', '<', '<='):
                    continue
                xs, ys = f.s(x), f.s(y)
                cl, cr = f.s(f.unwrap(f.N[c['kids'][0]])), f.s(f.unwrap(f.N[c['kids'][1]]))
                if {xs, ys} != {cl, cr}:
                    continue
                # which arm is the capacity: a plain local that is not the request parameter; the other arm is the request (a parameter)
                cap = [v for v in (xs, ys) if v.isidentifier() and v not in params and v != lv]
                req = [v for v in (xs, ys) if v in params]
                if len(cap) != 1 or len(req) != 1:
                    continue
                # min, not max: the capacity is chosen when the request is the larger one
                B, L = cap[0], req[0]
                op = c['op']
                picks_min = (op in ('>=', '>') and ((cl == L and xs == B) or (cl == B and xs == L))) or (op in ('<', '<=') and ((cl == L and xs == L) or (cl == B and xs == B)))
                if not picks_min:
                    continue
                n += 1
                uses = [u for u in f.walk(lp['body']) if u['k'] == 'DeclRefExpr' and u.get('n') == B and not f.within(u, a) and (u['l'], u['c']) > (a['l'], a['c'])]
                ok = not uses
                ctx.ob(rule, '%s:%s<-%s' % (f.name, lv, B), ok, f.loc(uses[0]) if uses else f.loc(a), 'piece length %s = min (%s, %s); the capacity %s is %s' % (lv, B, L, B,
                       'not used again in the loop' if ok else 'used again in `%s`: a full buffer is processed although only %s items of the request are left' % (f.s(f.N[f.parent[uses[0]['id']]])[:60], lv)), None)
    return n
