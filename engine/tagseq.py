"""TAG-SEQ (MAT5): the sequence of MAT5_TYPE_* element tags the header writer emits is accepted, position by position, by
the sequence of type tests the header reader performs.

writer : the enum constants MAT5_TYPE_* passed to psf_binheader_writef in mat5_write_header, in source order; calls in
         the two arms of one if/else occupy the same position (alternatives); a local variable stands for the set of
         constants assigned to it (`encoding`)
reader : the tests on the local `type` in mat5_read_header, in source order: `type != K` -> {K}; `type == K` /
         `(type & mask) == K` -> {K} (adjacent tests for the same K are one position); `switch (type)` -> its case labels
Every writer alternative must be in the reader's accepted set at the same position (and the sequences have equal length)."""
from .util import assigned_lvalues


def _enum_name(f, n, prefix):
    n = f.unwrap(n)
    if n.get('k') == 'DeclRefExpr' and (n.get('n') or '').startswith(prefix):
        return n['n']
    return None


def tag_seq(ctx, prog, rule='TAG-SEQ', writer=('mat5_write_header', 'mat5.c'), reader=('mat5_read_header', 'mat5.c'), prefix='MAT5_TYPE_', var='type'):
    w = prog.fn(*writer)
    r = prog.fn(*reader)
    # ---- writer sequence
    locals_ = {}
    for lv, a, rr in assigned_lvalues(w):
        if rr is not None and _enum_name(w, rr, prefix):
            locals_.setdefault(lv, set()).add(_enum_name(w, rr, prefix))
    wseq = []           # list of (set of names, node, group id)
    for c in sorted(w.calls('psf_binheader_writef'), key=lambda c: (c['l'], c['c'])):
        # alternative group: the nearest enclosing IfStmt for which this call is in then/else
        grp = None
        for anc in w.ancestors(c):
            if anc['k'] == 'IfStmt' and anc.get('else') is not None:
                grp = anc['id']
                break
        pos = 0
        for a in w.args(c)[2:]:
            names = set()
            for x in w.walk(w.unwrap(a)):
                if x['k'] == 'DeclRefExpr':
                    if (x.get('n') or '').startswith(prefix):
                        names.add(x['n'])
                    elif x.get('n') in locals_:
                        names |= locals_[x['n']]
            if names:
                wseq.append((names, c, grp, pos))
                pos += 1
    # merge alternatives: entries with the same (group, pos) and group not None
    merged = []
    for names, c, grp, pos in wseq:
        if grp is not None and merged and merged[-1][2] == grp and merged[-1][3] == pos and merged[-1][1] is not c:
            merged[-1] = (merged[-1][0] | names, merged[-1][1], grp, pos)
        else:
            merged.append((names, c, grp, pos))
    # ---- reader sequence
    rseq = []
    items = []
    for n in r.walk():
        if n['k'] == 'BinaryOperator' and n.get('op') in ('!=', '=='):
            a, b = r.N[n['kids'][0]], r.N[n['kids'][1]]
            k = _enum_name(r, b, prefix)
            if k and var in [x.get('n') for x in r.walk(r.unwrap(a)) if x['k'] == 'DeclRefExpr']:
                items.append((n['l'], n['c'], {k}, n, n['op']))
        elif n['k'] == 'SwitchStmt' and r.s(n['cond']) == var:
            labs = set()
            for x in r.walk(n['body']):
                if x['k'] == 'CaseStmt':
                    for y in r.walk(x):
                        if y['k'] == 'DeclRefExpr' and (y.get('n') or '').startswith(prefix):
                            labs.add(y['n'])
                            break
            items.append((n['l'], n['c'], labs, n, 'switch'))
    for l, c_, acc, n, op in sorted(items, key=lambda t: (t[0], t[1])):
        if rseq and op == '==' and rseq[-1][2] == '==' and rseq[-1][0] == acc:
            continue
        rseq.append((acc, n, op))
    ctx.require(len(merged) >= 8 and len(rseq) >= 8, 'tag sequences not found (writer %d, reader %d)' % (len(merged), len(rseq)))
    ctx.ob(rule, 'length', len(merged) == len(rseq), w.loc(w.body), 'writer emits %d element tags, reader tests %d' % (len(merged), len(rseq)), None)
    for i, ((names, c, grp, pos), (acc, n, op)) in enumerate(zip(merged, rseq)):
        bad = sorted(names - acc)
        ctx.ob(rule, 'tag#%d' % (i + 1), not bad, w.loc(c), 'position %d: writer emits %s, reader accepts %s%s' % (i + 1, sorted(names), sorted(acc), '' if not bad else
               ' — a file written with %s is refused when it is opened for reading' % bad), None)
