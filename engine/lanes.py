"""A-LANE: bit-lane provenance of conversion kernels.

One loop iteration of an `x2y_array` kernel is evaluated symbolically: every value is a vector of bit symbols (LSB first), each
symbol one of 0, 1, ('s', k) = bit k of the source element, ('n', k) = its complement, ('r', k) = bit k of a rounded floating
value, or None (unknown).  The result is the map destination byte -> 8 symbols, which is compared with the documented layout.
Because symbols stand for *all* values at once, agreement is a proof for every sample value, not a test of some.
"""
from .model import int_type

UNK = None


def const_bits(v, w):
    return [(v >> i) & 1 for i in range(w)]


def width_of(t):
    it = int_type(t)
    if it:
        return it
    if t and t.rstrip().endswith('*'):
        return (64, False)
    return None


class Val:
    """bits + signedness (of the C type it currently has)"""
    __slots__ = ('bits', 'signed')

    def __init__(self, bits, signed):
        self.bits = list(bits)
        self.signed = signed

    def ext(self, w):
        b = self.bits
        if len(b) >= w:
            return b[:w]
        fill = b[-1] if (self.signed and b) else 0
        return b + [fill] * (w - len(b))

    def cast(self, w, signed):
        return Val(self.ext(w), signed)


def neg_sym(s):
    if s == 0:
        return 1
    if s == 1:
        return 0
    if s is None:
        return None
    return ('n' if s[0] == 's' else 's' if s[0] == 'n' else None, s[1]) if s[0] in ('s', 'n') else None


class LaneEval:
    def __init__(self, prog, f, src_name, dst_name, src_desc, max_depth=3):
        """src_desc: ('int', width, signed) | ('tribyte',) | ('float',)"""
        self.prog, self.f = prog, f
        self.src_name, self.dst_name = src_name, dst_name
        self.src_desc = src_desc
        self.dest = {}          # byte index -> list of 8 symbols   (relative to &dest[i])
        self.dest_typed = None
        self.env = {}           # local name -> Val | ('addr', base, byteoff)
        self.problems = []
        self.round_seen = []    # rounding calls treated as sources
        self.float_inputs = []  # Vals that were converted int->float (read kernels)
        self.max_depth = max_depth
        self.big_endian = bool(getattr(prog, 'info', {}).get('big_endian'))

    # ---- source / destination element recognition
    def _is_elem(self, f, n, name):
        """n is `name[<anything>]`"""
        n = f.unwrap(n)
        return n['k'] == 'ArraySubscriptExpr' and f.unwrap(f.N[n['kids'][0]])['k'] == 'DeclRefExpr' and f.unwrap(f.N[n['kids'][0]])['n'] == name

    def membit(self, w, k):
        """memory bit index (byte address * 8 + bit in byte) of value bit k of a w-bit object in host memory"""
        if getattr(self, 'big_endian', False):
            return 8 * (w // 8 - 1 - k // 8) + k % 8
        return k

    def src_val(self):
        d = self.src_desc
        if d[0] == 'int':
            # symbols name MEMORY bits of the source element; the loaded value has them in host byte order
            return Val([('s', self.membit(d[1], k)) for k in range(d[1])], d[2])
        return None

    # ---- expression evaluation in function f with environment env
    def ev(self, f, n, env, depth=0):
        if isinstance(n, int):
            n = f.N[n]
        k = n['k']
        K = n['kids']
        t = n.get('t')
        wt = width_of(t) if t else None
        if 'v' in n and k != 'DeclRefExpr' and wt:
            return Val(const_bits(n['v'], wt[0]), wt[1])
        if k == 'DeclRefExpr':
            if n.get('dk') == 'enum' and wt:
                return Val(const_bits(n['v'], wt[0]), wt[1])
            return env.get(n['n'])
        if k in ('ImplicitCastExpr', 'CStyleCastExpr'):
            ck = n.get('ck')
            sub = self.ev(f, K[0], env, depth)
            if ck in ('IntegralCast', 'NoOp', 'LValueToRValue') and isinstance(sub, Val) and wt:
                return sub.cast(wt[0], wt[1])
            if ck == 'BitCast' or ck == 'NoOp' or ck == 'ArrayToPointerDecay':
                return sub
            if ck == 'IntegralToFloating' and isinstance(sub, Val):
                self.float_inputs.append(sub)
                return ('float', sub)
            if ck == 'FloatingToIntegral':
                self.problems.append('truncating float->int cast at line %s' % n.get('l'))
                return None
            return sub
        if k == 'ParenExpr':
            return self.ev(f, K[0], env, depth)
        if k == 'ArraySubscriptExpr':
            base = f.unwrap(f.N[K[0]])
            idx = f.N[K[1]]
            # source element
            if base['k'] == 'DeclRefExpr' and base['n'] == self.src_name and f is self.f_top and self.src_desc[0] == 'int':
                return self.src_val()
            bv = self.ev(f, K[0], env, depth)
            if isinstance(bv, tuple) and bv[0] == 'addr':
                off = self._const(f, idx, env)
                esz = n.get('sz', 1)
                if off is None:
                    return None
                return self._load(bv[1], bv[2] + off * esz, esz, wt)
            return None
        if k == 'MemberExpr':
            # src[i].bytes  -> address of the source element bytes ; dest[i].bytes likewise
            if n['n'] == 'bytes':
                b = f.unwrap(f.N[K[0]])
                if self._is_elem(f, b, self.src_name) and f is self.f_top:
                    return ('addr', 'src', 0)
                if self._is_elem(f, b, self.dst_name) and f is self.f_top:
                    return ('addr', 'dst', 0)
                if n.get('arrow'):
                    # cursor->bytes : pointer iteration over the elements (the cursor stands at the current element)
                    bv = self.ev(f, K[0], env, depth)
                    if isinstance(bv, tuple) and bv[0] == 'addr':
                        return bv
            return None
        if k == 'UnaryOperator':
            op = n['op']
            if op == '&':
                sub = f.unwrap(f.N[K[0]])
                if self._is_elem(f, sub, self.dst_name) and f is self.f_top:
                    return ('addr', 'dst', 0)
                if self._is_elem(f, sub, self.src_name) and f is self.f_top:
                    return ('addr', 'src', 0)
                return None
            v = self.ev(f, K[0], env, depth)
            if op == '-' and isinstance(v, Val):
                return None
            if op == '~' and isinstance(v, Val) and wt:
                return Val([neg_sym(s) for s in v.ext(wt[0])], wt[1])
            if op == '+':
                return v
            if op == '*' and isinstance(v, tuple) and v[0] == 'addr':
                return self._load(v[1], v[2], n.get('sz', 1), wt)
            return None
        if k == 'BinaryOperator':
            op = n['op']
            if op == ',':
                self.ev(f, K[0], env, depth)
                return self.ev(f, K[1], env, depth)
            a = self.ev(f, K[0], env, depth)
            b = self.ev(f, K[1], env, depth)
            if isinstance(a, tuple) and a[0] == 'addr' and op in ('+', '-'):
                c = self._const(f, f.N[K[1]], env)
                if c is None:
                    return None
                return ('addr', a[1], a[2] + (c if op == '+' else -c) * n.get('psz', 1))
            if isinstance(a, tuple) and a[0] == 'float' or isinstance(b, tuple) and b[0] == 'float':
                return ('float', None)
            if not isinstance(a, Val) or not isinstance(b, Val) or not wt:
                return None
            w, sg = wt
            A, Bb = a.ext(w), b.ext(w)
            cb = self._as_const(Bb)
            ca = self._as_const(A)
            if op == '<<' and cb is not None:
                return Val(([0] * cb + A)[:w], sg)
            if op == '>>' and cb is not None:
                fill = A[-1] if a.signed or sg else 0
                if not (a.signed or sg):
                    fill = 0
                return Val((A[cb:] + [fill] * cb)[:w], sg)
            if op == '&':
                return Val([0 if (x == 0 or y == 0) else (y if x == 1 else x if y == 1 else (x if x == y else None)) for x, y in zip(A, Bb)], sg)
            if op in ('|', '+'):
                if op == '+' and cb is not None:
                    r = self._addconst(A, cb, w)
                    if r is not None:
                        return Val(r, sg)
                if op == '+' and ca is not None:
                    r = self._addconst(Bb, ca, w)
                    if r is not None:
                        return Val(r, sg)
                out = []
                for x, y in zip(A, Bb):
                    if x == 0:
                        out.append(y)
                    elif y == 0:
                        out.append(x)
                    elif op == '|' and (x == 1 or y == 1):
                        out.append(1)
                    elif op == '|' and x == y:
                        out.append(x)
                    else:
                        out.append(None)
                return Val(out, sg)
            if op == '-' and cb is not None:
                r = self._addconst(A, -cb, w)
                return Val(r, sg) if r is not None else None
            if op == '^' and cb is not None:
                return Val([neg_sym(x) if (cb >> i) & 1 else x for i, x in enumerate(A)], sg)
            return None
        if k == 'CallExpr':
            cal = n.get('callee')
            args = f.args(n)
            if cal in ('__builtin_bswap16', '__builtin_bswap32', '__builtin_bswap64', 'bswap_16', 'bswap_32', 'bswap_64', '__bswap_16', '__bswap_32', '__bswap_64'):
                v = self.ev(f, args[0], env, depth)
                if isinstance(v, Val) and wt:
                    b = v.ext(wt[0])
                    by = [b[i:i + 8] for i in range(0, wt[0], 8)][::-1]
                    return Val([s for x in by for s in x], wt[1])
                return None
            if cal in ('psf_lrint', 'psf_lrintf', 'lrint', 'lrintf'):
                self.round_seen.append(cal)
                return Val([('r', i) for i in range(32)], True)
            if cal in self.prog.fns and depth < self.max_depth:
                callee = self.prog.fns[cal][0]
                cenv = {}
                for p, a in zip(callee.params, args):
                    cenv[p['n']] = self.ev(f, a, env, depth)
                return self._run_body(callee, cenv, depth + 1)
            return None
        if k == 'ConditionalOperator':
            return None
        return None

    def _as_const(self, bits):
        v = 0
        for i, s in enumerate(bits):
            if s == 1:
                v |= 1 << i
            elif s != 0:
                return None
        return v

    def _const(self, f, n, env):
        n = f.unwrap(n)
        if 'v' in n and n['k'] != 'DeclRefExpr':
            return n['v']
        v = self.ev(f, n, env)
        if isinstance(v, Val):
            c = self._as_const(v.bits)
            if c is not None and v.signed and len(v.bits) and v.bits[-1] == 1:
                c -= 1 << len(v.bits)
            return c
        if n['k'] == 'BinaryOperator' and n['op'] in ('+', '-'):
            a = self._const(f, f.N[n['kids'][0]], env)
            b = self._const(f, f.N[n['kids'][1]], env)
            if a is not None and b is not None:
                return a + b if n['op'] == '+' else a - b
        return None

    def _addconst(self, A, c, w):
        """A + c for c = +-2^k with A sign/zero extended at bit k"""
        if c == 0:
            return list(A)
        mag = abs(c)
        if mag & (mag - 1):
            return None
        k = mag.bit_length() - 1
        if k >= w:
            return list(A)
        top = A[k]
        if c > 0 and all(x == top for x in A[k:]):          # sign-extended at k, add 2^k -> unsigned range
            return A[:k] + [neg_sym(top)] + [0] * (w - k - 1)
        if c < 0 and all(x == 0 for x in A[k + 1:]):         # zero-extended above k, subtract 2^k -> signed range
            return A[:k] + [neg_sym(top)] * (w - k)
        if c > 0 and all(x == 0 for x in A[k:]):
            return A[:k] + [1] + [0] * (w - k - 1)
        return None

    def _load(self, base, byteoff, nbytes, wt):
        if base == 'src':
            if self.src_desc[0] == 'tribyte' or self.src_desc[0] == 'bytes':
                bits = []
                for j in range(nbytes):
                    bits += [('s', 8 * (byteoff + j) + i) for i in range(8)]
                return Val(bits, wt[1] if wt else False)
            if self.src_desc[0] == 'int':
                sv = self.src_val().bits
                bits = sv[8 * byteoff: 8 * (byteoff + nbytes)]
                return Val(bits, wt[1] if wt else False)
        if base == 'dst':
            bits = []
            for j in range(nbytes):
                bits += self.dest.get(byteoff + j, [None] * 8)
            return Val(bits, wt[1] if wt else False)
        return None

    def _store(self, base, byteoff, nbytes, val):
        if base != 'dst':
            self.problems.append('store through %s' % base)
            return
        if not isinstance(val, Val):
            for j in range(nbytes):
                self.dest[byteoff + j] = [None] * 8
            return
        b = val.ext(8 * nbytes)
        for j in range(nbytes):
            # byte j of the stored object in host memory order
            vj = (nbytes - 1 - j) if getattr(self, 'big_endian', False) else j
            self.dest[byteoff + j] = b[8 * vj: 8 * vj + 8]

    # ---- statements
    def _run_body(self, f, env, depth):
        """interpret a small straight-line function body; returns the value of its return statement"""
        ret = [None]
        self._stmt(f, f.N[f.body], env, depth, ret)
        return ret[0]

    def _assign(self, f, lhs, val, env, depth):
        l = f.unwrap(lhs)
        k = l['k']
        if k == 'DeclRefExpr':
            wt = width_of(l.get('t'))
            if isinstance(val, Val) and wt:
                val = val.cast(wt[0], wt[1])
            env[l['n']] = val
            return
        if k == 'ArraySubscriptExpr':
            base = f.unwrap(f.N[l['kids'][0]])
            if base['k'] == 'DeclRefExpr' and base['n'] == self.dst_name and f is self.f_top:
                nb = l.get('sz', 1)
                self.dest_typed = nb
                self._store('dst', 0, nb, val if not (isinstance(val, tuple)) else None)
                if isinstance(val, tuple) and val[0] == 'float':
                    self.dest_float = True
                return
            bv = self.ev(f, l['kids'][0], env, depth)
            if isinstance(bv, tuple) and bv[0] == 'addr':
                off = self._const(f, f.N[l['kids'][1]], env)
                if off is None:
                    self.problems.append('store at unknown offset line %s' % l.get('l'))
                    return
                self._store(bv[1], bv[2] + off * l.get('sz', 1), l.get('sz', 1), val)
                return
        if k == 'UnaryOperator' and l['op'] == '*':
            bv = self.ev(f, l['kids'][0], env, depth)
            if isinstance(bv, tuple) and bv[0] == 'addr':
                pb = f.unwrap(f.N[l['kids'][0]])
                if pb['k'] == 'DeclRefExpr' and pb['n'] == self.dst_name and f is self.f_top and bv[1] == 'dst' and bv[2] == 0:
                    # *dest = v with dest walking over the elements: the typed store of one destination element
                    self.dest_typed = l.get('sz', 1)
                    if isinstance(val, tuple) and val[0] == 'float':
                        self.dest_float = True
                        val = None
                self._store(bv[1], bv[2], l.get('sz', 1), val)
                return
        self.problems.append('unmodelled store to %s' % f.s(l))

    def _stmt(self, f, n, env, depth, ret):
        k = n['k']
        if k == 'CompoundStmt':
            for c in f.kids(n):
                self._stmt(f, c, env, depth, ret)
                if ret[0] is not None and ret[0] != 'cont':
                    pass
            return
        if k == 'DeclStmt':
            for d in n.get('decls', []):
                if 'init' in d and d['init'] >= 0:
                    v = self.ev(f, d['init'], env, depth)
                    wt = width_of(d.get('t'))
                    if isinstance(v, Val) and wt:
                        v = v.cast(wt[0], wt[1])
                    env[d['n']] = v
            return
        if k in ('ForStmt', 'WhileStmt', 'DoStmt'):
            # one symbolic iteration (after the for-initialiser, which may set up a cursor)
            if k == 'ForStmt' and n.get('init') is not None and n.get('init', -1) >= 0:
                self._stmt(f, f.N[n['init']], env, depth, ret)
            self._stmt(f, f.N[n['body']], env, depth, ret)
            return
        if k == 'IfStmt':
            # clip branches etc.: only the fall-through (no-branch) path is followed; branches that `continue` are separate facts (SCALE).
            # Written as a chain `if (hi) d = MAX ; else if (lo) d = MIN ; else d = f (x) ;` the fall-through path is the final else.
            cur = n
            while cur['k'] == 'IfStmt' and cur.get('else') is not None:
                cur = f.N[cur['else']]
            if cur is not n and cur['k'] != 'IfStmt':
                self._stmt(f, cur, env, depth, ret)
            return
        if k == 'ReturnStmt':
            if n['kids']:
                ret[0] = self.ev(f, n['kids'][0], env, depth)
            return
        if k in ('BinaryOperator', 'CompoundAssignOperator'):
            op = n['op']
            if op == '=':
                v = self.ev(f, n['kids'][1], env, depth)
                self._assign(f, f.N[n['kids'][0]], v, env, depth)
                return
            if op in ('+=', '|=', '-=', '&=', '<<=', '>>='):
                cur = self.ev(f, n['kids'][0], env, depth)
                rhs = self.ev(f, n['kids'][1], env, depth)
                wt = width_of(n.get('ct') or n.get('t'))
                v = None
                if isinstance(cur, Val) and isinstance(rhs, Val) and wt:
                    w, sg = wt
                    fake = {'k': 'BinaryOperator', 'op': op[:-1], 't': n.get('ct') or n.get('t'), 'kids': n['kids']}
                    # evaluate via the binary operator path on already computed operands
                    A, Bb = cur.ext(w), rhs.ext(w)
                    if op in ('+=', '|='):
                        out = []
                        for x, y in zip(A, Bb):
                            out.append(y if x == 0 else x if y == 0 else (1 if op == '|=' and (x == 1 or y == 1) else None))
                        v = Val(out, sg)
                self._assign(f, f.N[n['kids'][0]], v, env, depth)
                return
            self.ev(f, n, env, depth)
            return
        if k == 'CallExpr':
            cal = n.get('callee')
            if cal in self.prog.fns and depth < self.max_depth:
                callee = self.prog.fns[cal][0]
                cenv = {}
                for p, a in zip(callee.params, f.args(n)):
                    cenv[p['n']] = self.ev(f, a, env, depth)
                # helper loops such as endswap_short_copy (dest, src, len): interpret with our src/dst bound by address
                sub = LaneHelper(self, callee, cenv, depth + 1)
                sub.run()
            return
        if k == 'UnaryOperator':
            return
        return

    def run(self):
        self.f_top = self.f
        self.dest_float = False
        env = {}
        # the two array parameters are also cursors: `*src`, `src->bytes`, `*dest = ...`, `p = (unsigned char *) dest` address the current element
        if self.src_name:
            env[self.src_name] = ('addr', 'src', 0)
        if self.dst_name:
            env[self.dst_name] = ('addr', 'dst', 0)
        self._stmt(self.f, self.f.N[self.f.body], env, 0, [None])
        return self.dest


class LaneHelper:
    """interprets helper functions that take (dest, src, len) pointers (endswap_*_copy): dest[i] = f(src[i])"""

    def __init__(self, outer, callee, cenv, depth):
        self.o, self.callee, self.cenv, self.depth = outer, callee, cenv, depth

    def run(self):
        o = self.o
        f = self.callee
        # which params alias our src / dst
        roles = {}
        for p in f.params:
            v = self.cenv.get(p['n'])
            roles[p['n']] = v
        # run the loop body once with a nested evaluator sharing dest
        sub = LaneEval(o.prog, f, None, None, o.src_desc, o.max_depth)
        sub.f_top = f
        sub.dest = o.dest
        sub.dest_float = False
        # bind pointer params to addresses: params whose argument was the kernel's src/dest pointer
        env = {}
        for p in f.params:
            env[p['n']] = roles.get(p['n'])
        # element accesses p[i] on address-valued params are handled by ArraySubscript (addr + const offset) only for constant
        # indices; for the symbolic index i we map p[<non-const>] to offset 0 of the element
        sub._const_orig = sub._const

        def cst(f2, n2, env2):
            c = sub._const_orig(f2, n2, env2)
            return 0 if c is None else c
        sub._const = cst
        sub._stmt(f, f.N[f.body], env, self.depth, [None])
        o.problems += sub.problems
