"""IO-COUNT: in a loop that works off a remaining byte/item count R (`R -= V` in the body) every psf_fread / psf_fwrite /
fread / fwrite of that body transfers exactly V (size 1 x V, or V x size with R counted in items), or R is decremented by the
call's own result.  A transfer of a different amount than what is accounted for (reading sizeof (buf) while subtracting
min (R, sizeof (buf))) silently consumes bytes that belong to what follows (or leaves some behind)."""
from .util import assigned_lvalues, local_defs

IO = ('psf_fread', 'psf_fwrite', 'fread', 'fwrite')


def io_count(ctx, prog, rule='IO-COUNT'):
    n = 0
    for f in sorted(prog.lib_fns(), key=lambda f: (f.file, f.line)):
        for lp in [x for x in f.walk() if x['k'] in ('WhileStmt', 'ForStmt', 'DoStmt')]:
            body = lp.get('body')
            if body is None:
                continue
            ios = [c for c in f.calls(root=body) if c.get('callee') in IO]
            if not ios:
                continue
            # innermost loop only
            if any(y['k'] in ('WhileStmt', 'ForStmt', 'DoStmt') and any(c2 in list(f.calls(root=y.get('body'))) for c2 in ios) for y in f.walk(body) if y is not lp and y.get('body') is not None):
                continue
            cond = f.s(lp['cond']) if 'cond' in lp else ''
            decs = [(lv, a, r) for lv, a, r in assigned_lvalues(f, body) if a['k'] == 'CompoundAssignOperator' and a.get('op') == '-=' and r is not None and lv in cond]
            if not decs:
                continue
            defs = local_defs(f)
            for (R, a, r) in decs:
                V = f.s(f.unwrap(r))
                for k, c in enumerate(ios):
                    args = [f.unwrap(x) for x in f.args(c)]
                    s1, s2 = f.s(args[1]), f.s(args[2])
                    v1, v2 = args[1].get('v'), args[2].get('v')
                    n += 1
                    # result variable of the call
                    res = None
                    par = f.N[f.parent[c['id']]] if c['id'] in f.parent else None
                    while par is not None and par['k'] in ('ImplicitCastExpr', 'CStyleCastExpr', 'ParenExpr'):
                        par = f.N[f.parent[par['id']]] if par['id'] in f.parent else None
                    if par is not None and par['k'] == 'BinaryOperator' and par.get('op') == '=':
                        res = f.s(f.N[par['kids'][0]])
                    ok = (v1 == 1 and s2 == V) or (v2 == 1 and s1 == V) or s2 == V or s1 == V or (res is not None and res == V)
                    ctx.ob(rule, '%s:%s-=%s#%d' % (f.name, R, V[:30], k + 1), ok, f.loc(c), '%s (.., %s, %s, ..) while the loop accounts for %s -= %s%s' % (c['callee'], s1[:30], s2[:30], R, V[:30], '' if ok else
                           ': the amount transferred is not the amount accounted for — bytes of the following data are consumed (or left unread)'), None)
                    if c['callee'] in ('psf_fread', 'fread') and not (res is not None and res == V):
                        # a read that is accounted for by the request, not by its result: a short read must end the loop, otherwise a stream that
                        # has ended makes the loop spin R / V times with R a file-derived 64-bit count
                        def exits(st):
                            return any(x['k'] in ('BreakStmt', 'ReturnStmt', 'GotoStmt') for x in f.walk(st))
                        how = None
                        for st in f.walk(body):
                            if st['k'] != 'IfStmt' or st.get('then') is None or not exits(f.N[st['then']]):
                                continue
                            cn = f.N[st['cond']]
                            if f.within(c, cn):
                                how = 'the result is tested in place: `%s`' % f.s(cn)[:60]
                            elif res is not None and any(x['k'] == 'DeclRefExpr' and x.get('n') == res for x in f.walk(cn)) and (st['l'], st['c']) > (c['l'], c['c']):
                                how = 'the result `%s` is tested: `%s`' % (res, f.s(cn)[:60])
                            if how:
                                break
                        ctx.ob(rule, '%s:%s-=%s#%d:short' % (f.name, R, V[:30], k + 1), how is not None, f.loc(c), how or
                               'the result of %s is not tested: when the stream has ended the call returns 0 each time and the loop still runs %s / %s times (%s is a count taken from the file: '
                               'up to 2^63) - the open call does not return' % (c['callee'], R, V[:20], R), None)
    return n
