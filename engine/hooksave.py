"""HOOK-SAVE: a wrapper never saves itself as the function it wraps.

Pattern: B->f = psf->slot ; psf->slot = W   (save the installed reader / writer, install the wrapper W, W later calls B->f).
If psf->slot already is W when the save runs, W calls itself for ever.  For every such save:
  (a) no assignment psf->slot = W earlier in the same function reaches the save, unless the save is guarded, and
  (b) because the function can run again on the same handle (it is reached from sf_command), the save is guarded by a
      test psf->slot != W, or the whole function is once-only: a dominating test returns when the backup object that
      holds B already exists (`if (psf->interleave) return`).
"""
from .util import assigned_lvalues


def hook_save(ctx, prog, rule='HOOK-SAVE'):
    n = 0
    for f in sorted(prog.lib_fns(), key=lambda f: (f.file, f.line)):
        A = assigned_lvalues(f)
        for lv, a, r in A:
            if r is None or a.get('op') != '=' or lv.startswith('psf->'):
                continue
            ru = f.unwrap(r)
            if ru.get('k') != 'MemberExpr' or not f.s(ru).startswith('psf->') or '(*)' not in (ru.get('t') or ''):
                continue
            slot = f.s(ru)
            inst = [(a2, f.unwrap(r2)['n']) for lv2, a2, r2 in A if lv2 == slot and r2 is not None and f.unwrap(r2).get('dk') == 'func']
            if not inst:
                continue
            n += 1
            W = sorted({w for _, w in inst})
            guarded = any(anc['k'] == 'IfStmt' and slot in f.s(anc['cond']) and '!=' in f.s(anc['cond']) and any(w in f.s(anc['cond']) for w in W) and
                          anc.get('then') is not None and f.within(a, f.N[anc['then']]) for anc in f.ancestors(a))
            # once-only: the object that receives the backup is tested at the top and the function leaves when it exists
            holder = lv.split('->')[0]
            once = False
            for x in f.walk():
                if x['k'] == 'IfStmt' and f.cfg.dominates(x, a) and any(y['k'] == 'ReturnStmt' for y in f.walk(f.N[x['then']])):
                    cs = f.s(x['cond']).replace('(', '').replace(')', '').strip()
                    # `psf->interleave` / `psf->interleave != NULL`, where the holder local is assigned to / from that field
                    for lv3, a3, r3 in A:
                        if r3 is not None and ((lv3 == cs.split(' ')[0] and f.s(f.unwrap(r3)) == holder) or (lv3 == holder and cs.split(' ')[0] in f.s(r3))):
                            if '!' not in cs.split(' ')[0] and ('== 0' not in cs and '== NULL' not in cs):
                                once = True
            earlier = [a2 for a2, w in inst if (a2['l'], a2['c']) < (a['l'], a['c']) and f.cfg.point(a2) is not None and f.cfg.point(a) is not None and
                       (f.cfg.point(a2)[0] == f.cfg.point(a)[0] or f.cfg.path_avoiding(f.cfg.point(a2), {f.cfg.point(a)[0]}, set()) is not None)]
            ok = guarded or (once and not earlier)
            why = ('the save is guarded by `%s != %s`' % (slot, W[0])) if guarded else ('the function returns at once when %s already exists, and no earlier install of %s reaches the save' % (holder, W[0])) if ok else (
                'an earlier `%s = %s` at %s reaches this save: the wrapper stores itself as its own backend and calls itself for ever' % (slot, W[0], f.loc(earlier[0]))) if earlier else (
                'the function can run again on the same handle (second SFC_SET_DITHER_* command): %s then already is %s and the wrapper saves itself - the next call through the slot never returns' % (slot, W[0]))
            ctx.ob(rule, '%s:%s@%d' % (f.name, lv, a['l']), ok, f.loc(a), '%s = %s, then %s = %s: %s' % (lv, slot, slot, W[0], why), None)
    return n
