"""A-EFF: per-function write effects (record.field names, globals, out-parameters), transitive over the call graph."""
from collections import defaultdict

ASSIGN_OPS = {'=', '+=', '-=', '*=', '/=', '%=', '&=', '|=', '^=', '<<=', '>>='}


def lvalue_root(f, n):
    """innermost base of an lvalue expression: returns (root node, path of nodes)"""
    n = f.unwrap(n)
    while True:
        k = n['k']
        if k == 'MemberExpr' or k == 'ArraySubscriptExpr':
            n = f.unwrap(f.N[n['kids'][0]])
        elif k == 'UnaryOperator' and n['op'] in ('*', '&'):
            n = f.unwrap(f.N[n['kids'][0]])
        elif k == 'BinaryOperator' and n['op'] in ('+', '-') and 'psz' in n:
            n = f.unwrap(f.N[n['kids'][0]])
        else:
            return n


def writes_of(f):
    """direct writes in f: list of (lhs node, assign node, kind) where kind in assign/incdec"""
    out = []
    for n in f.walk():
        k = n['k']
        if k in ('BinaryOperator', 'CompoundAssignOperator') and n['op'] in ASSIGN_OPS:
            out.append((f.N[n['kids'][0]], n, 'assign'))
        elif k == 'UnaryOperator' and n['op'] in ('++', '--', 'post++', 'post--'):
            out.append((f.N[n['kids'][0]], n, 'incdec'))
    return out


class Effects:
    def __init__(self, prog):
        self.prog = prog
        self._direct = {}
        self._trans = {}

    def direct(self, f):
        """(fields written as set of (rec, field), globals written set, writes through params set of param names)"""
        if f.name in self._direct and self._direct[f.name][3] is f:
            return self._direct[f.name][:3]
        fields, globs, params = set(), set(), set()
        pnames = {p['n'] for p in f.params}
        for lhs, n, kind in writes_of(f):
            l = f.unwrap(lhs)
            # every member on the access path counts for its own field (writing a.b[3].c writes field c)
            if l['k'] == 'MemberExpr':
                fields.add((l.get('rec'), l['n']))
            elif l['k'] == 'ArraySubscriptExpr':
                b = f.unwrap(f.N[l['kids'][0]])
                while b['k'] == 'ArraySubscriptExpr':
                    b = f.unwrap(f.N[b['kids'][0]])
                if b['k'] == 'MemberExpr':
                    fields.add((b.get('rec'), b['n']))
            root = lvalue_root(f, l)
            if root['k'] == 'DeclRefExpr':
                if root['dk'] in ('global', 'static_local'):
                    globs.add(root['n'])
                elif root['dk'] == 'param' and l['k'] != 'DeclRefExpr':
                    params.add(root['n'])
        # memcpy/memset/snprintf-like destinations
        for c in f.calls():
            cal = c.get('callee')
            if cal in ('memcpy', 'memset', 'memmove', 'strncpy', 'strcpy', 'snprintf', 'sprintf', 'strcat', 'strncat', 'vsnprintf',
                       'psf_strlcpy', 'psf_strlcat', 'psf_fread', 'psf_binheader_readf', 'fread', 'read'):
                args = f.args(c)
                dests = args[:1] if cal != 'psf_binheader_readf' else args[2:]
                for a in dests:
                    a = f.unwrap(a)
                    if a['k'] == 'UnaryOperator' and a['op'] == '&':
                        a = f.unwrap(f.N[a['kids'][0]])
                    t = a
                    while t['k'] in ('ArraySubscriptExpr',) or (t['k'] == 'BinaryOperator' and t['op'] in '+-'):
                        t = f.unwrap(f.N[t['kids'][0]])
                    if t['k'] == 'MemberExpr':
                        fields.add((t.get('rec'), t['n']))
                    root = lvalue_root(f, a)
                    if root['k'] == 'DeclRefExpr':
                        if root['dk'] in ('global', 'static_local'):
                            globs.add(root['n'])
                        elif root['dk'] == 'param':
                            params.add(root['n'])
        self._direct[f.name] = (fields, globs, params, f)
        return fields, globs, params

    def trans_fields(self, name):
        """transitive set of (rec, field) possibly written by calling function `name`"""
        if name in self._trans:
            return self._trans[name]
        seen = self.prog.reachable_from([name])
        fields = set()
        for n in seen:
            for f in self.prog.fns.get(n, []):
                fields |= self.direct(f)[0]
        self._trans[name] = fields
        return fields

    def call_may_write_field(self, f, call, rec, field):
        cal = call.get('callee')
        if cal:
            if cal not in self.prog.fns:
                return False  # external libc: cannot know our records (dest args handled by caller)
            return (rec, field) in self.trans_fields(cal)
        sl = self.prog.indirect_callee_slot(f, call)
        if sl:
            for n in self.prog.slot(sl[1], sl[0]):
                if (rec, field) in self.trans_fields(n):
                    return True
            return False
        return True


def param_written(eff, prog, fname, idx, _seen=None):
    """may function `fname` write through its idx-th (pointer) parameter, directly or via callees?"""
    _seen = _seen if _seen is not None else set()
    if (fname, idx) in _seen:
        return False
    _seen.add((fname, idx))
    if fname not in prog.fns:
        return True
    for f in prog.fns[fname]:
        if idx >= len(f.params):
            return True
        pn = f.params[idx]['n']
        pt = f.params[idx]['t']
        if pt.startswith('const ') and pt.rstrip().endswith('*') and pt.count('*') == 1:
            continue
        if pn in eff.direct(f)[2]:
            return True
        for c in f.calls():
            for ai, a in enumerate(f.args(c)):
                au = f.unwrap(a)
                r = lvalue_root(f, au)
                if r['k'] == 'DeclRefExpr' and r['n'] == pn and r.get('dk') == 'param':
                    t = au.get('t', '')
                    if not (t.rstrip().endswith('*') or t.rstrip().endswith(']')) and not (au['k'] == 'UnaryOperator' and au['op'] == '&'):
                        continue
                    cal = c.get('callee')
                    if cal is None:
                        return True
                    if cal in ('memcpy', 'memmove', 'strcpy', 'strncpy', 'memset', 'snprintf', 'sprintf', 'fread', 'read') and ai == 0:
                        return True
                    if cal in prog.fns:
                        if param_written(eff, prog, cal, ai, _seen):
                            return True
                    # unknown external: assume read-only for common libc readers
                    elif cal not in ('strlen', 'strcmp', 'strncmp', 'memcmp', 'strstr', 'memcpy', 'memmove', 'strcpy', 'strncpy', 'snprintf', 'printf', 'fwrite', 'write', 'abs'):
                        return True
    return False
