"""BLOCK-FILL: a block decoder that fills a buffer of its private state with psf_fread and then decodes from that buffer must not decode
bytes the read did not deliver: they are what an earlier block left there, so the samples of a truncated last block would depend on which
block was decoded before (read in sequence: the block before; after a seek: whatever was decoded last).

For every psf_fread whose destination is a buffer reached through a pointer to a codec-private object (not SF_PRIVATE, not a caller's
SF_* structure, not a local scratch union), on every path from the read to a later use of that buffer one of these must happen first:
  (a) the function returns (the short read ends the decode),
  (b) the tail of the buffer is cleared (a memset on the buffer), or
  (c) the count that was delivered is stored in the private object (the decoder is told how much of the buffer is valid).
Paths on which the read is known to have been complete (the false edge of `k != N` / true edge of `k == N`) are exempt.
Frozen exceptions carry a written argument (tables/c06_blockfill.tsv).
"""
import os
import re


def _root_ptr(f, n):
    """the DeclRefExpr at the root of a member / subscript / address chain, and whether the chain went through `->`"""
    arrow = False
    n = f.unwrap(n)
    while True:
        k = n.get('k')
        if k == 'MemberExpr':
            if n.get('arrow'):
                arrow = True
            elif '->' in f.s(n) and '.' not in f.s(n).split('->')[-1]:
                arrow = True
            n = f.unwrap(f.N[n['kids'][0]])
        elif k in ('ArraySubscriptExpr',):
            n = f.unwrap(f.N[n['kids'][0]])
        elif k == 'UnaryOperator' and n.get('op') in ('&', '*'):
            n = f.unwrap(f.N[n['kids'][0]])
        elif k == 'BinaryOperator' and n.get('op') in ('+', '-'):
            n = f.unwrap(f.N[n['kids'][0]])
        else:
            break
    return (n if n.get('k') == 'DeclRefExpr' else None), arrow


def _buf_text(f, dst):
    """the member expression that names the buffer (`pima->block`), without index / offset / address-of"""
    n = f.unwrap(dst)
    while n.get('k') in ('ArraySubscriptExpr', 'UnaryOperator', 'BinaryOperator') and n.get('kids'):
        n = f.unwrap(f.N[n['kids'][0]])
    return f.s(n) if n.get('k') == 'MemberExpr' else None


def load_frozen(path):
    out = {}
    if os.path.exists(path):
        for line in open(path):
            line = line.rstrip('\n')
            if not line or line.startswith('#'):
                continue
            p = line.split('\t')
            if len(p) >= 3:
                out[p[0]] = (p[1], p[2])
    return out


def _support(prog, f, kind):
    """the fact a frozen argument rests on is re-established from the source on every run"""
    from .util import assigned_lvalues
    same = [g for g in prog.lib_fns() if g.file == f.file]
    if kind == 'nonseekable':
        # the codec switches seeking off when it is set up: some function of the file stores 0 into psf->sf.seekable
        return any(lv == 'psf->sf.seekable' and r is not None and g.unwrap(r).get('v') == 0 for g in same for lv, n, r in assigned_lvalues(g))
    if kind == 'frames-floor':
        # the frame count of a file opened for reading counts whole blocks: every store into psf->sf.frames in the file is a product with a factor
        # `psf->datalength / <block size>` (no rounding up)
        st = [(g, r) for g in same for lv, n, r in assigned_lvalues(g) if lv == 'psf->sf.frames' and r is not None]
        def floor_(g, r):
            r = g.unwrap(r)
            if r.get('k') != 'BinaryOperator' or r.get('op') != '*':
                return False
            for kid in r['kids']:
                x = g.unwrap(g.N[kid])
                if x.get('k') == 'BinaryOperator' and x.get('op') == '/' and g.s(g.unwrap(g.N[x['kids'][0]])) == 'psf->datalength':
                    return True
            return False
        return bool(st) and all(floor_(g, r) for g, r in st)
    return False


def block_fill(ctx, prog, rule='BLOCK-FILL', frozen=None):
    frozen = frozen or {}
    n_inst = 0
    for f in sorted(prog.lib_fns(), key=lambda f: (f.file, f.line)):
        for c in f.calls('psf_fread'):
            args = f.args(c)
            if len(args) < 4:
                continue
            root, _ = _root_ptr(f, args[0])
            buf = _buf_text(f, args[0])
            if root is None or buf is None or '->' not in buf:
                continue
            rt = (root.get('t') or '')
            if '*' not in rt or 'sf_private_tag' in rt or re.search(r'\bSF_[A-Z_]+\b', rt):
                continue
            if buf.startswith('psf->'):
                continue
            cfg = f.cfg
            pt = cfg.point(c)
            if pt is None:
                continue
            n_inst += 1
            key = '%s:%s' % (f.name, buf)
            # result variable (k = psf_fread ...) or direct store into a field
            par = f.N[f.parent[c['id']]]
            while par['k'] in ('ImplicitCastExpr', 'ParenExpr', 'CStyleCastExpr'):
                par = f.N[f.parent[par['id']]]
            resvar, direct_field = None, False
            if par['k'] == 'BinaryOperator' and par.get('op') == '=':
                lhs = f.unwrap(f.N[par['kids'][0]])
                if lhs.get('k') == 'DeclRefExpr':
                    resvar = lhs.get('n')
                elif lhs.get('k') == 'MemberExpr' and not f.s(lhs).startswith('psf->'):
                    direct_field = True
            elif par['k'] == 'VarDecl':
                resvar = par.get('n')
            if direct_field:
                ctx.ob(rule, key, True, f.loc(c), 'the delivered count is stored in the private object by the read statement itself (%s)' % f.s(par)[:70], None)
                continue
            # fills: memset on the buffer, or `private->field = resvar`
            fills = set()
            for m in f.calls('memset'):
                if buf in f.s(f.args(m)[0]):
                    p_ = cfg.point(m)
                    if p_ is not None:
                        fills.add(p_)
            if resvar:
                for x in f.walk():
                    if x['k'] == 'BinaryOperator' and x.get('op') == '=':
                        l_, r_ = f.unwrap(f.N[x['kids'][0]]), f.unwrap(f.N[x['kids'][1]])
                        if l_.get('k') == 'MemberExpr' and not f.s(l_).startswith('psf->') and r_.get('k') == 'DeclRefExpr' and r_.get('n') == resvar:
                            p_ = cfg.point(x)
                            if p_ is not None:
                                fills.add(p_)
            # uses: any other occurrence of the buffer after the read that is not inside the read, a fill or a log call
            skip_calls = [c] + [m for m in f.calls('memset')] + [m for m in f.calls('psf_log_printf')]
            uses = []
            for x in f.walk():
                if x['k'] == 'MemberExpr' and f.s(x) == buf and not any(f.within(x, s_) for s_ in skip_calls):
                    p_ = cfg.point(x)
                    if p_ is not None and p_ != pt:
                        uses.append((p_, x))
            if not uses:
                ctx.ob(rule, key, True, f.loc(c), 'the buffer is not used again in this function', None)
                continue
            # edges on which the read is known complete
            n_items = f.s(f.unwrap(args[2]))

            def complete_edge(b, si):
                blk = cfg.blocks[b]
                if 'cond' not in blk or len(blk['succs']) != 2 or blk.get('tk') == 'SwitchStmt':
                    return False
                cn = f.unwrap(f.N[blk['cond']] if isinstance(blk['cond'], int) else blk['cond'])
                if cn.get('op') in ('&&', '||') and blk['elems']:
                    e_ = blk['elems'][-1]
                    cn = f.unwrap(f.N[e_] if isinstance(e_, int) else e_)
                if cn.get('k') != 'BinaryOperator' or cn.get('op') not in ('==', '!='):
                    return False
                l_, r_ = f.unwrap(f.N[cn['kids'][0]]), f.unwrap(f.N[cn['kids'][1]])
                sides = [l_, r_]
                has_res = any((resvar and s_.get('k') == 'DeclRefExpr' and s_.get('n') == resvar) or f.within(c, s_) or
                              (s_.get('k') == 'BinaryOperator' and s_.get('op') == '=' and f.within(c, s_)) for s_ in sides)
                has_n = any(f.s(s_) == n_items for s_ in sides)
                if not (has_res and has_n):
                    return False
                return (cn['op'] == '==') == (si == 0)

            bad = None
            for (up, x) in sorted(uses, key=lambda u: u[0]):
                ub, ui = up
                # a fill earlier in the same block discharges this use
                if any(fb == ub and fi < ui and (ub != pt[0] or fi > pt[1]) for (fb, fi) in fills):
                    continue
                if ub == pt[0] and ui > pt[1]:
                    bad = x
                    break
                if ub == pt[0] and ui < pt[1]:
                    # before the read in the same block: only reachable again round a loop; handled by the path search below
                    pass
                w = cfg.path_avoiding(pt, {ub}, fills, edge_ok=lambda b, si: not complete_edge(b, si))
                if w is not None:
                    bad = x
                    break
            if bad is None:
                ctx.ob(rule, key, True, f.loc(c), 'every path from a short read to a use of %s returns, clears the tail or records the delivered count first' % buf, None)
            elif key in frozen and _support(prog, f, frozen[key][0]):
                ctx.ob(rule, key, True, f.loc(c), 'frozen (tables/c06_blockfill.tsv), supporting fact `%s` re-established from the source: %s' % frozen[key], None)
            else:
                ctx.ob(rule, key, False, f.loc(bad), '%s decodes from %s (line %s) after a psf_fread that may have delivered fewer than `%s` bytes, without clearing the rest or recording the count: '
                       'the bytes an earlier block left there are decoded, so the samples of a truncated block depend on what was decoded before' % (f.name, buf, bad.get('l'), n_items), None)
    return n_inst
