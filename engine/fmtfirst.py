"""FMT-FIRST: storage sized by the channel count is allocated only once the channel count is final.

In a header reader, `peak_info_calloc (psf->sf.channels)` (directly, or through wavlike_read_peak_chunk) sizes the
per-channel table from psf->sf.channels.  If that runs before the chunk that carries the channel count was parsed, the
table has zero (or stale) entries while later code indexes it with the final count: every reader of peaks [0..channels)
then runs off the block.  Obligation for each such call in a function that parses chunks in a loop:
  (i)  a statement that assigns SF_INFO.channels (directly or through a callee) dominates the call, or
  (ii) the call is dominated by a rejecting test `(S & M) != M2` on the parse-state variable S whose masks contain the bit
       that the channel-assigning arm ORs into S (`parsestage |= HAVE_fmt`).
"""
from .util import assigned_lvalues
from .arms import switch_arm_stmts

SIZED_BY_CHANNELS = ('peak_info_calloc', 'wavlike_read_peak_chunk')


def sized_by_channels(prog):
    """functions that allocate a per-channel table from psf->sf.channels -> the handle field that receives it"""
    out = {'peak_info_calloc': 'peak_info', 'wavlike_read_peak_chunk': 'peak_info'}
    for g in prog.lib_fns():
        for lv, a, r in assigned_lvalues(g):
            if r is None or not lv.startswith('psf->') or a.get('op') != '=':
                continue
            for c in g.calls(root=r):
                if c.get('callee') in ('calloc', 'malloc', 'peak_info_calloc') and any('psf->sf.channels' in g.s(x) for x in g.args(c)):
                    if not g.name.endswith('_read_header') and not g.name.startswith('sf_') and g.name not in ('psf_open_file',):
                        out[g.name] = lv.split('->')[-1]
    return out


def fmt_first(ctx, prog, eff, rule='FMT-FIRST'):
    n_inst = 0
    for f in sorted(prog.lib_fns(), key=lambda f: (f.file, f.line)):
        if not f.name.endswith('_read_header'):
            continue
        sized = sized_by_channels(prog)
        allocs = [c for c in f.calls() if c.get('callee') in sized]
        if not allocs:
            continue
        setters = []
        for lv, a, r in assigned_lvalues(f):
            if lv == 'psf->sf.channels':
                setters.append(a)
        for c in f.calls():
            if c.get('callee') and c['callee'] in prog.fns and ('SF_INFO', 'channels') in eff.trans_fields(c['callee']):
                setters.append(c)
        # flag bits ORed in the arms that contain a setter
        bits = {}
        for sw in [n for n in f.walk() if n['k'] == 'SwitchStmt']:
            for vals, names, has_def, stmts in switch_arm_stmts(f, sw):
                has_set = any(f.within(s_, st) or s_ is st for st in stmts for s_ in setters)
                if not has_set:
                    continue
                for st in stmts:
                    for lv, a, r in assigned_lvalues(f, st):
                        if a['k'] == 'CompoundAssignOperator' and a.get('op') == '|=' and r is not None and f.unwrap(r).get('v') is not None:
                            bits.setdefault(lv, 0)
                            bits[lv] |= f.unwrap(r)['v']
        for k, c in enumerate(allocs):
            n_inst += 1
            key = '%s:%s#%d' % (f.name, c['callee'], k + 1)
            dom = [s_ for s_ in setters if f.cfg.dominates(s_, c)]
            if dom:
                ctx.ob(rule, key, True, f.loc(c), 'the channel count is assigned at %s, which dominates the allocation' % f.loc(dom[0]), None)
                continue
            ok = False
            why = 'no dominating assignment of the channel count and no parse-state test found'
            for n in f.walk():
                if n['k'] != 'IfStmt' or not f.cfg.dominates(n, c) and not any(f.cfg.dominates(x, c) for x in f.walk(n['cond'])):
                    continue
                cn = f.unwrap(f.N[n['cond']])
                if cn.get('k') != 'BinaryOperator' or cn.get('op') != '!=':
                    continue
                l, r = f.unwrap(f.N[cn['kids'][0]]), f.unwrap(f.N[cn['kids'][1]])
                if l.get('k') != 'BinaryOperator' or l.get('op') != '&':
                    continue
                S = f.s(f.N[l['kids'][0]])
                M = f.unwrap(f.N[l['kids'][1]]).get('v')
                M2 = r.get('v')
                if S not in bits or M is None or M2 is None:
                    continue
                if not any(x['k'] in ('ReturnStmt', 'BreakStmt', 'ContinueStmt', 'GotoStmt') for x in f.walk(n['then'])):
                    continue            # the then-branch must leave the arm (error return, or skip the chunk and break)
                B = bits[S]
                if (M & B) == B and (M2 & B) == B:
                    ok = True
                    why = 'rejected unless (%s & 0x%X) == 0x%X, which includes the bit(s) 0x%X set where the channel count is parsed' % (S, M, M2, B)
                else:
                    why = 'the parse-state test (%s & 0x%X) != 0x%X does not include the bit(s) 0x%X set where the channel count is parsed: the table is sized from a channel count that is not known yet' % (S, M, M2, B)
                break
            ctx.ob(rule, key, ok, f.loc(c), why, None)
        # (iii) once the table exists the channel count must not change under it: a setter that can run again in the same chunk loop
        #       is guarded by "this chunk was already seen" or discards the table itself
        LOOPS = ('WhileStmt', 'ForStmt', 'DoStmt')
        for s_ in setters:
            lp = [a for a in f.ancestors(s_) if a['k'] in LOOPS]
            if not lp or not any(f.within(c, lp[-1]) for c in allocs):
                continue
            for tfield in sorted({sized[c['callee']] for c in allocs if f.within(c, lp[-1])}):
                n_inst += 1
                key = '%s:again:%s:%s' % (f.name, f.s(s_)[:40].replace(' ', ''), tfield)
                why = None
                for n in f.walk(lp[-1]):
                    if n['k'] != 'IfStmt' or n.get('then') is None or not f.cfg.dominates(n, s_) and not any(f.cfg.dominates(x, s_) for x in f.walk(n['cond'])):
                        continue
                    cn = f.unwrap(f.N[n['cond']])
                    if cn.get('k') == 'BinaryOperator' and cn.get('op') == '&' and f.s(f.N[cn['kids'][0]]) in bits:
                        S = f.s(f.N[cn['kids'][0]])
                        M = f.unwrap(f.N[cn['kids'][1]]).get('v')
                        if M is not None and (M & bits[S]) and (M & ~bits[S]) == 0 and any(x['k'] in ('BreakStmt', 'ReturnStmt', 'ContinueStmt') for x in f.walk(n['then'])):
                            why = 'a repeated chunk is left alone: `if (%s)` leaves before the channel count is parsed again' % f.s(cn)[:50]
                            break
                if why is None and s_['k'] == 'CallExpr' and s_.get('callee'):
                    seen_, todo_ = set(), [s_['callee']]
                    while todo_ and why is None:
                        g_ = todo_.pop()
                        if g_ in seen_ or g_ not in prog.fns:
                            continue
                        seen_.add(g_)
                        for gf in prog.fns[g_] if isinstance(prog.fns[g_], list) else [prog.fns[g_]]:
                            for c_ in gf.calls():
                                if c_.get('callee') == 'free' and gf.s(gf.unwrap(gf.args(c_)[0])).endswith(tfield):
                                    why = '%s discards the existing table (free (%s)) when it parses the channel count' % (g_, gf.s(gf.unwrap(gf.args(c_)[0])))
                                    break
                                if c_.get('callee') and len(seen_) < 6:
                                    todo_.append(c_['callee'])
                ctx.ob(rule, key, why is not None, f.loc(s_), why or 'the channel count can be parsed again after the per-channel table was allocated (a second format chunk): nothing stops it and nothing '
                       'discards the table, so a larger channel count makes every reader of psf->%s [0..channels) run off the block' % tfield, None)
    ctx.require(n_inst >= 4, 'only %d channel-sized allocations found in header readers' % n_inst)
