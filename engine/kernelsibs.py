"""KERNEL-SIBS: the sample-type variants of one conversion kernel agree on everything that is not the sample type.

Kernels come in families  <code>2{s,i,f,d}_array  (file code -> caller type) and  {s,i,f,d}2<code>_array  (caller type -> file
code).  Within a family
  (a) a local variable that is carried (accumulated, or copied into / out of the codec state) has the same type in all members, unless its type is the member's
      own sample type (short / int / float / double) — an accumulator declared `int` in one variant and `short` in its
      three siblings changes the wrap-around arithmetic of that variant only;
  (b) the stores into fields of a codec-private struct (predictor / carry state kept between calls) are the same
      (field, value expression) pairs in every member.
Files whose kernels are decided bit-exactly by A-LANE (pcm.c) are included as well: the rule is cheap and independent."""
import re
from .util import assigned_lvalues

TNAME = {'s': 'short', 'i': 'int', 'f': 'float', 'd': 'double'}


def kernel_families(prog):
    fam = {}
    for f in prog.lib_fns():
        m = re.match(r'^(psf_)?([a-z0-9]+)2([a-z0-9]+?)(_clip)?_array$', f.name)
        if not m:
            continue
        a, b, clip = m.group(2), m.group(3), m.group(4) or ''
        if len(a) == 1 and a in TNAME and not (len(b) == 1 and b in TNAME):
            key, T = (f.file, 'w', b, clip), a
        elif len(b) == 1 and b in TNAME and not (len(a) == 1 and a in TNAME):
            key, T = (f.file, 'r', a, clip), b
        else:
            continue
        fam.setdefault(key, {})[T] = f
    return {k: v for k, v in fam.items() if len(v) >= 3}


def kernel_sibs(ctx, prog, rule='KERNEL-SIBS'):
    n = 0
    for key, d in sorted(kernel_families(prog).items()):
        locs = {}
        stores = {}
        for T, f in d.items():
            for x in f.walk():
                if x['k'] == 'DeclStmt':
                    for v in x.get('decls', []):
                        locs.setdefault(v['n'], {})[T] = v['t']
            # a pointer that is advanced in the kernel is a cursor over the sample arrays, not the codec's private state
            cursors = {lv for lv, a, r in assigned_lvalues(f) if '->' not in lv and '[' not in lv and (a['k'] in ('CompoundAssignOperator', 'UnaryOperator'))}
            f.__dict__['_ks_cursors'] = cursors
            stores[T] = sorted({(lv, f.s(r)) for lv, a, r in assigned_lvalues(f) if '->' in lv and r is not None and lv.split('->')[0].lstrip('(*') not in cursors})
        n += 1
        name = '%s:%s2%s%s' % (key[0].split('/')[-1], '*' if key[1] == 'w' else key[2], key[2] if key[1] == 'w' else '*', key[3])
        bad = []
        carried = set()
        for T, f in d.items():
            for lv, a, r in assigned_lvalues(f):
                if '->' in lv or '[' in lv or lv == 'i' or lv == 'k':
                    continue
                if a['k'] in ('CompoundAssignOperator', 'UnaryOperator'):
                    carried.add(lv)
                elif r is not None and any(x['k'] == 'DeclRefExpr' and x.get('n') == lv for x in f.walk(r)):
                    carried.add(lv)
            # a local that is stored into / loaded from the private struct carries state between calls
            for lv, a, r in assigned_lvalues(f):
                if '->' in lv and r is not None and lv.split('->')[0].lstrip('(*') not in f.__dict__.get('_ks_cursors', ()):
                    carried |= {x['n'] for x in f.walk(r) if x['k'] == 'DeclRefExpr' and x.get('dk') in (None, 'var', 'local')}
        for v, ts in sorted(locs.items()):
            if len(ts) < 2 or v not in carried:
                continue        # only accumulators / carried state: a temporary that is assigned before every use may be declared wider in one variant
            vals = set(ts.values())
            if len(vals) == 1:
                continue
            # allowed: every member's type is that member's own sample type (possibly const / unsigned variants excluded)
            if all(t == TNAME[T] for T, t in ts.items()):
                continue
            # allowed: the f / d members use their floating type, the integer members agree among themselves
            ints = {t for T, t in ts.items() if T in 'si'}
            flts = {T: t for T, t in ts.items() if T in 'fd'}
            if len(ints) <= 1 and all(t in ('float', 'double') and t == TNAME[T] for T, t in flts.items()):
                continue
            bad.append('local `%s`: %s' % (v, ', '.join('%s: %s' % (d[T].name, t) for T, t in sorted(ts.items()))))
        ref = None
        for T in sorted(stores):
            if ref is None:
                ref = stores[T]
            elif stores[T] != ref:
                bad.append('state stores differ: %s %s vs %s %s' % (d[T].name, stores[T], d[sorted(stores)[0]].name, ref))
        f0 = d[sorted(d)[0]]
        ctx.ob(rule, name, not bad, f0.loc(f0.body), '%d variants agree on local types and state stores' % len(d) if not bad else '; '.join(bad)[:400], None)
    return n
