"""TEMPLATE STAGING: conversion loops that stage samples through a BUF_UNION between the caller buffer and psf_fread/psf_fwrite."""
from .bounds import Bounds
from .util import assigned_lvalues


def staging_functions(prog):
    out = []
    for f in prog.lib_fns():
        ub = None
        for n in f.walk():
            if n['k'] == 'DeclStmt':
                for d in n.get('decls', []):
                    if d['t'] == 'BUF_UNION':
                        ub = d['n']
        if not ub:
            continue
        ios = [c for c in f.calls(('psf_fread', 'psf_fwrite')) if f.s(f.unwrap(f.args(c)[0])).startswith(ub + '.')]
        # sample staging functions have the codec signature (psf, T *ptr, sf_count_t len)
        if ios and len(f.params) == 3 and f.params[1]['t'].rstrip().endswith('*') and f.params[2]['t'] in ('long', 'long long'):
            out.append((f, ub, ios))
    return out


def check_staging(ctx, prog, eff, rule='STAGING'):
    bu = prog.record('BUF_UNION')
    cap = {fl['n']: (fl.get('alen', 1), fl.get('esz', fl['sz'])) for fl in bu['fields']}
    total_sz = bu['size']
    n = 0
    for f, ub, ios in staging_functions(prog):
        bd = Bounds(prog, f, eff)
        asg = assigned_lvalues(f)
        for io in ios:
            n += 1
            args = f.args(io)
            mem = f.s(f.unwrap(args[0]))[len(ub) + 1:].split('[')[0]
            esz = f.unwrap(args[1]).get('v')
            cnt = f.unwrap(args[2])
            key = '%s:%s@%d' % (f.name, io['callee'], len([x for x in ios if x['id'] <= io['id']]))
            probs = []
            # S1 capacity
            b = bd.ev(cnt)
            if esz is None or b.hi is None or b.hi * esz > total_sz or mem not in cap:
                probs.append('count %s (upper bound %s) x element size %s not proven to fit the %d-byte staging buffer' % (f.s(cnt), b.hi, esz, total_sz))
            elif mem in cap and b.hi * esz > cap[mem][0] * cap[mem][1]:
                probs.append('count %s x %s exceeds member %s' % (b.hi, esz, mem))
            # S2 count bounded by the remaining request
            lenp = f.params[2]['n'] if len(f.params) >= 3 else None
            in_loop = any(a['k'] in ('WhileStmt', 'ForStmt', 'DoStmt') for a in f.ancestors(io))
            if lenp and in_loop:
                if not (('<=', lenp) in b.ubs or ('<', lenp) in b.ubs or f.s(cnt) == lenp):
                    probs.append('count %s is not clamped to the remaining request `%s` (%r)' % (f.s(cnt), lenp, b))
            # result variable
            par = f.N[f.parent[io['id']]] if io['id'] in f.parent else None
            while par is not None and par['k'] in ('CStyleCastExpr', 'ImplicitCastExpr', 'ParenExpr'):
                par = f.N[f.parent[par['id']]] if par['id'] in f.parent else None
            rvar = None
            if par is not None and par['k'] == 'BinaryOperator' and par['op'] == '=':
                rvar = f.s(par['kids'][0])
            if in_loop and lenp:
                if rvar is None:
                    probs.append('result of %s is not kept: a short transfer cannot be noticed' % io['callee'])
                else:
                    # S4 running total grows by the transfer result on every path from the transfer to the exit
                    adds = [n2 for (lv, n2, rhs) in asg if n2['k'] == 'CompoundAssignOperator' and n2['op'] == '+=' and rhs is not None and f.s(rhs) == rvar]
                    totals = {f.s(n2['kids'][0]) for n2 in adds}
                    if not adds:
                        probs.append('no running total `+= %s`' % rvar)
                    else:
                        ok, w = f.cfg.must_pass(io, adds)
                        if not ok:
                            probs.append('a path from the transfer to the exit skips `%s += %s`: lines %s (items transferred but not counted)' % (sorted(totals)[0], rvar, f.cfg.block_lines(w)))
                        rets = [f.s(f.unwrap(f.N[r['kids'][0]])) for r in f.cfg.returns() if r['kids']]
                        if not any(r in totals for r in rets):
                            probs.append('function returns %s, not the running total %s' % (rets, sorted(totals)))
                    # S5 short-transfer exit
                    short = [blk for blk in f.cfg.blocks.values() if 'cond' in blk and f.s(blk['cond']) in ('(%s < %s)' % (rvar, f.s(cnt)), '(%s != %s)' % (rvar, f.s(cnt)), '(%s == 0)' % rvar, '(%s <= 0)' % rvar)]
                    if not short:
                        probs.append('no exit on a short transfer (`%s < %s`)' % (rvar, f.s(cnt)))
                    # S3 converter consumes the transfer result on reads
                    if io['callee'] == 'psf_fread':
                        for c in f.calls():
                            if c['id'] == io['id'] or c.get('callee') in ('psf_fread', 'psf_fwrite'):
                                continue
                            cargs = [f.s(f.unwrap(a)) for a in f.args(c)]
                            ptrn = f.params[1]['n']
                            to_caller = any(a == ptrn or a.startswith('(' + ptrn + ' ') for a in cargs)
                            if any(a.startswith(ub + '.') for a in cargs) and to_caller and f.cfg.dominates(io, c):
                                if f.s(cnt) in cargs and rvar not in cargs:
                                    probs.append('%s converts `%s` items after the read instead of the %s actually read' % (f.s(c['kids'][0]), f.s(cnt), rvar))
                    # S6 remaining request shrinks
                    dec = [n2 for (lv, n2, rhs) in asg if lv == lenp and n2['k'] == 'CompoundAssignOperator' and n2['op'] == '-=']
                    if not dec:
                        probs.append('remaining request `%s` never shrinks' % lenp)
            ctx.ob(rule, key, not probs, f.loc(io), 'staging loop obligations hold (capacity, clamp, result counted, short-transfer exit)' if not probs else '; '.join(probs), None)
    return n
