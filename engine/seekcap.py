"""SEEK-CAP: a codec that can only rewind says so.

sf_seek, the SFC_CALC_* commands (which must put the read position back) and the wrappers' re-seek after a failed read
all rely on psf->sf.seekable: when it is TRUE every in-range frame offset must be reachable through the codec's seek
hook.  A hook whose only successful exits are for offset == 0 (or that ignores its offset altogether) is rewind-only;
the init function of that codec (same file) must then set psf->sf.seekable = SF_FALSE.
"""
from .util import assigned_lvalues


def _rewind_only(f):
    off = [p_['n'] for p_ in f.params][-1] if f.params else None
    if off is None:
        return None
    uses = [n for n in f.walk() if n['k'] == 'DeclRefExpr' and n.get('n') == off]
    if not uses:
        return 'the offset parameter is not used at all'
    succ = []
    for r in f.walk():
        if r['k'] != 'ReturnStmt' or not r.get('kids'):
            continue
        v = f.unwrap(f.N[r['kids'][0]])
        if v.get('v') == -1 or 'PSF_SEEK_ERROR' in f.s(v):
            continue
        succ.append(r)
    if not succ:
        return None
    for r in succ:
        zero_only = False
        for n in f.walk():
            if n['k'] != 'IfStmt':
                continue
            cs = f.s(n['cond']).replace(' ', '')
            if cs == '(%s==0)' % off and n.get('then') is not None and f.within(r, f.N[n['then']]):
                zero_only = True
            if cs == '(%s!=0)' % off and any(y['k'] == 'ReturnStmt' for y in f.walk(f.N[n['then']])) and not f.within(r, n) and f.cfg.dominates(n, r):
                zero_only = True
        if not zero_only:
            return None
    return 'every successful return is taken for offset == 0 only'


def seek_cap(ctx, prog, rule='SEEK-CAP'):
    n = 0
    tg = prog.slots.get(('sf_private_tag', 'seek'), {})
    for name in sorted(tg):
        if name in ('NULL', '?') or name.startswith('@') or name == 'psf_default_seek':
            continue
        for f in prog.fns.get(name, []):
            n += 1
            ro = _rewind_only(f)
            if ro is None:
                ctx.ob(rule, name, True, f.loc(f.body), 'has a successful exit for offsets other than 0', None)
                continue
            cleared = []
            for g in prog.lib_fns():
                if g.file != f.file:
                    continue
                for lv, a, r in assigned_lvalues(g):
                    if lv == 'psf->sf.seekable' and r is not None and g.unwrap(r).get('v') == 0:
                        cleared.append((g, a))
            ok = bool(cleared)
            ctx.ob(rule, name, ok, f.loc(f.body), 'rewind-only (%s); %s' % (ro, ('%s sets psf->sf.seekable = SF_FALSE at %s' % (cleared[0][0].name, cleared[0][0].loc(cleared[0][1]))) if ok else
                   'but nothing in %s clears psf->sf.seekable: sf_seek to a non-zero frame fails on a handle that claims to be seekable, and SFC_CALC_SIGNAL_MAX / SFC_CALC_MAX_ALL_CHANNELS '
                   'cannot put the read position back (they leave it at the end of the data)' % f.file.split('/')[-1]), None)
    return n
