"""Extraction driver: /repo working tree -> facts (one JSON per library unit), cached by content hash.

Every invocation recomputes the hash of everything the facts depend on (all sources and headers of the
library target, the generated config.h, the compile flags, the extractor binary).  A cache hit means the
working tree is byte-identical to the one the facts were extracted from; anything else re-extracts.
"""
import hashlib, json, os, shutil, subprocess, sys, tempfile, time
from concurrent.futures import ThreadPoolExecutor

VERIF = os.path.dirname(os.path.dirname(os.path.abspath(__file__)))
REPO = os.environ.get('VERIF_REPO', '/repo')
SFX = os.path.join(VERIF, 'tools', 'sfx', 'sfx')
CACHE = os.environ.get('VERIF_CACHE') or os.path.join(VERIF, '.cache')
TARGET_PREFIX = 'CMakeFiles/sndfile.dir/'


class AnalysisBroken(Exception):
    """exit code 2: the analysis itself could not be carried out (never a pass, never a violation)"""


def build_sfx():
    src = os.path.join(VERIF, 'tools', 'sfx', 'sfx.cc')
    if os.path.exists(SFX) and os.path.getmtime(SFX) >= os.path.getmtime(src):
        return
    flags = subprocess.check_output(['llvm-config-14', '--cxxflags'], text=True).split()
    cmd = ['clang++'] + flags + ['-fno-rtti', '-O1', src, '-o', SFX,
                                 '/usr/lib/llvm-14/lib/libclang-cpp.so.14', '/usr/lib/llvm-14/lib/libLLVM-14.so']
    subprocess.check_call(cmd)


def _compdb(repo):
    """returns (entries for the sndfile library target, build dir used, scratch dir to remove or None)"""
    bdir = os.path.join(repo, '_build')
    scratch = None
    donor = os.environ.get('VERIF_COMPDB_FROM')
    rewrite = None
    if donor and os.path.abspath(donor) != os.path.abspath(repo) and not os.path.exists(os.path.join(bdir, 'build.ninja')):
        # scratch copy of the sources (positive controls): flags and generated headers come from the donor's
        # build directory, source and header paths are redirected to the copy
        bdir = os.path.join(donor, '_build')
        rewrite = (os.path.abspath(donor), os.path.abspath(repo))
    if not os.path.exists(os.path.join(bdir, 'build.ninja')) or not os.path.exists(os.path.join(bdir, 'src', 'config.h')):
        scratch = tempfile.mkdtemp(prefix='sfverif-build-')
        r = subprocess.run(['cmake', '-G', 'Ninja', '-S', repo, '-B', scratch, '-DCMAKE_BUILD_TYPE=RelWithDebInfo'],
                           stdout=subprocess.PIPE, stderr=subprocess.STDOUT, text=True)
        if r.returncode != 0:
            shutil.rmtree(scratch, ignore_errors=True)
            raise AnalysisBroken('cmake configure failed:\n' + r.stdout[-2000:])
        bdir = scratch
    out = subprocess.check_output(['ninja', '-C', bdir, '-t', 'compdb'], text=True)
    db = json.loads(out)
    seen = set()
    ents = []
    for e in db:
        if not e.get('output', '').startswith(TARGET_PREFIX):
            continue
        if e['file'] in seen:
            continue
        seen.add(e['file'])
        if rewrite:
            a, b = rewrite
            e = dict(e)
            for sub in ('src', 'include'):
                e['file'] = e['file'].replace(a + '/' + sub + '/', b + '/' + sub + '/')
                e['command'] = e['command'].replace(a + '/' + sub, b + '/' + sub)
        ents.append(e)
    return ents, bdir, scratch


def _tree_hash(repo, ents, bdir, extra):
    h = hashlib.sha1()
    files = []
    for root in (os.path.join(repo, 'src'), os.path.join(repo, 'include')):
        for dp, dn, fn in os.walk(root):
            for f in fn:
                if f.endswith(('.c', '.h', '.def', '.hh')):
                    files.append(os.path.join(dp, f))
    for f in (os.path.join(bdir, 'src', 'config.h'), os.path.join(bdir, 'include', 'sndfile.h'), SFX):
        if os.path.exists(f):
            files.append(f)
    for f in sorted(files):
        h.update(f.encode())
        with open(f, 'rb') as fh:
            h.update(hashlib.sha1(fh.read()).digest())
    for e in sorted(ents, key=lambda e: e['file']):
        h.update(e['file'].encode())
        h.update(e['command'].replace(bdir, '$B').encode())
    h.update(repr(extra).encode())
    return h.hexdigest()[:20]


OVERLAYS = {
    # name: ({macro: value} rewritten in the generated config.h, extra compiler args)
    'be': ({'CPU_IS_BIG_ENDIAN': '1', 'CPU_IS_LITTLE_ENDIAN': '0', 'WORDS_BIGENDIAN': '1'}, []),
    'nosse': ({'HAVE_LRINT': '0', 'HAVE_LRINTF': '0'}, ['-U__SSE2__']),
    'experimental': ({'ENABLE_EXPERIMENTAL_CODE': '1'}, []),
}


def _overlay(name, bdir):
    """configuration overlay: a rewritten copy of the generated config.h placed first on the include path
    (syntax-only analysis, so no cross toolchain is needed).  Returns (extra args, tag)."""
    import re
    defs, args = OVERLAYS[name]
    src = open(os.path.join(bdir, 'src', 'config.h')).read()
    for k, v in defs.items():
        src, n = re.subn(r'(?m)^#define\s+%s\s+\S+\s*$' % k, '#define %s %s' % (k, v), src)
        if n != 1:
            raise AnalysisBroken('overlay %s: macro %s not found exactly once in config.h' % (name, k))
    tag = name + '-' + hashlib.sha1(src.encode()).hexdigest()[:10]
    odir = os.path.join(CACHE, 'overlay', tag)
    os.makedirs(odir, exist_ok=True)
    f = os.path.join(odir, 'config.h')
    if not os.path.exists(f) or open(f).read() != src:
        open(f, 'w').write(src)
    return ['-I' + odir] + list(args), tag


def extract(repo=None, extra_args=(), tag='base', only=None, overlay=None):
    """Extract facts for all units of the sndfile target.  Returns (facts_dir, info dict)."""
    repo = repo or REPO
    t0 = time.time()
    build_sfx()
    ents, bdir, scratch = _compdb(repo)
    try:
        if overlay:
            oargs, tag = _overlay(overlay, bdir)
            extra_args = list(extra_args) + oargs
        if len(ents) < 60:
            raise AnalysisBroken('compile database lists only %d units for target sndfile' % len(ents))
        key = _tree_hash(repo, ents, bdir, (tuple(extra_args), tag))
        fdir = os.path.join(CACHE, 'facts', key)
        done = os.path.join(fdir, '.done')
        info = {'units': len(ents), 'key': key, 'cached': os.path.exists(done), 'build_dir': bdir, 'overlay': overlay}
        cfgh = None
        for a in extra_args:
            if a.startswith('-I') and os.path.exists(os.path.join(a[2:], 'config.h')):
                cfgh = os.path.join(a[2:], 'config.h')
        cfgh = cfgh or os.path.join(bdir, 'src', 'config.h')
        import re as _re
        m = _re.search(r'(?m)^#define\s+CPU_IS_BIG_ENDIAN\s+(\d+)', open(cfgh).read())
        info['big_endian'] = bool(m and m.group(1) == '1')
        if not os.path.exists(done):
            if os.path.isdir(fdir):
                shutil.rmtree(fdir)
            os.makedirs(fdir)
            # private compilation database (the build dir may be scratch)
            with open(os.path.join(fdir, 'compile_commands.json'), 'w') as fh:
                json.dump(ents, fh)

            def one(e):
                rel = os.path.relpath(e['file'], os.path.join(repo, 'src')).replace('/', '__')
                out = os.path.join(fdir, rel + '.json')
                cmd = [SFX, '-p', fdir, '--out=' + out, '--root=' + repo, e['file']]
                cmd += ['--extra-arg=-Wno-everything', '--extra-arg=-UNDEBUG_VERIF']
                for a in extra_args:
                    cmd.append('--extra-arg-before=' + a)
                r = subprocess.run(cmd, stdout=subprocess.PIPE, stderr=subprocess.STDOUT, text=True)
                return e['file'], r.returncode, r.stdout

            with ThreadPoolExecutor(max_workers=16) as ex:
                res = list(ex.map(one, ents))
            bad = [(f, o) for f, rc, o in res if rc != 0]
            if bad:
                shutil.rmtree(fdir, ignore_errors=True)
                raise AnalysisBroken('extractor failed on %d unit(s): %s\n%s' % (len(bad), bad[0][0], bad[0][1][-3000:]))
            open(done, 'w').write('ok')
            _prune_cache(keep=key)
        info['extract_s'] = round(time.time() - t0, 2)
        return fdir, info
    finally:
        if scratch:
            shutil.rmtree(scratch, ignore_errors=True)


def _prune_cache(keep, maxn=6):
    root = os.path.join(CACHE, 'facts')
    ds = [os.path.join(root, d) for d in os.listdir(root)]
    ds.sort(key=os.path.getmtime, reverse=True)
    for d in ds[maxn:]:
        if os.path.basename(d) != keep:
            shutil.rmtree(d, ignore_errors=True)


def extract_file(path, flags=()):
    """Extract a single stand-alone C file (fixtures).  Returns the parsed unit dict."""
    build_sfx()
    d = tempfile.mkdtemp(prefix='sfverif-fx-')
    try:
        out = os.path.join(d, 'u.json')
        cmd = [SFX, '--out=' + out, '--root=' + os.path.dirname(os.path.abspath(path)), path, '--', '-std=gnu99', '-Wno-everything'] + list(flags)
        r = subprocess.run(cmd, stdout=subprocess.PIPE, stderr=subprocess.STDOUT, text=True)
        if r.returncode != 0 or not os.path.exists(out):
            raise AnalysisBroken('extractor failed on fixture %s:\n%s' % (path, r.stdout[-2000:]))
        return json.load(open(out))
    finally:
        shutil.rmtree(d, ignore_errors=True)


if __name__ == '__main__':
    d, info = extract()
    print(d, info)
