"""Termination-relevant structure of the header parsers (necessary conditions; not a termination proof).

CHUNK-LOOP-EOF : a loop of a header parser that starts each round by reading a chunk marker (psf_binheader_readf with an
                 `m` / `h` field) must leave when that read delivers nothing.  Accepted evidence, directly in the loop:
                   - an exit (break / return / goto / done = 1) under `TARGET == 0` for a variable the read fills
                     (READF-ZERO guarantees it is zero after a failed read), or
                   - the result of that very read is assigned (`=`, not accumulated) and an exit tests it (`== 0`, `< n`), or
                   - the read sits inside the exit test itself: `if ((n = readf (...)) == 0) break`.
NEG-SKIP       : a relative skip (`j`) whose amount is a signed expression must be proved non-negative by A-PENT (a negative
                 skip steps back onto data that was already parsed: the parser can then run for ever on a hostile file);
                 unsigned amounts cannot step back (a wrapped value skips forward past the end, the next marker read ends
                 the loop); negative constants are deliberate re-positioning and are listed.
"""
from .bounds import Bounds
from .model import int_type


def _exits_in(f, stmt):
    for x in f.walk(stmt):
        if x['k'] in ('BreakStmt', 'ReturnStmt', 'GotoStmt'):
            return True
        if x['k'] == 'BinaryOperator' and x.get('op') == '=' and f.s(x['kids'][0]) == 'done':
            return True
    return False


def chunk_loop_eof(ctx, prog, rule='CHUNK-LOOP-EOF'):
    n = 0
    for f in sorted(prog.lib_fns(), key=lambda f: (f.file, f.line)):
        if not (f.name.endswith('_read_header') or f.name.endswith('_parse') or 'subchunk' in f.name):
            continue
        for lp in [x for x in f.walk() if x['k'] in ('WhileStmt', 'ForStmt', 'DoStmt') and x.get('body') is not None]:
            rd = None
            for c in f.calls('psf_binheader_readf', root=lp['body']):
                fm = f.unwrap(f.args(c)[1]).get('s') or ''
                inner = [a for a in f.ancestors(c) if a['k'] in ('WhileStmt', 'ForStmt', 'DoStmt')]
                if ('m' in fm or 'h' in fm) and inner and inner[0] is lp:
                    rd = c
                    break
            if rd is None:
                continue
            n += 1
            targets = [f.s(f.unwrap(a)).lstrip('&') for a in f.args(rd)[2:]]
            par = f.N[f.parent[rd['id']]]
            while par['k'] in ('ImplicitCastExpr', 'ParenExpr', 'CStyleCastExpr'):
                par = f.N[f.parent[par['id']]]
            res = None
            if par['k'] in ('BinaryOperator', 'CompoundAssignOperator') and par.get('op') in ('=', '+='):
                res = (f.s(par['kids'][0]), par['op'])
            why = None
            for x in f.walk(lp['body']):
                if x['k'] != 'IfStmt' or not _exits_in(f, f.N[x['then']]):
                    continue
                cs = f.s(x['cond'])
                if f.within(rd, f.N[x['cond']]) and ('== 0' in cs or '< ' in cs or cs.startswith('(!')):
                    why = 'the read is tested in place: `%s`' % cs[:70]
                elif any(('(%s == 0)' % t) in cs for t in targets):
                    why = 'exit under `%s` (zeroed before every read)' % cs[:60]
                elif res and res[1] == '=' and (('(%s == 0)' % res[0]) in cs or ('(%s < ' % res[0]) in cs):
                    why = 'the byte count of the read is assigned and tested: `%s`' % cs[:60]
                if why:
                    break
            ctx.ob(rule, '%s@%s' % (f.name, f.s(rd)[:40]), why is not None, f.loc(lp), why or
                   'no exit of this chunk loop fires when the marker read delivers nothing%s: on a stream that has ended the parser keeps going round' % (
                       ' (the byte count is accumulated with +=, so `== 0` holds in the first round only)' if res and res[1] == '+=' else ''), None)
    return n


def neg_skip(ctx, prog, eff, rule='NEG-SKIP', frozen=None):
    frozen = frozen or {}
    n = 0
    for f in sorted(prog.lib_fns(), key=lambda f: (f.file, f.line)):
        bd = None
        k = 0
        for c in f.calls('psf_binheader_readf'):
            args = f.args(c)
            fm = f.unwrap(args[1]).get('s')
            if not fm or 'j' not in fm:
                continue
            ai = 2
            for ch in fm:
                if ch in 'eE!':
                    continue
                if ch in 'bG':
                    ai += 2
                    continue
                if ch != 'j':
                    ai += 1
                    continue
                if ai >= len(args):
                    break
                raw = f.N[args[ai]] if isinstance(args[ai], int) else args[ai]
                a = f.unwrap(raw)
                ai += 1
                n += 1
                k += 1
                key = '%s:j#%d' % (f.name, k)
                # an explicit cast to an unsigned type is what the callee receives
                outer = raw
                while outer.get('k') in ('ImplicitCastExpr', 'ParenExpr') and outer.get('kids'):
                    outer = f.N[outer['kids'][0]]
                if a.get('v') is not None:
                    ctx.ob(rule, key, True, f.loc(c), 'constant skip %d%s' % (a['v'], ' (deliberate re-positioning)' if a['v'] < 0 else ''), None)
                    continue
                # psf_binheader_readf takes the amount with va_arg (size_t) and hands it to header_seek as sf_count_t: a signed value that is
                # cast to size_t is sign-extended first and comes out negative again, so the cast does not discharge anything
                it = int_type(a.get('t'))
                pt = int_type(raw.get('t'))
                wnote = ''
                if pt and pt[0] < 64:
                    # a 32-bit argument for va_arg (size_t) is formally undefined; every ABI this library builds for widens it in the register,
                    # and the code base does it in ~45 places: recorded, not judged (no failing input exists on this build)
                    wnote = ' [passed as %d-bit %s for va_arg (size_t)]' % (pt[0], raw.get('t'))
                if it and not it[1]:
                    ctx.ob(rule, key, True, f.loc(c), 'skip amount `%s` has unsigned type %s: it cannot step back (a wrapped value skips forward past the end of the data)%s' % (f.s(a)[:50], a.get('t'), wnote), None)
                    continue
                if bd is None:
                    bd = Bounds(prog, f, eff)
                b = bd.ev_at(a, f.cfg.point(c))
                ok = b.lo is not None and b.lo >= 0
                if not ok and a.get('k') == 'BinaryOperator' and a.get('op') == '-':
                    # idiom: `if (B < A) skip (A - B)` / `if (B > A) return ... else skip (A - B)`: the guard that encloses the call orders the operands
                    A_, B_ = f.s(f.unwrap(f.N[a['kids'][0]])), f.s(f.unwrap(f.N[a['kids'][1]]))
                    cur = c
                    for anc in f.ancestors(c):
                        if anc['k'] == 'IfStmt':
                            pol = None
                            if anc.get('then') is not None and f.within(c, f.N[anc['then']]):
                                pol = True
                            elif anc.get('else') is not None and f.within(c, f.N[anc['else']]):
                                pol = False
                            if pol is not None:
                                for (l_, op_, r_) in bd.guard_facts(anc['cond'], pol):
                                    if r_ is None or not isinstance(l_, dict):
                                        continue
                                    ls_, rs_ = f.s(f.unwrap(l_)), f.s(f.unwrap(r_))
                                    if (ls_ == B_ and rs_ == A_ and op_ in ('<', '<=')) or (ls_ == A_ and rs_ == B_ and op_ in ('>', '>=')):
                                        ok = True
                if not ok and a.get('k') == 'MemberExpr':
                    # the amount is a field: judge every assignment to it in this function at its own point (paths without one keep the
                    # zero of the freshly allocated handle); each unproved definition needs its own frozen argument
                    from .util import assigned_lvalues
                    defs_ = [(asg, r_) for lv_, asg, r_ in assigned_lvalues(f, f.body) if lv_ == f.s(a) and r_ is not None and (asg['l'], asg['c']) < (c['l'], c['c'])]
                    bad_ = []
                    for asg, r_ in defs_:
                        pt_ = f.cfg.point(asg)
                        if pt_ is None:
                            continue            # unreachable definition
                        b_ = bd.ev_at(f.unwrap(r_), pt_)
                        if not (b_.lo is not None and b_.lo >= 0) and ('%s:%s=%s' % (f.name, f.s(a), f.s(f.unwrap(r_)))).replace(' ', '') not in frozen:
                            bad_.append(f.s(f.unwrap(r_))[:60])
                    if defs_ and not bad_:
                        ctx.ob(rule, key, True, f.loc(c), 'signed skip amount `%s`: each of its %d definition(s) in this function is proved >= 0 at its own point or has a written argument '
                               '(tables/c03_negskip.tsv)' % (f.s(a), len(defs_)), None)
                        continue
                    if bad_:
                        b = 'definition(s) not proved >= 0: ' + '; '.join(bad_)
                fk = '%s:%s' % (f.name, f.s(a).replace(' ', ''))
                if not ok and fk in frozen:
                    ctx.ob(rule, key, True, f.loc(c), 'frozen (tables/c03_negskip.tsv): %s' % frozen[fk], None)
                    continue
                ctx.ob(rule, key, ok, f.loc(c), 'signed skip amount `%s` %s' % (f.s(a)[:50], 'proved >= 0' if ok else
                       'NOT proved non-negative (%r): a negative skip steps back onto parsed data, a hostile size field can make the parser loop' % b), repr(b))
    return n
