"""Partial evaluation of library functions under a constant environment (A-TAB for decision tables, feasible-path
exploration for dispatch rules).

The environment maps lvalue strings (`psf->sf.format`, `psf->file.mode`, locals) to integer constants.  The CFG is
explored from the entry; a branch whose condition folds to a constant follows only that edge, otherwise both.  Calls to
functions defined in the library are explored recursively (bounded depth) with the environment translated through the
argument/parameter binding.  The result is the set of *feasible* calls, slot assignments, field writes and return values.
This is constant propagation with case splitting over a finite set of configurations; no library code is executed.
"""
from .model import int_type
from .effects import ASSIGN_OPS


def _trunc(v, t):
    it = int_type(t) if t else None
    if it is None or v is None:
        return v
    w, s = it
    if w == 1:
        return 1 if v else 0
    v &= (1 << w) - 1
    if s and v >= (1 << (w - 1)):
        v -= (1 << w)
    return v


class Result:
    def __init__(self):
        self.calls = set()            # names of functions called on feasible paths (transitively)
        self.slot_assign = {}         # (rec, field) -> set(target names) assigned on feasible paths
        self.field_writes = set()     # (rec, field) written
        self.root_writes = set()      # (rec, field, root variable name) written
        self.ret_exprs = set()        # (function name, canonical string of a feasible return expression)
        self.local_assigns = set()    # (function name, local name, canonical rhs string) on feasible paths
        self.store_exprs = set()      # (function name, lvalue string, rhs string) for member stores on feasible paths
        self.returns = set()          # ints or None (unknown)
        self.ret_sites = []           # (fn name, line, value)
        self.reached = set()          # (fn name, block id)
        self.truncated = False

    def merge(self, o):
        self.calls |= o.calls
        for k, v in o.slot_assign.items():
            self.slot_assign.setdefault(k, set()).update(v)
        self.field_writes |= o.field_writes
        self.root_writes |= o.root_writes
        self.ret_exprs |= o.ret_exprs
        self.local_assigns |= o.local_assigns
        self.store_exprs |= o.store_exprs
        self.reached |= o.reached
        self.truncated |= o.truncated


class PEval:
    def __init__(self, prog, sticky=(), max_depth=4, effects=None, ret_models=None):
        self.prog = prog
        self.sticky = tuple(sticky)      # member-path suffixes never killed by calls, e.g. ('sf.format', 'file.mode')
        self.max_depth = max_depth
        self.eff = effects
        self.memo = {}
        self.ret_models = ret_models or {}
        self.track_all = False

    # ---- expressions
    def val(self, f, n, env):
        if isinstance(n, int):
            n = f.N[n]
        if 'v' in n and (n['k'] != 'DeclRefExpr' or n.get('dk') == 'enum'):
            return n['v']
        k = n['k']
        K = n['kids']
        if k == 'DeclRefExpr':
            return env.get(n['n'])
        if k == 'MemberExpr':
            return env.get(f.s(n))
        if k in ('ImplicitCastExpr', 'CStyleCastExpr'):
            v = self.val(f, K[0], env)
            if v is None:
                return None
            if n.get('ck') in ('IntegralCast', 'NoOp', 'LValueToRValue'):
                return _trunc(v, n.get('t'))
            if n.get('ck') == 'IntegralToBoolean':
                return 1 if v else 0
            if n.get('ck') in ('NullToPointer', 'BitCast', 'IntegralToPointer') and v == 0:
                return 0
            return None
        if k == 'UnaryOperator':
            op = n['op']
            v = self.val(f, K[0], env)
            if v is None:
                return None
            if op == '!':
                return 0 if v else 1
            if op == '-':
                return _trunc(-v, n.get('t'))
            if op == '~':
                return _trunc(~v, n.get('t'))
            if op == '+':
                return v
            return None
        if k == 'BinaryOperator':
            op = n['op']
            if op == '&&':
                a = self.val(f, K[0], env)
                if a == 0:
                    return 0
                b = self.val(f, K[1], env)
                if a is not None and b is not None:
                    return 1 if (a and b) else 0
                if b == 0:
                    return 0
                return None
            if op == '||':
                a = self.val(f, K[0], env)
                if a:
                    return 1
                b = self.val(f, K[1], env)
                if b:
                    return 1
                if a is not None and b is not None:
                    return 0
                return None
            if op == ',':
                return self.val(f, K[1], env)
            if op == '=':
                return self.val(f, K[1], env)
            a = self.val(f, K[0], env)
            b = self.val(f, K[1], env)
            if op == '&' and (a == 0 or b == 0):
                return 0
            if a is None or b is None:
                return None
            try:
                r = {'+': lambda: a + b, '-': lambda: a - b, '*': lambda: a * b,
                     '/': lambda: (abs(a) // abs(b)) * (1 if (a >= 0) == (b >= 0) else -1) if b else None,
                     '%': lambda: (abs(a) % abs(b)) * (1 if a >= 0 else -1) if b else None,
                     '&': lambda: a & b, '|': lambda: a | b, '^': lambda: a ^ b,
                     '<<': lambda: a << b if 0 <= b < 64 else None, '>>': lambda: a >> b if 0 <= b < 64 else None,
                     '<': lambda: int(a < b), '<=': lambda: int(a <= b), '>': lambda: int(a > b), '>=': lambda: int(a >= b),
                     '==': lambda: int(a == b), '!=': lambda: int(a != b)}[op]()
            except KeyError:
                return None
            if r is None:
                return None
            return _trunc(r, n.get('t'))
        if k == 'ConditionalOperator':
            c = self.val(f, K[0], env)
            if c is None:
                a, b = self.val(f, K[1], env), self.val(f, K[2], env)
                return a if a == b else None
            return self.val(f, K[1] if c else K[2], env)
        if k == 'ParenExpr':
            return self.val(f, K[0], env)
        return None

    # ---- calls
    def _bind(self, f, call, callee, env):
        """environment of callee derived from caller env through argument binding"""
        cenv = {}
        args = f.args(call)
        for p, a in zip(callee.params, args):
            v = self.val(f, a, env)
            if v is not None:
                cenv[p['n']] = v
                if '*' not in (p.get('t') or ''):
                    continue            # a pointer with a known value still carries the facts about what it points to
            au = f.unwrap(a)
            if au['k'] == 'UnaryOperator' and au['op'] == '&':
                base = f.s(au['kids'][0]) + '.'
                for key, val in env.items():
                    if key.startswith(base):
                        cenv[p['n'] + '->' + key[len(base):]] = val
            else:
                base = f.s(au) + '->'
                for key, val in env.items():
                    if key.startswith(base):
                        cenv[p['n'] + '->' + key[len(base):]] = val
        return cenv

    def _assigns_slots(self, name):
        if not hasattr(self, '_as_memo'):
            self._as_memo = {}
            self._direct_slot = set()
            for (rec, fld), d in self.prog.slots.items():
                for tgt, sites in d.items():
                    for (sf, sn) in sites:
                        self._direct_slot.add(sf.name)
        if name not in self._as_memo:
            self._as_memo[name] = bool(self.prog.reachable_from([name], resolve_slots=False) & self._direct_slot)
        return self._as_memo[name]

    def _derived(self, f, n, env):
        """does the value of n depend on the environment (not a pure literal)?  Only such locals are tracked,
        which keeps the state space finite in parser loops."""
        for x in f.walk(n):
            if x['k'] == 'DeclRefExpr' and x.get('dk') != 'enum' and x['n'] in env:
                return True
            if x['k'] == 'MemberExpr' and f.s(x) in env:
                return True
            if x['k'] == 'CallExpr' and ('#call:%d' % x['id']) in env:
                return True
        return False

    def _is_sticky(self, key):
        return any(key.endswith(s) for s in self.sticky)

    def explore(self, f, env, depth=0):
        """explore function f under env (dict).  Returns Result."""
        key = (f.name, f.file, frozenset(env.items()))
        if key in self.memo:
            return self.memo[key]
        res = Result()
        self.memo[key] = res  # recursion guard
        cfg = f.cfg
        start = (cfg.entry, frozenset(env.items()))
        seen = {start}
        work = [start]
        steps = 0
        while work:
            b, fe = work.pop()
            steps += 1
            if steps > 20000:
                res.truncated = True
                break
            e = dict(fe)
            bl = cfg.blocks[b]
            res.reached.add((f.name, b))
            # nested-duplicate elements: an element contained in a later element of the same block is processed there
            elems = bl['elems']
            for idx, el in enumerate(elems):
                self._exec(f, el, e, res, depth)
            succs = bl['succs']
            nxt = []
            cv = self.val(f, bl['cond'], e) if 'cond' in bl else None
            for kk in [kk for kk in e if kk.startswith('#call:')]:
                del e[kk]
            if bl.get('tk') == 'SwitchStmt' and 'cond' in bl:
                v = cv
                if v is None:
                    nxt = [s for s in succs if s is not None]
                else:
                    pick = None
                    dflt = None
                    for s in succs:
                        if s is None:
                            continue
                        lab = cfg.blocks[s].get('label')
                        ln = f.N[lab] if lab is not None else None
                        if ln is not None and ln['k'] == 'CaseStmt' and 'cv' in ln:
                            lo, hi = ln['cv'], ln.get('cv2', ln['cv'])
                            if lo <= v <= hi:
                                pick = s
                        elif ln is not None and ln['k'] == 'DefaultStmt':
                            dflt = s
                    if pick is None:
                        pick = dflt if dflt is not None else (succs[-1] if succs else None)
                    nxt = [pick] if pick is not None else []
            elif 'cond' in bl and len(succs) == 2:
                v = cv
                if v is None:
                    nxt = [s for s in succs if s is not None]
                    # refine env on edges for equality tests against constants
                    for si, s in enumerate(succs):
                        if s is None:
                            continue
                        e2 = self._refine(f, bl['cond'], si == 0, e)
                        st = (s, frozenset(e2.items()))
                        if st not in seen:
                            seen.add(st)
                            work.append(st)
                    continue
                nxt = [succs[0] if v else succs[1]]
                nxt = [s for s in nxt if s is not None]
            else:
                nxt = [s for s in succs if s is not None]
            for s in nxt:
                st = (s, frozenset(e.items()))
                if st not in seen:
                    seen.add(st)
                    work.append(st)
        return res

    def _refine(self, f, cond, pol, env):
        n = f.unwrap(f.N[cond])
        if n['k'] == 'UnaryOperator' and n['op'] == '!':
            return self._refine(f, n['kids'][0], not pol, env)
        if n['k'] == 'BinaryOperator' and n['op'] in ('==', '!='):
            a, b = f.N[n['kids'][0]], f.N[n['kids'][1]]
            eq = (n['op'] == '==') == pol
            if eq:
                for x, y in ((a, b), (b, a)):
                    v = self.val(f, y, env)
                    xu = f.unwrap(x)
                    if v is not None and xu['k'] in ('DeclRefExpr', 'MemberExpr') and xu.get('dk') != 'enum':
                        e2 = dict(env)
                        e2[f.s(xu)] = v
                        return e2
        return env

    def _exec(self, f, el, env, res, depth):
        """execute the side effects of one CFG element on env; record facts"""
        N = f.N
        # post-order so that nested assignments happen first
        order = list(f.walk(el))
        for n in reversed(order):
            k = n['k']
            if k in ('BinaryOperator', 'CompoundAssignOperator') and n['op'] in ASSIGN_OPS:
                lhs = f.unwrap(N[n['kids'][0]])
                ls = f.s(lhs)
                wl = lhs
                while wl['k'] == 'ArraySubscriptExpr':
                    wl = f.unwrap(N[wl['kids'][0]])
                if wl['k'] == 'MemberExpr':
                    from .effects import lvalue_root
                    rt = lvalue_root(f, wl)
                    res.root_writes.add((wl.get('rec'), wl['n'], rt.get('n', '?')))
                if lhs['k'] == 'MemberExpr':
                    res.field_writes.add((lhs.get('rec'), lhs['n']))
                    if '(*)' in lhs['t']:
                        tg = self.prog._fn_targets(f, N[n['kids'][1]])
                        res.slot_assign.setdefault((lhs.get('rec'), lhs['n']), set()).update(tg)
                if lhs['k'] == 'DeclRefExpr':
                    res.local_assigns.add((f.name, ls, f.s(n['kids'][1])))
                elif lhs['k'] == 'MemberExpr':
                    res.store_exprs.add((f.name, ls, f.s(n['kids'][1])))
                if n['op'] == '=' and not any(x['k'] in ('DeclRefExpr', 'MemberExpr') and f.s(x) == ls for x in f.walk(n['kids'][1])):
                    v = self.val(f, n['kids'][1], env)
                    v = _trunc(v, lhs.get('t')) if v is not None else None
                else:
                    v = None
                if v is None:
                    if not (self._is_sticky(ls) and n['op'] == '=' and lhs['k'] == 'MemberExpr'):
                        env.pop(ls, None)
                elif (lhs['k'] == 'DeclRefExpr' and self._derived(f, n['kids'][1], env)) or self._is_sticky(ls) or self.track_all:
                    env[ls] = v
                else:
                    env.pop(ls, None)
            elif k == 'UnaryOperator' and n['op'] in ('++', '--', 'post++', 'post--'):
                ls = f.s(n['kids'][0])
                env.pop(ls, None)   # no loop unrolling: counters become unknown
            elif k == 'DeclStmt':
                for d in n.get('decls', []):
                    if 'init' in d and d['init'] >= 0:
                        v = self.val(f, d['init'], env)
                        if v is not None and (self.track_all or self._derived(f, d['init'], env)):
                            env[d['n']] = _trunc(v, d.get('t'))
                        else:
                            env.pop(d['n'], None)
                    else:
                        env.pop(d['n'], None)
            elif k == 'CallExpr':
                self._call(f, n, env, res, depth)
            elif k == 'ReturnStmt':
                v = self.val(f, n['kids'][0], env) if n['kids'] else None
                res.returns.add(v)
                res.ret_sites.append((f.name, n.get('l'), v))
                if n['kids']:
                    res.ret_exprs.add((f.name, f.s(n['kids'][0])))

    def _call(self, f, c, env, res, depth):
        names = []
        if 'callee' in c:
            names = [c['callee']]
        else:
            sl = self.prog.indirect_callee_slot(f, c)
            if sl:
                names = sorted(self.prog.slot(sl[1], sl[0]))
                res.calls.add('@slot:%s.%s' % sl)
        rets = set()
        for nm in names:
            res.calls.add(nm)
            if nm in self.ret_models:
                rets |= set(self.ret_models[nm](self, f, c, env))
                continue
            cands = self.prog.fns.get(nm, [])
            if not cands or 'callee' not in c:
                rets.add(None)
                continue
            callee = cands[0]
            if callee.ret == 'void' and not self._assigns_slots(nm):
                continue
            if depth >= self.max_depth:
                # flow-insensitive summary below the depth bound
                for g in self.prog.reachable_from([nm]):
                    res.calls.add(g)
                    for gf in self.prog.fns.get(g, []):
                        for (lhs, an, kind) in __import__('engine.effects', fromlist=['writes_of']).writes_of(gf):
                            l = gf.unwrap(lhs)
                            if l['k'] == 'MemberExpr':
                                res.field_writes.add((l.get('rec'), l['n']))
                                if '(*)' in l['t'] and an['k'] == 'BinaryOperator':
                                    res.slot_assign.setdefault((l.get('rec'), l['n']), set()).update(self.prog._fn_targets(gf, gf.N[an['kids'][1]]))
                rets.add(None)
                continue
            cenv = self._bind(f, c, callee, env)
            sub = self.explore(callee, cenv, depth + 1)
            res.merge(sub)
            rets |= sub.returns if sub.returns else {None}
        # kill non-sticky member paths that the callee may write
        if names:
            written = set()
            for nm in names:
                if nm in self.prog.fns and self.eff is not None:
                    written |= {fl for (_, fl) in self.eff.trans_fields(nm)}
            for key in list(env):
                if ('->' in key or '.' in key) and not self._is_sticky(key):
                    leaf = key.split('->')[-1].split('.')[-1]
                    if self.eff is None or leaf in written:
                        del env[key]
            # address-taken locals passed to the call
            for a in f.args(c):
                au = f.unwrap(a)
                if au['k'] == 'UnaryOperator' and au['op'] == '&':
                    env.pop(f.s(au['kids'][0]), None)
        # value of the call expression: remember single constant returns via a synthetic key
        if len(rets) == 1 and None not in rets:
            env['#call:%d' % c['id']] = next(iter(rets))
        elif rets and None not in rets and all(isinstance(v, int) and v != 0 for v in rets):
            # every feasible return of the callee is a non-zero (error) code: the call is known to be `true`; one representative code is
            # carried (callers in this code base test such results for zero / non-zero and pass them on)
            env['#call:%d' % c['id']] = min(rets)

    # allow val() to see folded call results
    _val_orig = val

    def val(self, f, n, env):  # noqa: F811
        if isinstance(n, int):
            n = f.N[n]
        if n['k'] == 'CallExpr':
            return env.get('#call:%d' % n['id'])
        return self._val_orig(f, n, env)
