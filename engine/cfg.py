"""CFG utilities over clang's CFG as emitted by sfx: points, dominators, must-pass / path queries."""
from collections import defaultdict, deque


class CFG:
    def __init__(self, fn):
        self.fn = fn
        c = fn.d.get('cfg')
        if not c:
            raise ValueError('no cfg for %s' % fn.name)
        self.entry = c['entry']
        self.exit = c['exit']
        self.blocks = {b['id']: b for b in c['blocks']}
        self.preds = defaultdict(list)
        for b in c['blocks']:
            # edges clang proved unreachable (if (0), constant conditions) are dropped: dead code takes part in no rule
            rf = b.get('reach') or [True] * len(b['succs'])
            b['succs'] = [s if (i >= len(rf) or rf[i]) else None for i, s in enumerate(b['succs'])]
            for s in b['succs']:
                if s is not None:
                    self.preds[s].append(b['id'])
        # blocks that became unreachable once dead edges are dropped contribute no predecessor edges either
        live = {self.entry}
        work = [self.entry]
        while work:
            x = work.pop()
            for s_ in self.blocks[x]['succs']:
                if s_ is not None and s_ not in live:
                    live.add(s_)
                    work.append(s_)
        self.live = live
        for k_ in list(self.preds):
            self.preds[k_] = [p_ for p_ in self.preds[k_] if p_ in live]
        # element index: node id -> (block, idx) of first occurrence
        self.elem_at = {}
        for b in c['blocks']:
            for i, e in enumerate(b['elems']):
                self.elem_at.setdefault(e, (b['id'], i))
        self._dom = None
        self._pdom = None
        self._point_cache = {}

    # ---- points -------------------------------------------------------------------------------
    def point(self, n):
        """(block, idx) where node n is evaluated: nearest ancestor-or-self that is a CFG element.
        Terminator statements (if/while/...) map to the end of their block."""
        if isinstance(n, dict):
            n = n['id']
        if n in self._point_cache:
            return self._point_cache[n]
        i = n
        par = self.fn.parent
        r = None
        while True:
            if i in self.elem_at:
                r = self.elem_at[i]
                break
            if i not in par:
                break
            i = par[i]
        if r is None:
            # statements like ReturnStmt are elements; If/While are terminators
            for b in self.blocks.values():
                if b.get('term') == n:
                    r = (b['id'], len(b['elems']))
                    break
        self._point_cache[n] = r
        return r

    def succs(self, b):
        return [s for s in self.blocks[b]['succs'] if s is not None]

    def reachable_blocks(self, start=None):
        start = self.entry if start is None else start
        seen = {start}
        q = [start]
        while q:
            b = q.pop()
            for s in self.succs(b):
                if s not in seen:
                    seen.add(s)
                    q.append(s)
        return seen

    # ---- dominators ---------------------------------------------------------------------------
    def _dominators(self, entry, succ, pred):
        nodes = set()
        q = [entry]
        while q:
            b = q.pop()
            if b in nodes:
                continue
            nodes.add(b)
            q.extend(succ(b))
        dom = {b: set(nodes) for b in nodes}
        dom[entry] = {entry}
        changed = True
        order = list(nodes)
        while changed:
            changed = False
            for b in order:
                if b == entry:
                    continue
                ps = [p for p in pred(b) if p in nodes]
                if not ps:
                    continue
                new = set.intersection(*(dom[p] for p in ps)) | {b}
                if new != dom[b]:
                    dom[b] = new
                    changed = True
        return dom

    @property
    def dom(self):
        if self._dom is None:
            self._dom = self._dominators(self.entry, self.succs, lambda b: self.preds[b])
        return self._dom

    @property
    def pdom(self):
        if self._pdom is None:
            self._pdom = self._dominators(self.exit, lambda b: self.preds[b], self.succs)
        return self._pdom

    def dominates(self, a, b):
        """point a dominates point b (a, b = (block, idx) or node ids)"""
        if not isinstance(a, tuple):
            a = self.point(a)
        if not isinstance(b, tuple):
            b = self.point(b)
        if a is None or b is None:
            return False
        if a[0] == b[0]:
            return a[1] <= b[1]
        return b[0] in self.dom and a[0] in self.dom[b[0]]

    # ---- path queries -------------------------------------------------------------------------
    def path_avoiding(self, start, goal_blocks, avoid, start_inclusive=False, edge_ok=None):
        """Search a path from point `start` to any block in goal_blocks (reaching its beginning; use {exit})
        that does not pass any point in `avoid` (set of (block, idx)).
        Returns list of blocks (witness) or None.  edge_ok(b, succ_index) may prune infeasible edges."""
        if not isinstance(start, tuple):
            start = self.point(start)
        avoid_by_block = defaultdict(list)
        for (b, i) in avoid:
            avoid_by_block[b].append(i)
        b0, i0 = start
        lo = i0 if start_inclusive else i0 + 1
        if any(i >= lo for i in avoid_by_block.get(b0, ())):
            return None
        prev = {}
        seen = set()
        q = deque()
        for si, s in enumerate(self.blocks[b0]['succs']):
            if s is None or (edge_ok and not edge_ok(b0, si)):
                continue
            if s not in seen:
                seen.add(s)
                prev[s] = None
                q.append(s)
        while q:
            b = q.popleft()
            if b in goal_blocks:
                path = [b]
                while prev[path[-1]] is not None:
                    path.append(prev[path[-1]])
                return [b0] + path[::-1]
            if b in avoid_by_block:
                continue
            for si, s in enumerate(self.blocks[b]['succs']):
                if s is None or (edge_ok and not edge_ok(b, si)):
                    continue
                if s not in seen:
                    seen.add(s)
                    prev[s] = b
                    q.append(s)
        return None

    def must_pass(self, start, through_nodes, start_inclusive=False, edge_ok=None):
        """every path from `start` to function exit passes one of the nodes. Returns (True, None) or (False, witness)"""
        avoid = set()
        for n in through_nodes:
            p = self.point(n)
            if p is not None:
                avoid.add(p)
        w = self.path_avoiding(start, {self.exit}, avoid, start_inclusive, edge_ok)
        return (w is None, w)

    def returns(self):
        out = []
        for n in self.fn.walk():
            if n['k'] == 'ReturnStmt':
                out.append(n)
        return out

    def block_lines(self, path):
        """human readable witness: first source line of each block on the path"""
        out = []
        for b in path:
            bl = self.blocks[b]
            ids = list(bl['elems'])
            if bl.get('term') is not None:
                ids.append(bl['term'])
            ls = [self.fn.N[i].get('l') for i in ids if self.fn.N[i] is not None and self.fn.N[i].get('l')]
            if ls:
                out.append(min(ls))
        res = []
        for l in out:
            if not res or res[-1] != l:
                res.append(l)
        return res

    # ---- branch conditions --------------------------------------------------------------------
    def edge_conds(self, b):
        """for a two-way block: (cond node id, true succ, false succ) or None"""
        bl = self.blocks[b]
        if 'cond' in bl and len(bl['succs']) == 2 and bl.get('tk') != 'SwitchStmt':
            return bl['cond'], bl['succs'][0], bl['succs'][1]
        return None
