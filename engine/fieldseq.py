"""FIELD-SEQ: ordered (spec letter, struct field, byte count) sequences of header writers and readers."""
import re

W_ARGS = {'m': 1, '1': 1, '2': 1, '3': 1, '4': 1, '8': 1, 'f': 1, 'd': 1, 's': 1, 'S': 1, 'p': 1, 'b': 2, 'z': 1, 'h': 1, 'j': 1, 'o': 1}
R_ARGS = {'m': 1, 'h': 1, '1': 1, '2': 1, '3': 1, '4': 1, '8': 1, 'f': 1, 'd': 1, 's': 1, 'b': 2, 'G': 2, 'z': 1, 'p': 1, 'j': 1}


def leaf(f, n):
    """struct field (leaf member name) an argument refers to, or None"""
    n = f.unwrap(n)
    while n['k'] in ('UnaryOperator',) and n['op'] in ('&', '*'):
        n = f.unwrap(f.N[n['kids'][0]])
    while n['k'] == 'ArraySubscriptExpr':
        n = f.unwrap(f.N[n['kids'][0]])
    if n['k'] == 'MemberExpr':
        # full path below the struct pointer
        path = [n['n']]
        b = f.unwrap(f.N[n['kids'][0]])
        while b['k'] in ('MemberExpr', 'ArraySubscriptExpr'):
            if b['k'] == 'MemberExpr':
                path.append(b['n'])
            b = f.unwrap(f.N[b['kids'][0]])
        return '.'.join(reversed(path))
    return None


def sequence(f, kind):
    """entries in source order: (letter, field or None, size: int | str | None)"""
    name = 'psf_binheader_writef' if kind == 'w' else 'psf_binheader_readf'
    table = W_ARGS if kind == 'w' else R_ARGS
    out = []
    for c in sorted(f.calls(name), key=lambda c: c['id']):
        args = f.args(c)
        fmt = f.unwrap(args[1])
        if fmt['k'] != 'StringLiteral':
            continue
        i = 2
        narrow8 = False
        for ch in fmt.get('s', ''):
            if ch == 't':
                narrow8 = True
            elif ch == 'T':
                narrow8 = False
            n = table.get(ch, 0)
            if n == 0:
                continue
            a = args[i:i + n]
            i += n
            if not a:
                continue
            if ch in ('b', 'G') and len(a) == 2:
                sz = f.unwrap(a[1])
                out.append(('b', leaf(f, a[0]), sz.get('v') if 'v' in sz else (leaf(f, a[1]) or f.s(sz)), c))
            elif ch in ('z', 'j'):
                sz = f.unwrap(a[0])
                out.append(('skip', None, sz.get('v') if 'v' in sz else f.s(sz), c))
            else:
                out.append((('4' if (ch == '8' and narrow8) else ch), leaf(f, a[0]), None, c))
    return out


def payload(seq):
    """entries that carry a struct field, and constant skips between them"""
    idx = [i for i, e in enumerate(seq) if e[1] is not None]
    if not idx:
        return []
    lo, hi = idx[0], idx[-1]
    out = []
    for e in seq[lo:hi + 1]:
        if e[1] is not None or (e[0] == 'skip' and isinstance(e[2], int)):
            out.append(e[:3])
    return out
