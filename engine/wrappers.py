"""WRAPPER: normalised structural fact sheets of the public read/write wrappers (sibling agreement)."""
import re

TYPES = ('short', 'int', 'float', 'double')
SIZEOF = {'short': 2, 'int': 4, 'float': 4, 'double': 8}


def norm_s(f, n, T):
    """canonical string with the sample type abstracted: read_short -> read_T, sizeof (short) -> sizeof(T)"""
    if isinstance(n, int):
        n = f.N[n]
    k = n['k']
    K = n['kids']
    if k == 'UnaryExprOrTypeTraitExpr':
        if n.get('v') == SIZEOF.get(T) and (n.get('at') == T or n.get('at', '').endswith(T)):
            return 'sizeof(T)'
        return str(n.get('v'))
    if k == 'DeclRefExpr':
        return n['n']
    if k == 'MemberExpr':
        nm = n['n']
        if T and nm.endswith('_' + T):
            nm = nm[:-len(T)] + 'T'
        return norm_s(f, K[0], T) + ('->' if n['arrow'] else '.') + nm
    if k in ('ImplicitCastExpr', 'CStyleCastExpr'):
        return norm_s(f, K[0], T)
    if k in ('IntegerLiteral', 'CharacterLiteral'):
        return str(n.get('v'))
    if k == 'ArraySubscriptExpr':
        return '%s[%s]' % (norm_s(f, K[0], T), norm_s(f, K[1], T))
    if k in ('BinaryOperator', 'CompoundAssignOperator'):
        return '(%s %s %s)' % (norm_s(f, K[0], T), n['op'], norm_s(f, K[1], T))
    if k == 'UnaryOperator':
        op = n['op']
        if op.startswith('post'):
            return '%s%s' % (norm_s(f, K[0], T), op[4:])
        return '%s%s' % (op, norm_s(f, K[0], T))
    if k == 'CallExpr':
        return '%s(%s)' % (norm_s(f, K[0], T), ', '.join(norm_s(f, a, T) for a in K[1:]))
    if k == 'ConditionalOperator':
        return '(%s ? %s : %s)' % (norm_s(f, K[0], T), norm_s(f, K[1], T), norm_s(f, K[2], T))
    if k == 'ParenExpr':
        return norm_s(f, K[0], T)
    return f.s(n)


def sheet(f, T, n=None):
    """nested fact sheet of statement n (default body)"""
    n = f.N[f.body] if n is None else (f.N[n] if isinstance(n, int) else n)
    k = n['k']
    if k == 'CompoundStmt':
        out = []
        for c in f.kids(n):
            s = sheet(f, T, c)
            if isinstance(s, list) and c['k'] == 'CompoundStmt':
                out.extend(s)        # flatten nested compounds (macro bodies)
            elif s is not None:
                out.append(s)
        return out
    if k == 'IfStmt':
        cv = f.N[n['cond']].get('v')
        if cv == 0 and 'else' not in n:
            return None          # if (0) ... : dead (macro argument), takes part in no fact
        if cv is not None and cv != 0:
            return sheet(f, T, n['then'])
        r = ['if', norm_s(f, n['cond'], T), sheet(f, T, n['then'])]
        if 'else' in n:
            r.append(sheet(f, T, n['else']))
        return r
    if k == 'ReturnStmt':
        return ['return', norm_s(f, n['kids'][0], T) if n['kids'] else '']
    if k == 'DeclStmt':
        ds = [d for d in n.get('decls', []) if 'init' in d and d['init'] >= 0]
        return ['decl'] + ['%s = %s' % (d['n'], norm_s(f, d['init'], T)) for d in ds] if ds else None
    if k == 'NullStmt':
        return None
    if k in ('WhileStmt', 'ForStmt', 'DoStmt', 'SwitchStmt'):
        return [k, norm_s(f, n['cond'], T) if 'cond' in n else '', sheet(f, T, n['body'])]
    if 't' in n:
        return ['expr', norm_s(f, n, T)]
    return [k]


def diff(a, b, path=''):
    """first difference between two sheets: (path, a, b) or None"""
    if type(a) != type(b):
        return (path, a, b)
    if isinstance(a, list):
        for i in range(max(len(a), len(b))):
            if i >= len(a) or i >= len(b):
                return ('%s[%d]' % (path, i), a[i] if i < len(a) else '<missing>', b[i] if i < len(b) else '<missing>')
            d = diff(a[i], b[i], '%s[%d]' % (path, i))
            if d:
                return d
        return None
    return None if a == b else (path, a, b)


def guards(sh):
    """ordered list of top-level rejecting guards of a sheet: (cond, [stores/calls], return value)"""
    out = []
    for s in sh:
        if isinstance(s, list) and s and s[0] == 'if' and len(s) == 3:
            body = s[2] if isinstance(s[2], list) and s[2] and isinstance(s[2][0], list) else [s[2]]
            if body and isinstance(body[-1], list) and body[-1][0] == 'return':
                out.append((s[1], [x[1] for x in body[:-1] if isinstance(x, list) and x[0] == 'expr'], body[-1][1]))
    return out
