"""WRAPPER: normalised structural fact sheets of the public read/write wrappers (sibling agreement)."""
import re

TYPES = ('short', 'int', 'float', 'double')
SIZEOF = {'short': 2, 'int': 4, 'float': 4, 'double': 8}


def norm_s(f, n, T):
    """canonical string with the sample type abstracted: read_short -> read_T, sizeof (short) -> sizeof(T)"""
    if isinstance(n, int):
        n = f.N[n]
    k = n['k']
    K = n['kids']
    if k == 'UnaryExprOrTypeTraitExpr':
        if n.get('v') == SIZEOF.get(T) and (n.get('at') == T or n.get('at', '').endswith(T)):
            return 'sizeof(T)'
        return str(n.get('v'))
    if k == 'DeclRefExpr':
        env = f.__dict__.get('_wr_env')
        if env and n['n'] in env:
            return str(env[n['n']][1])           # parameter of a helper spliced into its caller: stands for the argument
        sub = _temps(f).get(n['n'])
        if sub is not None:
            d, ops, pos, al = sub
            here = (n.get('l', 0), n.get('c', 0))
            # no operand of the defining expression is assigned between the definition and this use (source order)
            if not any(lv in ops and pos < (a.get('l', 0), a.get('c', 0)) < here for lv, a, r in al):
                return norm_s(f, d, T)       # a pure single-definition temporary stands for its defining expression
        return n['n']
    if k == 'MemberExpr':
        nm = n['n']
        if T and nm.endswith('_' + T):
            nm = nm[:-len(T)] + 'T'
        return norm_s(f, K[0], T) + ('->' if n['arrow'] else '.') + nm
    if k in ('ImplicitCastExpr', 'CStyleCastExpr'):
        return norm_s(f, K[0], T)
    if k in ('IntegerLiteral', 'CharacterLiteral'):
        return str(n.get('v'))
    if k == 'ArraySubscriptExpr':
        return '%s[%s]' % (norm_s(f, K[0], T), norm_s(f, K[1], T))
    if k in ('BinaryOperator', 'CompoundAssignOperator'):
        return '(%s %s %s)' % (norm_s(f, K[0], T), n['op'], norm_s(f, K[1], T))
    if k == 'UnaryOperator':
        op = n['op']
        if op.startswith('post'):
            return '%s%s' % (norm_s(f, K[0], T), op[4:])
        return '%s%s' % (op, norm_s(f, K[0], T))
    if k == 'CallExpr':
        return '%s(%s)' % (norm_s(f, K[0], T), ', '.join(norm_s(f, a, T) for a in K[1:]))
    if k == 'ConditionalOperator':
        cv = _cond_const(f, K[0])
        if cv is not None:
            return norm_s(f, K[1] if cv else K[2], T)
        return '(%s ? %s : %s)' % (norm_s(f, K[0], T), norm_s(f, K[1], T), norm_s(f, K[2], T))
    if k == 'ParenExpr':
        return norm_s(f, K[0], T)
    return f.s(n)


def _cond_const(f, n):
    """value of a condition that is a folded constant, or a parameter bound to a constant argument by a spliced call (also `!p`, `p == c`, `p != c`)"""
    if isinstance(n, int):
        n = f.N[n]
    if n.get('v') is not None:
        return n['v']
    env = f.__dict__.get('_wr_env') or {}
    u = f.unwrap(n)
    if u.get('k') == 'DeclRefExpr' and u['n'] in env and env[u['n']][0] == 'const':
        return env[u['n']][1]
    if u.get('k') == 'UnaryOperator' and u.get('op') == '!':
        v = _cond_const(f, u['kids'][0])
        return None if v is None else int(not v)
    if u.get('k') == 'BinaryOperator' and u.get('op') in ('==', '!='):
        a, b = _cond_const(f, u['kids'][0]), _cond_const(f, u['kids'][1])
        if a is not None and b is not None:
            return int((a == b) == (u['op'] == '=='))
    return None


def _tail_helper(f, c):
    """`return helper (args)` where helper is a static function of the same file: (helper, call) or None"""
    if c['k'] != 'ReturnStmt' or not c.get('kids') or getattr(f, 'prog', None) is None:
        return None
    e = f.unwrap(f.N[c['kids'][0]])
    if e.get('k') != 'CallExpr':
        return None
    gs = f.prog.fns.get(e.get('callee') or '', [])
    if len(gs) == 1 and gs[0].static and gs[0].file == f.file and gs[0].name != f.name and len(list(gs[0].walk())) < 600 and not gs[0].__dict__.get('_wr_noinline'):
        return gs[0], e
    return None


def _temps(f):
    """local temporaries that are nothing but a name for an expression: exactly one definition (initialiser or one assignment), a right-hand side
    without calls / assignments / increments, and no operand of it assigned after the definition.  name -> defining expression node"""
    t = f.__dict__.get('_wr_temps')
    if t is not None:
        return t
    from .util import local_defs, assigned_lvalues
    t = {}
    params = {p_['n'] for p_ in f.params}
    al = assigned_lvalues(f)
    taken = {f.s(f.unwrap(f.N[x['kids'][0]])) for x in f.walk() if x['k'] == 'UnaryOperator' and x.get('op') == '&'}
    for nm, ds in local_defs(f).items():
        if nm in params or nm in taken or len(ds) != 1 or ds[0] is None:
            continue
        d = ds[0] if isinstance(ds[0], dict) else f.N[ds[0]]
        if any(x['k'] in ('CallExpr', 'CompoundAssignOperator', 'ConditionalOperator') or (x['k'] == 'BinaryOperator' and x.get('op') == '=') or
               (x['k'] == 'UnaryOperator' and x.get('op') in ('++', '--', 'post++', 'post--')) for x in f.walk(d)):
            continue
        if f.unwrap(d).get('k') != 'BinaryOperator' or '*' in (d.get('t') or ''):
            continue            # plain copies and pointer aliases (psf = (SF_PRIVATE *) sndfile) keep their names
        ops = {f.s(x) for x in f.walk(d) if x['k'] in ('DeclRefExpr', 'MemberExpr')}
        if not ops or nm in ops:
            continue
        # position of the definition: operands must not be assigned after it
        pos = (d.get('l', 0), d.get('c', 0))
        uses = [(x.get('l', 0), x.get('c', 0)) for x in f.walk() if x['k'] == 'DeclRefExpr' and x.get('n') == nm]
        if any(lv in ops and any(pos < (a.get('l', 0), a.get('c', 0)) < u for u in uses) for lv, a, r in al):
            continue            # some use sees other operand values than the definition did: keep the name everywhere
        t[nm] = (d, ops, pos, al)
    f.__dict__['_wr_temps'] = t
    return t


def sheet(f, T, n=None):
    """nested fact sheet of statement n (default body)"""
    n = f.N[f.body] if n is None else (f.N[n] if isinstance(n, int) else n)
    k = n['k']
    if k == 'CompoundStmt':
        out = []
        for c in f.kids(n):
            th = _tail_helper(f, c)
            if th is not None:
                # the tail of the function was moved into a helper (possibly shared with a sibling and steered by a constant flag): the helper's sheet,
                # with its parameters standing for the arguments and branches on constant arguments resolved, takes the place of the return
                g, call = th
                env = {}
                for p_, a_ in zip(g.params, f.args(call)):
                    an = f.N[a_] if isinstance(a_, int) else a_
                    cv = _cond_const(f, an)
                    env[p_['n']] = ('const', cv) if cv is not None else ('str', norm_s(f, an, T))
                g.__dict__['_wr_noinline'] = True
                old_env = g.__dict__.get('_wr_env')
                g.__dict__['_wr_env'] = env
                try:
                    hs = sheet(g, T)
                finally:
                    g.__dict__['_wr_noinline'] = False
                    g.__dict__['_wr_env'] = old_env
                out.extend(hs if isinstance(hs, list) and (not hs or isinstance(hs[0], list)) else [hs])
                continue
            # statements extracted into a static helper of the same file still count at the place of the call: the helper's sheet goes in front
            if c['k'] in ('IfStmt', 'CallExpr', 'BinaryOperator', 'ReturnStmt') and getattr(f, 'prog', None) is not None and not f.__dict__.get('_wr_noinline'):
                root = f.N[c['cond']] if c['k'] == 'IfStmt' else c
                for cc in f.calls(root=root):
                    gs = f.prog.fns.get(cc.get('callee') or '', [])
                    if len(gs) == 1 and gs[0].static and gs[0].file == f.file and gs[0].name != f.name and len(list(gs[0].walk())) < 400:
                        gs[0].__dict__['_wr_noinline'] = True
                        try:
                            out.append(['inline', gs[0].name, sheet(gs[0], T)])
                        finally:
                            gs[0].__dict__['_wr_noinline'] = False
            s = sheet(f, T, c)
            if isinstance(s, list) and c['k'] == 'CompoundStmt':
                out.extend(s)        # flatten nested compounds (macro bodies)
            elif s is not None:
                out.append(s)
        return out
    if k == 'IfStmt':
        cv = _cond_const(f, n['cond'])
        if cv == 0 and 'else' not in n:
            return None          # if (0) ... : dead (macro argument), takes part in no fact
        if cv == 0:
            return sheet(f, T, n['else'])
        if cv is not None and cv != 0:
            return sheet(f, T, n['then'])
        if 'else' not in n:
            # `if (a) if (b) X` and `if (a && b) X` are one thing
            inner = f.N[n['then']] if isinstance(n['then'], int) else n['then']
            while inner['k'] == 'CompoundStmt' and len([x for x in f.kids(inner) if x['k'] != 'NullStmt']) == 1:
                inner = [x for x in f.kids(inner) if x['k'] != 'NullStmt'][0]
            if inner['k'] == 'IfStmt' and 'else' not in inner and _cond_const(f, inner['cond']) is None:
                isub = sheet(f, T, inner)
                if isinstance(isub, list) and isub and isub[0] == 'if' and len(isub) == 3:
                    return ['if', '(%s && %s)' % (norm_s(f, n['cond'], T), isub[1]), isub[2]]
        if 'else' in n:
            # `if (a > b) Y else X` is `if (a <= b) X else Y`: two-armed tests are oriented towards <=, <, ==
            cu = f.unwrap(f.N[n['cond']] if isinstance(n['cond'], int) else n['cond'])
            neg = {'>': '<=', '>=': '<', '!=': '=='}
            if cu.get('k') == 'BinaryOperator' and cu.get('op') in neg:
                return ['if', '(%s %s %s)' % (norm_s(f, cu['kids'][0], T), neg[cu['op']], norm_s(f, cu['kids'][1], T)), sheet(f, T, n['else']), sheet(f, T, n['then'])]
            if cu.get('k') == 'UnaryOperator' and cu.get('op') == '!':
                return ['if', norm_s(f, cu['kids'][0], T), sheet(f, T, n['else']), sheet(f, T, n['then'])]
        r = ['if', norm_s(f, n['cond'], T), sheet(f, T, n['then'])]
        if 'else' in n:
            r.append(sheet(f, T, n['else']))
        return r
    if k == 'ReturnStmt':
        return ['return', norm_s(f, n['kids'][0], T) if n['kids'] else '']
    if k == 'DeclStmt':
        ds = [d for d in n.get('decls', []) if 'init' in d and d['init'] >= 0 and d['n'] not in _temps(f)]
        return ['decl'] + ['%s = %s' % (d['n'], norm_s(f, d['init'], T)) for d in ds] if ds else None
    if k == 'NullStmt':
        return None
    if k in ('WhileStmt', 'ForStmt', 'DoStmt', 'SwitchStmt'):
        return [k, norm_s(f, n['cond'], T) if 'cond' in n else '', sheet(f, T, n['body'])]
    if 't' in n:
        if k == 'BinaryOperator' and n.get('op') == '=' and f.unwrap(f.N[n['kids'][0]]).get('k') == 'DeclRefExpr' and f.unwrap(f.N[n['kids'][0]])['n'] in _temps(f):
            return None          # the one assignment that defines a temporary
        return ['expr', norm_s(f, n, T)]
    return [k]


def diff(a, b, path=''):
    """first difference between two sheets: (path, a, b) or None"""
    if type(a) != type(b):
        return (path, a, b)
    if isinstance(a, list):
        for i in range(max(len(a), len(b))):
            if i >= len(a) or i >= len(b):
                return ('%s[%d]' % (path, i), a[i] if i < len(a) else '<missing>', b[i] if i < len(b) else '<missing>')
            d = diff(a[i], b[i], '%s[%d]' % (path, i))
            if d:
                return d
        return None
    return None if a == b else (path, a, b)


def guards(sh):
    """ordered list of top-level rejecting guards of a sheet: (cond, [stores/calls], return value)"""
    out = []
    for s in sh:
        if isinstance(s, list) and s and s[0] == 'if' and len(s) == 3:
            body = s[2] if isinstance(s[2], list) and s[2] and isinstance(s[2][0], list) else [s[2]]
            if body and isinstance(body[-1], list) and body[-1][0] == 'return':
                stmts = []
                for x in body[:-1]:
                    if isinstance(x, list) and x and x[0] == 'expr':
                        stmts.append(x[1])
                    elif isinstance(x, list) and len(x) == 3 and x[0] == 'if' and x[1].replace(' ', '') in ('(psf->error==SFE_NO_ERROR)', '(psf->error==0)', '!psf->error'):
                        # `if (psf->error == SFE_NO_ERROR) psf->error = SFE_X` : an error is recorded either way
                        inner = x[2] if isinstance(x[2], list) and x[2] and isinstance(x[2][0], list) else [x[2]]
                        stmts += [y[1] for y in inner if isinstance(y, list) and y and y[0] == 'expr']
                out.append((s[1], stmts, body[-1][1]))
    # a guard that tests the result of an inlined helper: what the helper stored before it reported failure belongs to the guard
    for i, s in enumerate(sh):
        if isinstance(s, list) and s and s[0] == 'inline' and i + 1 < len(sh):
            nxt = sh[i + 1]
            if isinstance(nxt, list) and nxt and nxt[0] == 'if' and (s[1] + '(') in str(nxt[1]):
                import json as _json
                flat = _json.dumps(s[2])
                for k_, (c_, st_, rv_) in enumerate(out):
                    if c_ == nxt[1]:
                        extra = [x for x in ('psf->error = SFE_', '(psf->error = ') if x in flat]
                        if extra:
                            out[k_] = (c_, st_ + ['(psf->error = SFE_* recorded inside the helper %s)' % s[1]], rv_)
    return out
