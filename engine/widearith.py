"""Two rules about 64-bit quantities squeezed through int.

WIDE-PRODUCT  A quantity that grows with the size of the file (a block count, a block index, ...) is recognisable in the source: it is an int that was
              computed from a 64-bit value (psf->datalength / blocksize, offset / samplesperblock) or copied from such an int.  When such a quantity is
              multiplied in 32-bit arithmetic and the result is then widened to 64 bits (stored into sf.frames / datalength, added to dataoffset, compared
              with or returned as an sf_count_t), the product has wrapped before it was widened once the file is large enough (a WAV / IMA ADPCM file of
              2^31 frames is 1 GB).  Obligation: at every widening conversion (int -> 64 bit) whose operand is 32-bit arithmetic containing a product
              with such an operand, A-PENT bounds the product within the 32-bit type; otherwise the multiplication must be done in 64 bits.

COUNT-NARROW  In every function installed in a typed read / write slot, a 64-bit value (the request `len`, the result of psf_fread) that is converted to a
              narrower integer type (assignment to an int, argument for an int parameter, explicit cast) is bounded within that type by A-PENT at the
              conversion - the chunking idiom `n = (len > 0x10000000) ? 0x10000000 : (int) len` is what the code base does everywhere else.  Only the
              upper side is judged (counts are positive by the wrapper contract, WRAPPER).  The result of a call through a typed slot is at most its
              request (READ-COUNT / WRAPPER): bounded when the request is.
"""
import os
from .model import int_type
from .bounds import Bounds
from .util import assigned_lvalues

VENDORED = ('/ALAC/', '/GSM610/', '/G72x/')
TYPED = ('read_short', 'read_int', 'read_float', 'read_double', 'write_short', 'write_int', 'write_float', 'write_double')


def _is64(n):
    it = int_type(n.get('t'))
    return bool(it) and it[0] >= 64


def _narrow_int(t):
    it = int_type(t)
    return bool(it) and it[0] <= 32


def _lib(prog):
    return [f for f in sorted(prog.lib_fns(), key=lambda f: (f.file, f.line)) if not any(d in f.file for d in VENDORED)]


def size_taint(prog):
    """(tainted (record, field) pairs, {function key: tainted local names}): ints computed from 64-bit values, transitively"""
    fns = _lib(prog)
    tf, tl = set(), {}

    def has64(f, r):
        return any(x['k'] in ('DeclRefExpr', 'MemberExpr') and x.get('v') is None and _is64(x) and not (x['k'] == 'DeclRefExpr' and x.get('dk') == 'enum') for x in f.walk(r))

    def mentions(f, r, loc):
        # source: a quotient of a 64-bit length / position (a count of blocks or frames), or a 64-bit variable itself cut to int
        u = f.unwrap(r)
        if u.get('k') == 'BinaryOperator' and u.get('op') == '/' and has64(f, f.N[u['kids'][0]]):
            return True
        if u.get('k') in ('DeclRefExpr', 'MemberExpr') and u.get('v') is None and _is64(u):
            return True
        if u.get('k') == 'BinaryOperator' and u.get('op') in ('+', '-') and any(mentions(f, f.N[k_], loc) for k_ in u['kids']):
            return True
        # propagation: arithmetic on something already known to grow with the file
        for x in f.walk(r):
            k = x['k']
            if k == 'DeclRefExpr' and x.get('n') in loc:
                return True
            if k == 'MemberExpr' and (x.get('rec'), x.get('n')) in tf:
                return True
        return False
    changed = True
    rounds = 0
    while changed and rounds < 6:
        changed = False
        rounds += 1
        for f in fns:
            key = (f.name, f.file)
            loc = tl.setdefault(key, set())
            defs = []
            for lv, a, r in assigned_lvalues(f):
                if r is not None and a.get('op') == '=':
                    defs.append((f.unwrap(f.N[a['kids'][0]]), r))
            for n in f.walk():
                if n['k'] == 'DeclStmt':
                    for d in n.get('decls', []):
                        if 'init' in d and d['init'] >= 0:
                            defs.append(({'k': 'DeclRefExpr', 'n': d['n'], 't': d.get('t')}, f.N[d['init']]))
            for l, r in defs:
                if not _narrow_int(l.get('t')):
                    continue
                if not mentions(f, r, loc):
                    continue
                if l['k'] == 'DeclRefExpr':
                    if l['n'] not in loc:
                        loc.add(l['n'])
                        changed = True
                elif l['k'] == 'MemberExpr' and l.get('rec'):
                    if (l['rec'], l['n']) not in tf:
                        tf.add((l['rec'], l['n']))
                        changed = True
    size_taint.mentions = mentions
    return tf, tl


def wide_product(ctx, prog, eff, rule='WIDE-PRODUCT'):
    tf, tl = size_taint(prog)
    mentions = size_taint.mentions
    n = 0
    for f in _lib(prog):
        loc = tl.get((f.name, f.file), set())
        bd = None
        for x in f.walk():
            if x['k'] != 'ImplicitCastExpr' or x.get('ck') != 'IntegralCast' or not _is64(x):
                continue
            sub = f.N[x['kids'][0]]
            if not _narrow_int(sub.get('t')) or sub.get('v') is not None:
                continue
            # products inside the 32-bit arithmetic that is being widened
            prods, st = [], [sub]
            while st:
                y = st.pop()
                if y['k'] == 'ParenExpr':
                    st.append(f.N[y['kids'][0]])
                elif y['k'] == 'BinaryOperator' and y.get('op') in ('+', '-', '*') and _narrow_int(y.get('t')) and y.get('v') is None:
                    if y['op'] == '*':
                        prods.append(y)
                    st += [f.N[y['kids'][0]], f.N[y['kids'][1]]]
                elif y['k'] == 'ImplicitCastExpr' and y.get('ck') in ('IntegralCast', 'LValueToRValue') and _narrow_int(y.get('t')) and _narrow_int(f.N[y['kids'][0]].get('t')):
                    st.append(f.N[y['kids'][0]])
            if prods:
                n += 1
            pt = f.cfg.point(x)
            flagged = False
            for pr in prods:
                if pt is None:
                    continue
                if bd is None:
                    bd = Bounds(prog, f, eff)

                def tainted(z):
                    for w in f.walk(z):
                        if w['k'] == 'DeclRefExpr' and w.get('n') in loc:
                            # a local: one of the definitions that reach this point must be such a quantity (the same name may hold a small header field earlier)
                            rd = bd.reaching_defs(w['n'], pt)
                            if any(d_[0] == 'def' and d_[2] is not None and mentions(f, f.N[d_[2]] if isinstance(d_[2], int) else d_[2], loc) for d_ in rd):
                                return f.s(w)
                        if w['k'] == 'MemberExpr' and (w.get('rec'), w.get('n')) in tf:
                            return f.s(w)
                    return None
                tv = tainted(pr)
                if tv is None:
                    continue
                flagged = True
                a, b = bd.ev_at(f.N[pr['kids'][0]], pt), bd.ev_at(f.N[pr['kids'][1]], pt)
                it = int_type(pr.get('t'))
                lim = (1 << (it[0] - 1)) - 1 if it[1] else (1 << it[0]) - 1
                fin = all(v is not None for v in (a.lo, a.hi, b.lo, b.hi))
                ok = fin and max(abs(a.lo), abs(a.hi)) * max(abs(b.lo), abs(b.hi)) <= lim
                key = '%s:%s' % (f.name, f.s(pr).replace(' ', '')[:60])
                ctx.ob(rule, key, ok, f.loc(pr), ('product `%s` stays within %s (%r x %r)' % (f.s(pr)[:50], pr.get('t'), a, b))[:200] if ok else
                       '`%s` is multiplied in %s and only then widened to %s; `%s` grows with the size of the file (it was computed from a 64-bit length / offset), '
                       'so the product wraps for large files before it is widened: do the multiplication in 64 bits' % (f.s(pr)[:60], pr.get('t'), x.get('t'), tv), None)
            if prods and not flagged:
                ctx.ob(rule, '%s:%s' % (f.name, f.s(sub).replace(' ', '')[:60]), True, f.loc(x), 'no factor of `%s` grows with the size of the file' % f.s(sub)[:60], None)
    return n


def _support(prog, f, kind):
    if kind == 'alac-reset':
        # writecount == 0 would need partial_block_frames == frames_per_block at the head of the loop: the writer encodes (and alac_encode_block resets the
        # fill count to 0) as soon as the block is full
        enc = prog.fns.get('alac_encode_block', [])
        resets = any(lv.endswith('partial_block_frames') and r is not None and g.unwrap(r).get('v') == 0 for g in enc for lv, a, r in assigned_lvalues(g))
        guarded = any(c for c in f.calls('alac_encode_block') if any(a_['k'] == 'IfStmt' and 'partial_block_frames >= ' in f.s(a_['cond']) for a_ in f.ancestors(c)))
        return resets and guarded
    return False


def load_frozen(path):
    out = {}
    if os.path.exists(path):
        for line in open(path):
            line = line.rstrip('\n')
            if not line or line.startswith('#'):
                continue
            p = line.split('\t')
            if len(p) >= 3:
                out[p[0]] = (p[1], p[2])
    return out


def count_narrow(ctx, prog, eff, rule='COUNT-NARROW', frozen=None, fns=None):
    frozen = frozen or {}
    seen, n = set(), 0
    given = fns
    fns = []
    for f in (given or []):
        seen.add((f.name, f.file))
        fns.append(f)
    for fld in (TYPED if given is None else ()):
        for f in prog.slot_fns(fld):
            if (f.name, f.file) not in seen:
                seen.add((f.name, f.file))
                fns.append(f)
    for f in sorted(fns, key=lambda f: (f.file, f.line)):
        bd = Bounds(prog, f, eff)
        k = 0
        for x in f.walk():
            if x['k'] not in ('ImplicitCastExpr', 'CStyleCastExpr') or x.get('ck') != 'IntegralCast':
                continue
            tt = int_type(x.get('t'))
            sub = f.N[x['kids'][0]]
            st = int_type(sub.get('t'))
            if not tt or not st or st[0] < 64 or tt[0] >= st[0]:
                continue
            inner = f.unwrap(sub)
            if inner.get('v') is not None:
                continue
            pt = f.cfg.point(x)
            if pt is None:
                continue
            n += 1
            k += 1
            key = '%s:#%d' % (f.name, k)
            lim = (1 << (tt[0] - 1)) - 1 if tt[1] else (1 << tt[0]) - 1
            b = bd.ev_at(sub, pt)
            ok = b.hi is not None and b.hi <= lim
            why = 'bounded by %s' % b.hi
            if not ok and inner.get('k') == 'CallExpr':
                # result of a typed read / write call (direct or through the slot): at most what was asked for
                sl = prog.indirect_callee_slot(f, inner)
                typed = (sl and sl[1] in TYPED) or any((g.name, g.file) in seen for g in prog.fns.get(inner.get('callee') or '', []))
                args = f.args(inner)
                if typed and len(args) >= 3:
                    rb = bd.ev_at(f.N[args[2]] if isinstance(args[2], int) else args[2], pt)
                    if rb.hi is not None and rb.hi <= lim:
                        ok, why = True, 'result of a typed read / write call whose request is bounded by %s' % rb.hi
            fk = '%s:%s' % (f.name, f.s(inner).replace(' ', '')[:40])
            if not ok and fk in frozen and _support(prog, f, frozen[fk][0]):
                ctx.ob(rule, key, True, f.loc(x), 'frozen (tables/c05_countnarrow.tsv), supporting fact `%s` re-established from the source: %s' % frozen[fk], None)
                continue
            ctx.ob(rule, key, ok, f.loc(x), ('`%s` (%s) -> %s: %s' % (f.s(inner)[:50], sub.get('t'), x.get('t'), why)) if ok else
                   '`%s` (%s) is cut to %s without a bound (A-PENT: %s): a request of 2^31 items or more is truncated - the call then reports a wrong or negative count, '
                   'or works on a part of the buffer only' % (f.s(inner)[:50], sub.get('t'), x.get('t'), str(b)[:60]), None)
    return n
